//! Correspondence harness for engine `treap` (properties C03 and C16): drives
//! rlib_treap::{Treap, TreapNode} in-process on a vector of live treaps.
//!
//! Case line:  `<C03|C16> <sum|aff|key> <ctl|own|big> [pm=k] ; op ; op ; ...`   (see lean/Driver/Treap.lean)
//!   ctl  priorities are in the case and are written into the public `priority` field;
//!   own  priorities are the ones rlib draws (`*`), only sequence-level observables are compared;
//!   big  (C16) macro operations up to 10^6 elements: heap order on every edge, measured height;
//!        wave 3: `strides S L`, `rr k c`, `thin s c`, `keep s` — the nodes of one treap are a subsequence of the thread's creations.
//!   wave 4: `inserttag i k v p m…`, `moveroot i take|clone j pos p` — `insert_at` of items that carry a pending modification.
#[path = "../../common/mod.rs"]
mod common;
mod gen;
mod items;
use common::*;
use items::*;
use rlib_treap::{Treap, TreapItem, TreapNode};

type Link<I> = Option<Box<TreapNode<I>>>;

/// min-heap order on every parent-child edge, read through the public fields (explicit stack)
fn heap_ok<I>(root: &Link<I>) -> bool {
    let mut st: Vec<&TreapNode<I>> = Vec::new();
    if let Some(r) = root.as_deref() {
        st.push(r);
    }
    while let Some(n) = st.pop() {
        for c in [n.left.as_deref(), n.right.as_deref()].into_iter().flatten() {
            if c.priority < n.priority {
                return false;
            }
            st.push(c);
        }
    }
    true
}

/// the tie-tolerant invariant `HeapR` (left child >= parent, right child > parent): by the theorem
/// `shape_canonical_ties` this says the tree is the Cartesian tree of its in-order priorities
fn heap_r_ok<I>(root: &Link<I>) -> bool {
    let mut st: Vec<&TreapNode<I>> = Vec::new();
    if let Some(r) = root.as_deref() {
        st.push(r);
    }
    while let Some(n) = st.pop() {
        if let Some(c) = n.left.as_deref() {
            if c.priority < n.priority {
                return false;
            }
            st.push(c);
        }
        if let Some(c) = n.right.as_deref() {
            if c.priority <= n.priority {
                return false;
            }
            st.push(c);
        }
    }
    true
}

/// (height, number of nodes), explicit stack
fn height_count<I>(root: &Link<I>) -> (usize, usize) {
    let mut st: Vec<(&TreapNode<I>, usize)> = Vec::new();
    if let Some(r) = root.as_deref() {
        st.push((r, 1));
    }
    let (mut h, mut cnt) = (0, 0);
    while let Some((n, d)) = st.pop() {
        cnt += 1;
        h = h.max(d);
        for c in [n.left.as_deref(), n.right.as_deref()].into_iter().flatten() {
            st.push((c, d + 1));
        }
    }
    (h, cnt)
}

/// the bound of C16: height <= 5*log2(n+1) + 20
fn height_bound(n: usize) -> f64 {
    5.0 * ((n + 1) as f64).log2() + 20.0
}

fn prios_inorder<I>(root: &Link<I>, out: &mut Vec<u32>) {
    if let Some(n) = root.as_deref() {
        prios_inorder(&n.left, out);
        out.push(n.priority);
        prios_inorder(&n.right, out);
    }
}

fn shape<I>(root: &Link<I>, out: &mut String) {
    match root.as_deref() {
        None => out.push('.'),
        Some(n) => {
            out.push('(');
            shape(&n.left, out);
            out.push_str(&n.priority.to_string());
            shape(&n.right, out);
            out.push(')');
        }
    }
}

/// placeholder left behind when a treap is moved out of the vector (a user would write the same)
fn empty<I: TreapItem>() -> Treap<I> {
    Treap::new()
}

fn take<I: TreapItem>(ts: &mut [Treap<I>], i: usize) -> Treap<I> {
    std::mem::replace(&mut ts[i], empty())
}

fn with_prio<I: HItem>(v: i64, p: &str) -> Option<Box<TreapNode<I>>> {
    let mut node = Box::new(TreapNode::new(I::mk(v)));
    if p != "*" {
        node.priority = p.parse::<u32>().ok()?;
    }
    Some(node)
}

fn pred_of(rel: &str, c: i128) -> Option<Box<dyn Fn(i128) -> bool>> {
    match rel {
        "lt" => Some(Box::new(move |e| e < c)),
        "le" => Some(Box::new(move |e| e <= c)),
        "gt" => Some(Box::new(move |e| e > c)),
        "ge" => Some(Box::new(move |e| e >= c)),
        _ => None,
    }
}

/// One operation. `None` = invalid (names a treap that does not exist / malformed after shrinking).
/// Returns (raw observation, spec-level view of it).
fn step<I: HItem>(ts: &mut Vec<Treap<I>>, t: &[&str]) -> Option<(String, String)> {
    let idx = |s: &str, n: usize| -> Option<usize> { s.parse::<usize>().ok().filter(|&i| i < n) };
    let same = |s: String| Some((s.clone(), s));
    match t {
        ["new"] => {
            ts.push(Treap::new());
            same("-".into())
        }
        ["item", v, p] => {
            let v: i64 = v.parse().ok()?;
            let mut tr = Treap::from_item(I::mk(v));
            if *p != "*" {
                tr.root.as_mut().unwrap().priority = p.parse::<u32>().ok()?;
            }
            ts.push(tr);
            same("-".into())
        }
        ["merge", i, j] => {
            let (i, j) = (idx(i, ts.len())?, idx(j, ts.len())?);
            if i == j {
                return None;
            }
            let a = take(ts, i);
            let b = take(ts, j);
            ts[i] = Treap::merge(a, b);
            let s = ts[i].size();
            ts.remove(j);
            same(format!("n:{}", s))
        }
        ["splitat", i, k] => {
            let i = idx(i, ts.len())?;
            let k: usize = k.parse().ok()?;
            let (l, r) = take(ts, i).split_at(k);
            let s = format!("n:{}+{}", l.size(), r.size());
            ts[i] = l;
            ts.push(r);
            same(s)
        }
        ["splitby", i, rel, c] => {
            let i = idx(i, ts.len())?;
            let g = pred_of(rel, c.parse().ok()?)?;
            let (l, r) = take(ts, i).split_by(|it| g(it.own()));
            let s = format!("n:{}+{}", l.size(), r.size());
            ts[i] = l;
            ts.push(r);
            same(s)
        }
        ["insert", i, k, v, p] => {
            let i = idx(i, ts.len())?;
            let k: usize = k.parse().ok()?;
            let v: i64 = v.parse().ok()?;
            if *p == "*" {
                ts[i].insert_at(k, I::mk(v));
            } else {
                // `insert_at` draws the priority itself; with a given priority it is its own definition
                let node = with_prio::<I>(v, p)?;
                let (l, r) = TreapNode::split_at(ts[i].root.take(), k);
                ts[i].root = TreapNode::merge(TreapNode::merge(l, Some(node)), r);
            }
            same(format!("n:{}", ts[i].size()))
        }
        ["remove", i, k] => {
            let i = idx(i, ts.len())?;
            let k: usize = k.parse().ok()?;
            let tr = &mut ts[i];
            match catch(|| tr.remove_at(k).own()) {
                Ok(v) => same(format!("rm:{}", v)),
                Err(e) => Some((format!("rm:{}", e), "rm:panic".into())),
            }
        }
        ["first", i] => {
            let i = idx(i, ts.len())?;
            same(match ts[i].first() {
                Some(x) => format!("some:{}", x.own()),
                None => "none".into(),
            })
        }
        ["last", i] => {
            let i = idx(i, ts.len())?;
            same(match ts[i].last() {
                Some(x) => format!("some:{}", x.own()),
                None => "none".into(),
            })
        }
        ["collect", i] => {
            let i = idx(i, ts.len())?;
            let v: Vec<String> = ts[i].collect().into_iter().map(|x| x.own().to_string()).collect();
            same(format!("[{}]", v.join(",")))
        }
        ["size", i] => {
            let i = idx(i, ts.len())?;
            if ts[i].is_empty() != (ts[i].size() == 0) {
                return same(format!("n:{}!is_empty={}", ts[i].size(), ts[i].is_empty()));
            }
            same(format!("n:{}", ts[i].size()))
        }
        ["agg", i] => {
            let i = idx(i, ts.len())?;
            same(match ts[i].root() {
                Some(x) => format!("g:{}", x.agg_s()),
                None => "g:none".into(),
            })
        }
        ["drop", i] => {
            let i = idx(i, ts.len())?;
            ts.remove(i);
            same("-".into())
        }
        // ---- re-use of what the API handed back -------------------------------------------------
        ["move", i, k, j, pos, p] => {
            // `let it = ts[i].remove_at(k); ts[j].insert_at(pos, it);` — the returned item itself is re-used
            let (i, j) = (idx(i, ts.len())?, idx(j, ts.len())?);
            let k: usize = k.parse().ok()?;
            let pos: usize = pos.parse().ok()?;
            let prio: Option<u32> = if *p == "*" { None } else { Some(p.parse::<u32>().ok()?) };
            let tr = &mut ts[i];
            match catch(|| tr.remove_at(k)) {
                Err(e) => Some((format!("rm:{}", e), "rm:panic".into())),
                Ok(it) => {
                    let x = it.own();
                    match prio {
                        None => ts[j].insert_at(pos, it),
                        Some(pr) => {
                            // with a given priority `insert_at` is its own definition
                            let mut node = Box::new(TreapNode::new(it));
                            node.priority = pr;
                            let (l, r) = TreapNode::split_at(ts[j].root.take(), pos);
                            ts[j].root = TreapNode::merge(TreapNode::merge(l, Some(node)), r);
                        }
                    }
                    same(format!("mv:{}:n:{}", x, ts[j].size()))
                }
            }
        }
        ["take", i, k, p] => {
            // `Treap::from_item(ts[i].remove_at(k))`
            let i = idx(i, ts.len())?;
            let k: usize = k.parse().ok()?;
            let prio: Option<u32> = if *p == "*" { None } else { Some(p.parse::<u32>().ok()?) };
            let tr = &mut ts[i];
            match catch(|| tr.remove_at(k)) {
                Err(e) => Some((format!("rm:{}", e), "rm:panic".into())),
                Ok(it) => {
                    let x = it.own();
                    let mut t2 = Treap::from_item(it);
                    if let Some(pr) = prio {
                        t2.root.as_mut().unwrap().priority = pr;
                    }
                    ts.push(t2);
                    same(format!("rm:{}", x))
                }
            }
        }
        ["dup", i, w, p] => {
            // clone the ONLY element of a treap (a clone of an interior node's item is not a fresh item)
            let i = idx(i, ts.len())?;
            let prio: Option<u32> = if *p == "*" { None } else { Some(p.parse::<u32>().ok()?) };
            let c: Option<I> = if ts[i].size() <= 1 {
                match *w {
                    "first" => ts[i].first().cloned(),
                    "last" => ts[i].last().cloned(),
                    "collect" => ts[i].collect().first().map(|x| (*x).clone()),
                    _ => return None,
                }
            } else {
                if !matches!(*w, "first" | "last" | "collect") {
                    return None;
                }
                None
            };
            dup_push(ts, c.map(|c| (c.own(), c)), prio)
        }
        ["collect2", i, j] => {
            let (i, j) = (idx(i, ts.len())?, idx(j, ts.len())?);
            same(collect2(ts, i, j, |x| x.own())?)
        }
        // ---- items that still CARRY A PENDING MODIFICATION are handed to `insert_at` ---------------------
        ["inserttag", i, k, v, p, rest @ ..] => {
            // `let mut it = Item::new(v); it.modify(m); ts[i].insert_at(k, it);`
            let i = idx(i, ts.len())?;
            let k: usize = k.parse().ok()?;
            let v: i64 = v.parse().ok()?;
            let prio: Option<u32> = if *p == "*" { None } else { Some(p.parse::<u32>().ok()?) };
            let m = I::parse_tag(rest)?;
            let mut it = I::mk(v);
            it.modify(&m);
            let x = it.own();
            insert_item(&mut ts[i], k, it, prio);
            same(format!("mv:{}:n:{}", x, ts[i].size()))
        }
        ["moveroot", i, w, j, pos, p] => {
            // the item at the root of a ONE-element treap, read through the public `root` field (nobody pushed it:
            // it carries whatever was attached to that treap), goes to `ts[j].insert_at(pos, it)`
            let (i, j) = (idx(i, ts.len())?, idx(j, ts.len())?);
            let pos: usize = pos.parse().ok()?;
            let prio: Option<u32> = if *p == "*" { None } else { Some(p.parse::<u32>().ok()?) };
            if !matches!(*w, "take" | "clone") {
                return None;
            }
            if ts[i].size() != 1 {
                return same("none".into());
            }
            let it: I = if *w == "take" { ts[i].root.take().unwrap().item } else { ts[i].root().unwrap().clone() };
            let x = it.own();
            insert_item(&mut ts[j], pos, it, prio);
            same(format!("mv:{}:n:{}", x, ts[j].size()))
        }
        ["tag", i, rest @ ..] => {
            let i = idx(i, ts.len())?;
            let m = I::parse_tag(rest)?;
            if let Some(x) = ts[i].root_mut() {
                x.modify(&m);
            }
            same("-".into())
        }
        _ => None,
    }
}

/// `t.insert_at(pos, it)` — the real call when rlib draws the priority (`*`); with a given priority `insert_at` is its
/// own definition (split_at, a node with that priority, merge, merge)
fn insert_item<I: HItem>(t: &mut Treap<I>, pos: usize, it: I, prio: Option<u32>) {
    match prio {
        None => t.insert_at(pos, it),
        Some(pr) => {
            let mut node = Box::new(TreapNode::new(it));
            node.priority = pr;
            let (l, r) = TreapNode::split_at(t.root.take(), pos);
            t.root = TreapNode::merge(TreapNode::merge(l, Some(node)), r);
        }
    }
}

/// `Treap::from_item(clone)` (or `Treap::new()` when there was nothing to clone) becomes a new live treap
fn dup_push<I: TreapItem>(ts: &mut Vec<Treap<I>>, c: Option<(i128, I)>, prio: Option<u32>) -> Option<(String, String)> {
    let s = match c {
        Some((x, it)) => {
            let mut t2 = Treap::from_item(it);
            if let Some(pr) = prio {
                t2.root.as_mut().unwrap().priority = pr;
            }
            ts.push(t2);
            format!("some:{}", x)
        }
        None => {
            ts.push(Treap::new());
            "none".to_string()
        }
    };
    Some((s.clone(), s))
}

/// `TreapNode::collect_into` called directly: treap `i`, then treap `j`, into ONE vector — the second
/// call must append after what the first one left there
fn collect2<I: TreapItem>(ts: &mut [Treap<I>], i: usize, j: usize, own: impl Fn(&I) -> i128) -> Option<String> {
    if i == j {
        return None;
    }
    let (a, b) = if i < j {
        let (l, r) = ts.split_at_mut(j);
        (&mut l[i], &mut r[0])
    } else {
        let (l, r) = ts.split_at_mut(i);
        (&mut r[0], &mut l[j])
    };
    let mut v: Vec<&I> = Vec::new();
    if let Some(r) = a.root.as_mut() {
        r.collect_into(&mut v);
    }
    if let Some(r) = b.root.as_mut() {
        r.collect_into(&mut v);
    }
    let out: Vec<String> = v.into_iter().map(|x| own(x).to_string()).collect();
    Some(format!("[{}]", out.join(",")))
}

/// One operation on treaps of `KeyIt` — the item that relies on the trait's default `update`/`push` and has no
/// `TreapItemSized`: only `new item merge splitby first last collect collect2 size dup drop` exist. Sizes are the
/// number of nodes counted through the public fields.
fn step_key(ts: &mut Vec<Treap<KeyIt>>, t: &[&str]) -> Option<(String, String)> {
    let idx = |s: &str, n: usize| -> Option<usize> { s.parse::<usize>().ok().filter(|&i| i < n) };
    let same = |s: String| Some((s.clone(), s));
    let count = |t: &Treap<KeyIt>| height_count(&t.root).1;
    match t {
        ["new"] => {
            ts.push(Treap::new());
            same("-".into())
        }
        ["item", v, p] => {
            let v: i64 = v.parse().ok()?;
            let mut tr = Treap::from_item(KeyIt { x: v });
            if *p != "*" {
                tr.root.as_mut().unwrap().priority = p.parse::<u32>().ok()?;
            }
            ts.push(tr);
            same("-".into())
        }
        ["merge", i, j] => {
            let (i, j) = (idx(i, ts.len())?, idx(j, ts.len())?);
            if i == j {
                return None;
            }
            let a = take(ts, i);
            let b = take(ts, j);
            ts[i] = Treap::merge(a, b);
            let s = count(&ts[i]);
            ts.remove(j);
            same(format!("n:{}", s))
        }
        ["splitby", i, rel, c] => {
            let i = idx(i, ts.len())?;
            let g = pred_of(rel, c.parse().ok()?)?;
            let (l, r) = take(ts, i).split_by(|it| g(it.x as i128));
            let s = format!("n:{}+{}", count(&l), count(&r));
            ts[i] = l;
            ts.push(r);
            same(s)
        }
        ["first", i] => {
            let i = idx(i, ts.len())?;
            same(match ts[i].first() {
                Some(x) => format!("some:{}", x.x),
                None => "none".into(),
            })
        }
        ["last", i] => {
            let i = idx(i, ts.len())?;
            same(match ts[i].last() {
                Some(x) => format!("some:{}", x.x),
                None => "none".into(),
            })
        }
        ["collect", i] => {
            let i = idx(i, ts.len())?;
            let v: Vec<String> = ts[i].collect().into_iter().map(|x| x.x.to_string()).collect();
            same(format!("[{}]", v.join(",")))
        }
        ["collect2", i, j] => {
            let (i, j) = (idx(i, ts.len())?, idx(j, ts.len())?);
            same(collect2(ts, i, j, |x| x.x as i128)?)
        }
        ["size", i] => {
            let i = idx(i, ts.len())?;
            let n = count(&ts[i]);
            if ts[i].is_empty() != (n == 0) || ts[i].root().is_some() != (n > 0) {
                return same(format!("n:{}!is_empty={}", n, ts[i].is_empty()));
            }
            same(format!("n:{}", n))
        }
        ["dup", i, w, p] => {
            let i = idx(i, ts.len())?;
            let prio: Option<u32> = if *p == "*" { None } else { Some(p.parse::<u32>().ok()?) };
            if !matches!(*w, "first" | "last" | "collect") {
                return None;
            }
            let c: Option<KeyIt> = if count(&ts[i]) <= 1 {
                match *w {
                    "first" => ts[i].first().cloned(),
                    "last" => ts[i].last().cloned(),
                    _ => ts[i].collect().first().map(|x| (*x).clone()),
                }
            } else {
                None
            };
            dup_push(ts, c.map(|c| (c.x as i128, c)), prio)
        }
        ["drop", i] => {
            let i = idx(i, ts.len())?;
            ts.remove(i);
            same("-".into())
        }
        _ => None,
    }
}

type StepFn<I> = fn(&mut Vec<Treap<I>>, &[&str]) -> Option<(String, String)>;

fn run_hist<I: TreapItem>(focus: &str, stream: &str, ops: &[&str], step: StepFn<I>) -> String {
    let c16 = focus == "C16";
    let mut ts: Vec<Treap<I>> = Vec::new();
    let (mut raw, mut view): (Vec<String>, Vec<String>) = (Vec::new(), Vec::new());
    for op in ops {
        let t: Vec<&str> = op.split_whitespace().collect();
        match step(&mut ts, &t) {
            None => return out1("INVALID"),
            Some((r, v)) => {
                if c16 {
                    let mut ok = ts.iter().all(|t| heap_ok(&t.root));
                    if stream == "own" {
                        // rlib's own priorities: the measured height bound applies as well
                        ok = ok
                            && ts.iter().all(|t| {
                                let (h, n) = height_count(&t.root);
                                (h as f64) <= height_bound(n)
                            });
                    }
                    let tok = if ok { "ok" } else { "BAD" };
                    // raw additionally exposes whether ties are broken the way the model breaks them
                    let canon = ts.iter().all(|t| heap_r_ok(&t.root));
                    raw.push(if ok && !canon { "ok~tie-rule".into() } else { tok.into() });
                    view.push(tok.into());
                } else {
                    raw.push(r);
                    view.push(v);
                }
            }
        }
    }
    if c16 && stream == "ctl" {
        let (mut sr, mut sv): (Vec<String>, Vec<String>) = (Vec::new(), Vec::new());
        for t in ts.iter() {
            let mut ps = Vec::new();
            prios_inorder(&t.root, &mut ps);
            let mut sorted = ps.clone();
            sorted.sort_unstable();
            sorted.dedup();
            let mut s = String::from("shape:");
            shape(&t.root, &mut s);
            // view: the shape is part of the property only when priorities are pairwise distinct
            sv.push(if sorted.len() == ps.len() { s.clone() } else { "ties".to_string() });
            sr.push(s);
        }
        return out2(
            &format!("{} / {}", raw.join(" "), sr.join(" ")),
            &format!("{} / {}", view.join(" "), sv.join(" ")),
        );
    }
    out2(&raw.join(" "), &view.join(" "))
}

/// cheap early exit so that a degenerate priority source cannot make a run quadratic
fn early(t: &Treap<SumIt>, n: usize, it: usize) -> Result<(), String> {
    if it.is_power_of_two() && it >= 32 {
        let (h, _) = height_count(&t.root);
        if (h as f64) > height_bound(n) {
            return Err(format!("BAD(height={}>{:.1})", h, height_bound(n)));
        }
    }
    Ok(())
}

/// One macro operation of the `big` stream on one treap with rlib's own priorities.
/// `Err(None)` = malformed, `Err(Some(..))` = the height bound failed on the way.
fn big_op(t: &mut Treap<SumIt>, n: &mut usize, ctr: &mut i64, tk: &[&str]) -> Result<(), Option<String>> {
    if tk.len() < 2 || tk.len() > 3 {
        return Err(None);
    }
    let c: usize = tk[1].parse().map_err(|_| None)?;
    let seed: u64 = if tk.len() == 3 { tk[2].parse().map_err(|_| None)? } else { 1 };
    let mut rng = SplitMix64::new(seed);
    match (tk[0], tk.len()) {
        ("append", 2) | ("front", 2) | ("alt", 2) | ("mid", 2) | ("rand", 3) => {
            for it in 1..=c {
                let pos = match tk[0] {
                    "append" => *n,
                    "front" => 0,
                    "alt" => {
                        if it % 2 == 0 {
                            0
                        } else {
                            *n
                        }
                    }
                    "mid" => *n / 2,
                    _ => rng.below(*n as u64 + 1) as usize,
                };
                *ctr += 1;
                t.insert_at(pos, SumIt::mk(*ctr % 1000));
                *n += 1;
                early(t, *n, it).map_err(Some)?;
            }
        }
        ("singles", 2) | ("fromitem", 2) => {
            // the sequence is assembled from one-element treaps: many `Treap` objects are created
            for it in 1..=c {
                *ctr += 1;
                let single = if tk[0] == "singles" {
                    let mut s: Treap<SumIt> = Treap::new();
                    s.insert_at(0, SumIt::mk(*ctr % 1000));
                    s
                } else {
                    Treap::from_item(SumIt::mk(*ctr % 1000))
                };
                *t = Treap::merge(std::mem::replace(t, empty()), single);
                *n += 1;
                early(t, *n, it).map_err(Some)?;
            }
        }
        ("scratch", 2) => {
            // ordinary appends, but between two of them the treap is split, merged through an empty
            // scratch treap and merged back
            for it in 1..=c {
                *ctr += 1;
                t.insert_at(*n, SumIt::mk(*ctr % 1000));
                *n += 1;
                let (l, r) = std::mem::replace(t, empty()).split_at(*n / 2);
                let scratch: Treap<SumIt> = Treap::new();
                *t = Treap::merge(Treap::merge(l, scratch), r);
                early(t, *n, it).map_err(Some)?;
            }
        }
        ("burn", 2) => {
            // move the thread's priority stream forward: the case line says where the stream starts
            for _ in 0..c {
                let _ = TreapNode::new(SumIt::mk(0));
            }
        }
        // ---- the nodes of ONE treap are a SUBSEQUENCE of the thread's node creations ---------------------------
        ("rr", 3) => {
            // `rr k c`: k treaps (one per bucket / grid row) filled round-robin by c rounds of appends: the nodes of
            // treap j are the creations j, j+k, j+2k, …; every treap must satisfy the bound; at the end they are
            // concatenated behind the main treap (n grows by k*c)
            let (k, rounds) = (c, seed as usize);
            let mut rows: Vec<Treap<SumIt>> = (0..k).map(|_| Treap::new()).collect();
            for it in 1..=rounds {
                for row in rows.iter_mut() {
                    *ctr += 1;
                    row.insert_at(it - 1, SumIt::mk(*ctr % 1000));
                }
                if (it.is_power_of_two() && it >= 32) || it == rounds {
                    for (j, row) in rows.iter().enumerate() {
                        let (h, cnt) = height_count(&row.root);
                        if cnt != it || row.size() != it {
                            return Err(Some(format!("BAD(row={},nodes={},size={},expected={})", j, cnt, row.size(), it)));
                        }
                        if !heap_ok(&row.root) {
                            return Err(Some(format!("BAD(row={},heap)", j)));
                        }
                        if (h as f64) > height_bound(it) {
                            return Err(Some(format!("BAD(row={}-of-{},elements={},height={}>{:.1})", j, k, it, h, height_bound(it))));
                        }
                    }
                }
            }
            for (j, row) in rows.into_iter().enumerate() {
                *t = Treap::merge(std::mem::replace(t, empty()), row);
                *n += rounds;
                early(t, *n, j + 1).map_err(Some)?;
            }
        }
        ("thin", 3) => {
            // `thin s c`: c appends; between two of them s-1 nodes are created elsewhere on the thread (scratch nodes,
            // dropped): the treap's nodes are every s-th creation
            let (s, cnt) = (c.max(1), seed as usize);
            for it in 1..=cnt {
                for _ in 1..s {
                    let _ = TreapNode::new(SumIt::mk(0));
                }
                *ctr += 1;
                t.insert_at(*n, SumIt::mk(*ctr % 1000));
                *n += 1;
                early(t, *n, it).map_err(Some)?;
            }
        }
        ("keep", 2) => {
            // `keep s`: thin the sequence to every s-th element (positions s-1, 2s-1, …): cut off s-1 elements and drop
            // them, cut off one and append it to the result
            if c == 0 {
                return Err(None);
            }
            let mut rest = std::mem::replace(t, empty());
            let mut acc: Treap<SumIt> = Treap::new();
            let mut kept = 0usize;
            let mut remaining = *n;
            while remaining >= c {
                let (_drop, r) = rest.split_at(c - 1);
                let (one, r2) = r.split_at(1);
                rest = r2;
                remaining -= c;
                acc = Treap::merge(acc, one);
                kept += 1;
                if let Err(e) = early(&acc, kept, kept) {
                    *n = kept;
                    return Err(Some(e));
                }
            }
            *t = acc;
            *n = kept;
        }
        ("strides", 3) => {
            // `strides S L`: S*L nodes are created one after the other (`TreapNode::new`); then for EVERY stride
            // s = 1..=S (and two windows) the nodes o, o+s, o+2s, … (L of them) are linked into one treap by successive
            // `TreapNode::merge`, its height is compared with the bound, and it is taken apart again through the
            // public fields (`left.take()`, `right.take()`, `update()`): all arithmetic-progression subsequences of
            // the creations with stride <= S are tried on the same nodes.  The main treap is not touched.
            let (smax, len) = (c, seed as usize);
            if smax == 0 || len == 0 || smax.saturating_mul(len) > 64_000_000 {
                return Err(None);
            }
            strides_scan(smax, len).map_err(Some)?;
        }
        ("pieces", 3) => {
            // cut into `c` pieces at random positions, merge the split results back in order
            let mut parts: Vec<Treap<SumIt>> = Vec::new();
            let mut rest = std::mem::replace(t, empty());
            let mut remaining = *n;
            for _ in 1..c {
                if remaining == 0 {
                    break;
                }
                let k = rng.below(remaining as u64 + 1) as usize;
                let (l, r) = rest.split_at(k);
                parts.push(l);
                rest = r;
                remaining -= k;
            }
            parts.push(rest);
            let mut acc: Treap<SumIt> = Treap::new();
            for (it, part) in parts.into_iter().enumerate() {
                acc = Treap::merge(acc, part);
                early(&acc, acc.size().max(1), it + 1).map_err(Some)?;
            }
            *t = acc;
        }
        ("rot", 3) => {
            for it in 1..=c {
                let k = rng.below(*n as u64 + 1) as usize;
                let (l, r) = std::mem::replace(t, empty()).split_at(k);
                *t = Treap::merge(r, l);
                early(t, *n, it).map_err(Some)?;
            }
        }
        ("del", 3) => {
            for it in 1..=c.min(*n) {
                let k = rng.below(*n as u64) as usize;
                let _ = t.remove_at(k);
                *n -= 1;
                early(t, *n, it).map_err(Some)?;
            }
        }
        _ => return Err(None),
    }
    Ok(())
}

/// see `strides` in `big_op`; returns (largest height seen, the stride that had it)
fn strides_scan(smax: usize, len: usize) -> Result<(usize, usize), String> {
    let total = smax * len;
    let mut nodes: Vec<Link<SumIt>> = Vec::with_capacity(total);
    for i in 0..total {
        nodes.push(Some(Box::new(TreapNode::new(SumIt::mk((i % 1000) as i64)))));
    }
    let mut members: Vec<usize> = Vec::with_capacity(len);
    let mut stack: Vec<Box<TreapNode<SumIt>>> = Vec::new();
    let mut worst = (0usize, 0usize);
    for s in 1..=smax {
        // offset 0 and the last window that fits
        let last = total - 1 - (len - 1) * s;
        for o in [0usize, last] {
            members.clear();
            let mut root: Link<SumIt> = None;
            for j in 0..len {
                let idx = o + j * s;
                members.push(idx);
                root = TreapNode::merge(root, nodes[idx].take());
            }
            let (h, cnt) = height_count(&root);
            let size_ok = root.as_ref().map_or(0, |r| r.item.sz) == len && cnt == len;
            let heap = heap_ok(&root);
            // take the treap apart in order: node j of the in-order walk goes back to slot members[j]
            let mut j = 0;
            let mut cur = root;
            loop {
                while let Some(mut b) = cur {
                    cur = b.left.take();
                    stack.push(b);
                }
                match stack.pop() {
                    None => break,
                    Some(mut b) => {
                        cur = b.right.take();
                        b.update();
                        if j < members.len() {
                            nodes[members[j]] = Some(b);
                        }
                        j += 1;
                    }
                }
            }
            if !size_ok || j != len {
                return Err(format!("BAD(stride={},offset={},nodes={},expected={})", s, o, cnt, len));
            }
            if !heap {
                return Err(format!("BAD(stride={},offset={},heap)", s, o));
            }
            if (h as f64) > height_bound(len) {
                return Err(format!("BAD(stride={},offset={},elements={},height={}>{:.1})", s, o, len, h, height_bound(len)));
            }
            if h > worst.0 {
                worst = (h, s);
            }
            if last == 0 {
                break;
            }
        }
    }
    Ok(worst)
}

/// full check: size, heap order on every edge, number of nodes, height bound
fn big_check(t: &Treap<SumIt>, n: usize) -> Result<usize, String> {
    if t.size() != n {
        return Err(format!("BAD(size={})", t.size()));
    }
    if !heap_ok(&t.root) {
        return Err("BAD(heap)".into());
    }
    let (h, c) = height_count(&t.root);
    if c != n {
        return Err(format!("BAD(nodes={})", c));
    }
    if (h as f64) > height_bound(n) {
        return Err(format!("BAD(height={}>{:.1})", h, height_bound(n)));
    }
    // measured as well (testing, not proof): the generator must not repeat itself — at least
    // 99.9 % of the priorities of a big tree are distinct (32-bit birthday repeats are ~0.01 % at 10^6)
    if n >= 1000 {
        let d = distinct_priorities(&t.root);
        if (d as f64) < 0.999 * n as f64 {
            return Err(format!("BAD(distinct-priorities={}of{})", d, n));
        }
    }
    Ok(h)
}

fn distinct_priorities<I>(root: &Link<I>) -> usize {
    let mut ps: Vec<u32> = Vec::new();
    let mut st: Vec<&TreapNode<I>> = Vec::new();
    if let Some(r) = root.as_deref() {
        st.push(r);
    }
    while let Some(n) = st.pop() {
        ps.push(n.priority);
        for c in [n.left.as_deref(), n.right.as_deref()].into_iter().flatten() {
            st.push(c);
        }
    }
    ps.sort_unstable();
    ps.dedup();
    ps.len()
}

/// `big` stream of C16: macro operations on one treap with rlib's own priorities.
fn run_big(ops: &[&str]) -> String {
    let mut t: Treap<SumIt> = Treap::new();
    let mut n: usize = 0;
    let mut ctr: i64 = 0;
    let mut out: Vec<String> = Vec::new();
    for op in ops {
        let tk: Vec<&str> = op.split_whitespace().collect();
        let res = match big_op(&mut t, &mut n, &mut ctr, &tk) {
            Err(None) => return out1("INVALID"),
            Err(Some(e)) => Err(e),
            Ok(()) => big_check(&t, n).map(|_| ()),
        };
        match res {
            Ok(()) => out.push(format!("n={}:ok", n)),
            Err(e) => {
                out.push(format!("n={}:{}", n, e));
                break;
            }
        }
    }
    out1(&out.join(" "))
}

/// `e_treap measure n…`: one JSON row per (pattern, n) with the measured height (evidence only).
fn measure(sizes: &[usize]) {
    for &n in sizes {
        for pat0 in ["append", "front", "alt", "mid", "rand", "singles", "fromitem", "scratch"] {
            // a fresh thread per row: every measurement starts at the beginning of the priority stream
            let row = std::thread::Builder::new()
                .stack_size(2 << 30)
                .spawn(move || {
                    let pat = pat0;
                    let mut t: Treap<SumIt> = Treap::new();
                    let (mut len, mut ctr) = (0usize, 0i64);
                    let ns = n.to_string();
                    let tk: Vec<&str> = if pat == "rand" { vec![pat, &ns, "1"] } else { vec![pat, &ns] };
                    let r = big_op(&mut t, &mut len, &mut ctr, &tk);
                    let (h, _) = height_count(&t.root);
                    let ok = r.is_ok() && big_check(&t, len).is_ok();
                    format!(
                        "{{\"pattern\":\"{}\",\"n\":{},\"height\":{},\"bound\":{:.1},\"heap_ok\":{},\"canonical_shape\":{},\"distinct_priorities\":{},\"ok\":{}}}",
                        pat,
                        len,
                        h,
                        height_bound(len),
                        heap_ok(&t.root),
                        heap_r_ok(&t.root),
                        distinct_priorities(&t.root),
                        ok
                    )
                })
                .unwrap()
                .join()
                .unwrap_or_else(|_| "{\"ok\":false,\"pattern\":\"crashed\",\"n\":0}".to_string());
            println!("{}", row);
        }
    }
    // every arithmetic-progression subsequence of the thread's creations with stride <= S (see `strides`)
    let (smax, len) = if sizes.iter().any(|&n| n >= 1_000_000) { (16_384usize, 256usize) } else { (4_096, 256) };
    let row = std::thread::Builder::new()
        .stack_size(2 << 30)
        .spawn(move || match strides_scan(smax, len) {
            Ok((h, s)) => format!(
                "{{\"pattern\":\"strides\",\"n\":{},\"strides_up_to\":{},\"height\":{},\"at_stride\":{},\"bound\":{:.1},\"ok\":true}}",
                len, smax, h, s, height_bound(len)
            ),
            Err(e) => format!("{{\"pattern\":\"strides {}\",\"n\":{},\"detail\":\"{}\",\"ok\":false}}", smax, len, e),
        })
        .unwrap()
        .join()
        .unwrap_or_else(|_| "{\"ok\":false,\"pattern\":\"crashed\",\"n\":0}".to_string());
    println!("{}", row);
}

fn run_case_here(line: &str) -> String {
    let parts: Vec<&str> = line.split(';').map(|p| p.trim()).collect();
    let hdr: Vec<&str> = parts[0].split_whitespace().collect();
    if hdr.len() < 3 {
        return out1("BAD-HEADER");
    }
    let (focus, item, stream) = (hdr[0], hdr[1], hdr[2]);
    let ops: Vec<&str> = parts[1..].to_vec();
    let r = catch(|| {
        if stream == "big" {
            run_big(&ops)
        } else if item == "sum" {
            run_hist::<SumIt>(focus, stream, &ops, step::<SumIt>)
        } else if item == "aff" {
            run_hist::<AffIt>(focus, stream, &ops, step::<AffIt>)
        } else if item == "key" {
            run_hist::<KeyIt>(focus, stream, &ops, step_key)
        } else {
            out1("BAD-HEADER")
        }
    });
    match r {
        Ok(s) => s,
        Err(e) => out1(&e),
    }
}

/// Cases that use the priorities rlib draws (`own`, `big`) run on a fresh thread each: the
/// generator is thread-local, so every such case starts at the beginning of the stream and its
/// result depends on the case line only (it replays in a fresh process). `big` cases move the
/// stream forward explicitly with `burn`.
fn run_case(line: &str) -> String {
    let stream = line.split(';').next().unwrap_or("").split_whitespace().nth(2).unwrap_or("");
    if stream == "ctl" {
        return run_case_here(line);
    }
    let owned = line.to_string();
    let h = std::thread::Builder::new()
        .stack_size(2 << 30)
        .spawn(move || run_case_here(&owned))
        .unwrap();
    match h.join() {
        Ok(s) => s,
        Err(_) => out1("panic:other:thread"),
    }
}

fn main() {
    // rlib's merge/split recurse along a root-to-leaf path: give the worker a large stack so that
    // a degenerate tree (a mutant priority source) is reported as a height violation, not a crash
    let h = std::thread::Builder::new()
        .stack_size(2 << 30)
        .spawn(|| {
            let argv: Vec<String> = std::env::args().collect();
            if argv.get(1).map(|s| s.as_str()) == Some("measure") {
                let sizes: Vec<usize> = argv[2..].iter().filter_map(|s| s.parse().ok()).collect();
                measure(&sizes);
            } else {
                cli(gen::gen, run_case)
            }
        })
        .unwrap();
    if h.join().is_err() {
        std::process::exit(3);
    }
}
