//! Case generators of engine `treap`. The generator simulates every history on plain vectors so
//! that positions, thresholds of `split_by` predicates etc. are chosen inside the property's domain.
use crate::common::*;

#[derive(Clone, Copy, PartialEq)]
pub enum Kind {
    Sum,
    Aff,
}

impl Kind {
    fn name(self) -> &'static str {
        match self {
            Kind::Sum => "sum",
            Kind::Aff => "aff",
        }
    }
}

/// a tag `e -> a*e + b` (`sum` items only have `a = 1`)
#[derive(Clone, Copy)]
struct Tag(i64, i64);

struct Sim<'a> {
    kind: Kind,
    own: bool,
    pol: u64,
    ctr: u64,
    created: usize,
    seqs: Vec<Vec<i64>>,
    ops: Vec<String>,
    rng: &'a mut SplitMix64,
    tags: usize,
    restructs_after_tag: usize,
}

impl<'a> Sim<'a> {
    fn new(kind: Kind, own: bool, pol: u64, rng: &'a mut SplitMix64) -> Self {
        Sim { kind, own, pol, ctr: 0, created: 0, seqs: Vec::new(), ops: Vec::new(), rng, tags: 0, restructs_after_tag: 0 }
    }
    fn prio(&mut self) -> String {
        if self.own {
            return "*".into();
        }
        self.ctr += 1;
        let p: u64 = match self.pol {
            0 => self.rng.below(3),
            1 => self.ctr,
            2 => 1_000_000 - self.ctr,
            3 => self.rng.next_u64() & 0xFFFF_FFFF,
            4 => self.rng.below(8),
            5 => 7,
            // pairwise distinct, random order
            _ => (self.rng.below(1 << 20) << 10) + self.ctr,
        };
        p.to_string()
    }
    fn val(&mut self) -> i64 {
        self.rng.range_i64(-30, 30)
    }
    fn tag(&mut self) -> Tag {
        match self.kind {
            Kind::Sum => Tag(1, self.rng.range_i64(-1000, 1000)),
            Kind::Aff => {
                let a = match self.rng.below(4) {
                    0 => 0,
                    1 => -1,
                    _ => 1,
                };
                Tag(a, self.rng.range_i64(-20, 20))
            }
        }
    }
    fn restruct(&mut self) {
        if self.tags > 0 {
            self.restructs_after_tag += 1;
        }
    }
    // ---- primitive operations -----------------------------------------------------------
    fn p_new(&mut self) {
        self.ops.push("new".into());
        self.seqs.push(Vec::new());
    }
    fn p_item(&mut self, v: i64) {
        let p = self.prio();
        self.ops.push(format!("item {} {}", v, p));
        self.seqs.push(vec![v]);
        self.created += 1;
    }
    fn p_merge(&mut self, i: usize, j: usize) {
        self.ops.push(format!("merge {} {}", i, j));
        let b = std::mem::take(&mut self.seqs[j]);
        self.seqs[i].extend(b);
        self.seqs.remove(j);
        self.restruct();
    }
    fn p_splitat(&mut self, i: usize, k: usize) {
        self.ops.push(format!("splitat {} {}", i, k));
        let kk = k.min(self.seqs[i].len());
        let r = self.seqs[i].split_off(kk);
        self.seqs.push(r);
        self.restruct();
    }
    fn p_splitby(&mut self, i: usize, rel: &str, c: i64) {
        self.ops.push(format!("splitby {} {} {}", i, rel, c));
        let k = self.seqs[i].iter().take_while(|&&e| holds(rel, e, c)).count();
        let r = self.seqs[i].split_off(k);
        self.seqs.push(r);
        self.restruct();
    }
    fn p_insert(&mut self, i: usize, k: usize, v: i64) {
        let p = self.prio();
        self.ops.push(format!("insert {} {} {} {}", i, k, v, p));
        let kk = k.min(self.seqs[i].len());
        self.seqs[i].insert(kk, v);
        self.created += 1;
        self.restruct();
    }
    fn p_remove(&mut self, i: usize, k: usize) {
        self.ops.push(format!("remove {} {}", i, k));
        if k < self.seqs[i].len() {
            self.seqs[i].remove(k);
        }
        self.restruct();
    }
    fn p_tag(&mut self, i: usize, t: Tag) {
        match self.kind {
            Kind::Sum => self.ops.push(format!("tag {} {}", i, t.1)),
            Kind::Aff => self.ops.push(format!("tag {} {} {}", i, t.0, t.1)),
        }
        for e in self.seqs[i].iter_mut() {
            *e = t.0 * *e + t.1;
        }
        if !self.seqs[i].is_empty() {
            self.tags += 1;
        }
    }
    fn p_obs(&mut self, what: &str, i: usize) {
        self.ops.push(format!("{} {}", what, i));
    }
    fn p_drop(&mut self, i: usize) {
        self.ops.push(format!("drop {}", i));
        self.seqs.remove(i);
    }
    // ---- composed operations ------------------------------------------------------------
    /// `insert_at` — in the controlled stream as its own definition, so that the priority is ours
    fn insert(&mut self, i: usize, k: usize, v: i64) {
        if self.own {
            self.p_insert(i, k, v);
        } else {
            self.p_splitat(i, k);
            self.p_item(v);
            let n = self.seqs.len();
            self.p_merge(i, n - 1);
            self.p_merge(i, n - 2);
        }
    }
    /// split out `[l, r]`, tag and/or read its aggregate, merge back
    fn range(&mut self, i: usize, l: usize, r: usize, t: Option<Tag>, agg: bool) {
        self.p_splitat(i, r + 1);
        self.p_splitat(i, l);
        let n = self.seqs.len();
        if let Some(t) = t {
            self.p_tag(n - 1, t);
        }
        if agg {
            self.p_obs("agg", n - 1);
        }
        self.p_merge(i, n - 1);
        self.p_merge(i, n - 2);
    }
    /// split at `k` and merge the halves the other way round
    fn rotate(&mut self, i: usize, k: usize) {
        self.p_splitat(i, k);
        let n = self.seqs.len();
        self.p_merge(n - 1, i);
    }
    /// insert into a monotone sequence through `split_by` (rlib's `set` test does this)
    fn sorted_insert(&mut self, i: usize, v: i64) -> bool {
        let s = &self.seqs[i];
        let asc = s.windows(2).all(|w| w[0] <= w[1]);
        let desc = s.windows(2).all(|w| w[0] >= w[1]);
        let rel = if asc {
            if self.rng.chance(1, 2) { "lt" } else { "le" }
        } else if desc {
            if self.rng.chance(1, 2) { "gt" } else { "ge" }
        } else {
            return false;
        };
        self.p_splitby(i, rel, v);
        self.p_item(v);
        let n = self.seqs.len();
        self.p_merge(i, n - 1);
        self.p_merge(i, n - 2);
        true
    }
    /// a `split_by` whose predicate is prefix-monotone on the current sequence, if one exists
    fn mono_splitby(&mut self, i: usize) -> bool {
        let s = self.seqs[i].clone();
        let k = self.rng.below(s.len() as u64 + 1) as usize;
        let (pre, suf) = s.split_at(k);
        // lt c : need max(pre) < c <= min(suf)
        let pmax = pre.iter().copied().max();
        let pmin = pre.iter().copied().min();
        let smax = suf.iter().copied().max();
        let smin = suf.iter().copied().min();
        let mut cands: Vec<(&str, i64)> = Vec::new();
        if pmax.map_or(true, |a| smin.map_or(true, |b| a < b)) {
            let c = smin.unwrap_or(pmax.unwrap_or(0) + 1);
            cands.push(("lt", c));
            cands.push(("le", c - 1));
        }
        if pmin.map_or(true, |a| smax.map_or(true, |b| a > b)) {
            let c = smax.unwrap_or(pmin.unwrap_or(0) - 1);
            cands.push(("gt", c));
            cands.push(("ge", c + 1));
        }
        if cands.is_empty() {
            return false;
        }
        let (rel, c) = *self.rng.pick(&cands);
        self.p_splitby(i, rel, c);
        true
    }
    fn line(&self, focus: &str, pm: Option<u64>) -> String {
        let stream = if self.own { "own" } else { "ctl" };
        let mut s = format!("{} {} {}", focus, self.kind.name(), stream);
        if let Some(pm) = pm {
            s.push_str(&format!(" pm={}", pm));
        }
        for o in &self.ops {
            s.push_str(" ; ");
            s.push_str(o);
        }
        s
    }
}

fn holds(rel: &str, e: i64, c: i64) -> bool {
    match rel {
        "lt" => e < c,
        "le" => e <= c,
        "gt" => e > c,
        _ => e >= c,
    }
}

/// (i) exhaustive small scope: every assignment of priorities `[n] -> [n]` (all relative orders,
/// ties included) x every split point, three build orders, tags before and after the split.
fn exhaustive(focus: &str, n_all: usize, n_perm: usize, emit: &mut dyn FnMut(String), st: &mut Stats, rng: &mut SplitMix64) {
    for n in 1..=n_perm {
        let total: u64 = if n <= n_all { (n as u64).pow(n as u32) } else { (1..=n as u64).product() };
        for code in 0..total {
            // decode priorities
            let mut ps: Vec<u64> = Vec::with_capacity(n);
            if n <= n_all {
                let mut c = code;
                for _ in 0..n {
                    ps.push(c % n as u64);
                    c /= n as u64;
                }
            } else {
                // code-th permutation (factorial number system)
                let mut c = code;
                let mut pool: Vec<u64> = (0..n as u64).collect();
                for i in (1..=n as u64).rev() {
                    ps.push(pool.remove((c % i) as usize));
                    c /= i;
                }
            }
            for k in 0..=n {
                let kind = if (code + k as u64) % 2 == 0 { Kind::Sum } else { Kind::Aff };
                let variant = (code / 2 + k as u64) % 3;
                let mut s = Sim::new(kind, false, 0, rng);
                let vals: Vec<i64> = (0..n).map(|i| (i as i64 + 1) * 3 - 7).collect();
                let item = |s: &mut Sim, i: usize| {
                    s.ops.push(format!("item {} {}", vals[i], ps[i]));
                    s.seqs.push(vec![vals[i]]);
                };
                match variant {
                    0 => {
                        item(&mut s, 0);
                        for i in 1..n {
                            item(&mut s, i);
                            s.p_merge(0, 1);
                        }
                    }
                    1 => {
                        item(&mut s, n - 1);
                        for i in (0..n - 1).rev() {
                            item(&mut s, i);
                            s.p_merge(1, 0);
                        }
                    }
                    _ => {
                        for i in 0..n {
                            item(&mut s, i);
                        }
                        for i in (0..n - 1).rev() {
                            s.p_merge(i, i + 1);
                        }
                    }
                }
                let (t1, t2, t3) = (s.tag(), s.tag(), s.tag());
                s.p_tag(0, t1);
                s.p_splitat(0, k);
                s.p_tag(0, t2);
                for w in ["agg", "first", "last"] {
                    s.p_obs(w, 0);
                    s.p_obs(w, 1);
                }
                s.p_tag(1, t3);
                s.p_obs("collect", 1);
                s.p_merge(0, 1);
                s.p_obs("agg", 0);
                s.p_obs("collect", 0);
                s.p_remove(0, k);
                s.p_obs("collect", 0);
                s.p_obs("agg", 0);
                s.p_obs("size", 0);
                emit(s.line(focus, None));
                st.bump(&format!("exhaustive_n{}", n));
                if k == n {
                    st.bump("remove_past_end_panics");
                }
            }
        }
    }
}

/// (iii) random structured histories
fn random_history(focus: &str, kind: Kind, own: bool, len: usize, rng: &mut SplitMix64, st: &mut Stats) -> String {
    let pol = if focus == "C16" && rng.chance(1, 2) { 6 } else { rng.below(7) };
    let pm = if own { Some(rng.below(6)) } else { None };
    let set_mode = rng.chance(1, 3);
    let max_items = if kind == Kind::Aff { 40 } else { 80 };
    let mut s = Sim::new(kind, own, pol, rng);
    if own {
        s.p_new();
    }
    let mut ood = false;
    while s.ops.len() < len {
        let live = s.seqs.len();
        if live == 0 {
            let v = s.val();
            s.p_item(v);
            continue;
        }
        let i = s.rng.below(live as u64) as usize;
        let n = s.seqs[i].len();
        let can_create = s.created < max_items;
        match s.rng.below(20) {
            0 | 1 | 2 | 3 if can_create => {
                let v = s.val();
                if set_mode && s.sorted_insert(i, v) {
                    st.bump("op_sorted_insert_via_split_by");
                } else {
                    // positions past the end are allowed by `split_at` (everything goes left)
                    let k = if s.rng.chance(1, 30) { n + 1 + s.rng.below(3) as usize } else { s.rng.below(n as u64 + 1) as usize };
                    s.insert(i, k, v);
                    st.bump("op_insert");
                }
            }
            4 if can_create && live < 5 => {
                let v = s.val();
                s.p_item(v);
                st.bump("op_from_item");
            }
            5 => {
                if n > 0 && !s.rng.chance(1, 12) {
                    let k = s.rng.below(n as u64) as usize;
                    s.p_remove(i, k);
                    st.bump("op_remove");
                } else {
                    let k = n + s.rng.below(2) as usize;
                    s.p_remove(i, k);
                    st.bump("op_remove_past_end");
                }
            }
            6 | 7 | 8 if n > 0 => {
                let (a, b) = (s.rng.below(n as u64) as usize, s.rng.below(n as u64) as usize);
                let t = s.tag();
                let agg = s.rng.chance(1, 2);
                s.range(i, a.min(b), a.max(b), Some(t), agg);
                st.bump("op_range_tag");
            }
            9 | 10 if n > 0 => {
                let (a, b) = (s.rng.below(n as u64) as usize, s.rng.below(n as u64) as usize);
                s.range(i, a.min(b), a.max(b), None, true);
                st.bump("op_range_agg");
            }
            11 => {
                let k = s.rng.below(n as u64 + 1) as usize;
                s.rotate(i, k);
                st.bump("op_split_swap");
            }
            12 if live >= 2 => {
                let mut j = s.rng.below(live as u64 - 1) as usize;
                if j >= i {
                    j += 1;
                }
                s.p_merge(i, j);
                st.bump("op_merge");
            }
            13 if live < 5 => {
                if s.rng.chance(1, 2) {
                    let k = s.rng.below(n as u64 + 2) as usize;
                    s.p_splitat(i, k);
                    st.bump("op_split_at");
                } else if s.mono_splitby(i) {
                    st.bump("op_split_by");
                } else if !own && s.rng.chance(1, 8) {
                    // outside the property's domain: a predicate that is not prefix-monotone
                    // (only in the controlled stream: the result then depends on the shape)
                    let c = s.val();
                    s.p_splitby(i, "lt", c);
                    ood = true;
                    st.bump("op_split_by_not_monotone");
                }
            }
            14 => {
                let t = s.tag();
                s.p_tag(i, t);
                st.bump("op_tag_root");
            }
            15 => {
                s.p_obs("first", i);
                s.p_obs("last", i);
                st.bump("op_first_last");
            }
            16 => {
                s.p_obs("collect", i);
                st.bump("op_collect");
            }
            17 => {
                s.p_obs("agg", i);
                s.p_obs("size", i);
                st.bump("op_agg_size");
            }
            18 if live >= 4 => {
                s.p_drop(i);
                st.bump("op_drop");
            }
            19 if live < 5 && s.rng.chance(1, 4) => {
                s.p_new();
                st.bump("op_new_empty");
            }
            _ => {}
        }
    }
    // final observation of every live treap
    for i in 0..s.seqs.len() {
        s.p_obs("collect", i);
        s.p_obs("agg", i);
    }
    if ood {
        st.bump("histories_out_of_domain");
    }
    if s.restructs_after_tag > 0 {
        st.bump("histories_with_restructuring_under_pending_tags");
    }
    st.bump(&format!("histories_{}_{}", kind.name(), if own { "own" } else { "ctl" }));
    if !own {
        st.bump(&format!("priority_policy_{}", pol));
    }
    s.line(focus, pm)
}

/// C16, `own` stream: the operation orders that degenerate an unbalanced tree, as explicit operations
fn adversarial(pattern: u64, n: usize, rng: &mut SplitMix64) -> String {
    let mut s = Sim::new(Kind::Sum, true, 0, rng);
    s.p_new();
    for it in 0..n {
        let len = s.seqs[0].len();
        match pattern {
            0 => s.p_insert(0, len, it as i64),
            1 => s.p_insert(0, 0, it as i64),
            2 => s.p_insert(0, if it % 2 == 0 { 0 } else { len }, it as i64),
            3 => {
                s.p_insert(0, len, it as i64);
                if it % 3 == 2 {
                    let k = s.rng.below(len as u64 + 2) as usize;
                    // split-and-swap keeps the treap at index 0: [l, r] -> merge 1 0 puts r ++ l at 0
                    s.p_splitat(0, k);
                    s.p_merge(1, 0);
                }
            }
            _ => {
                let k = s.rng.below(len as u64 + 1) as usize;
                if len > 4 && s.rng.chance(1, 5) {
                    s.p_remove(0, k.min(len - 1));
                } else {
                    s.p_insert(0, k, it as i64);
                }
            }
        }
    }
    s.line("C16", Some(4))
}

pub fn gen(args: &Args, emit: &mut dyn FnMut(String), st: &mut Stats) {
    let thorough = args.tier == "thorough";
    let focus = args.extra.get("focus").cloned().unwrap_or_else(|| "C03".to_string());
    let mut rng = SplitMix64::new(args.seed ^ if focus == "C16" { 0xC16 } else { 0xC03 });
    if focus == "C03" {
        if thorough {
            exhaustive("C03", 5, 5, emit, st, &mut rng);
        } else {
            exhaustive("C03", 4, 5, emit, st, &mut rng);
        }
        let (n_ctl, n_own) = if thorough { (120_000, 30_000) } else { (2_400, 600) };
        for h in 0..n_ctl {
            let kind = if h % 2 == 0 { Kind::Sum } else { Kind::Aff };
            emit(random_history("C03", kind, false, 60, &mut rng, st));
        }
        for h in 0..n_own {
            let kind = if h % 2 == 0 { Kind::Sum } else { Kind::Aff };
            emit(random_history("C03", kind, true, 60, &mut rng, st));
        }
    } else {
        // controlled priorities: heap order after every operation, canonical shape at the end
        if thorough {
            exhaustive("C16", 4, 5, emit, st, &mut rng);
        } else {
            exhaustive("C16", 3, 4, emit, st, &mut rng);
        }
        let n_ctl = if thorough { 30_000 } else { 800 };
        for h in 0..n_ctl {
            let kind = if h % 2 == 0 { Kind::Sum } else { Kind::Aff };
            emit(random_history("C16", kind, false, 60, &mut rng, st));
        }
        // rlib's own priorities, explicit operations
        let n_own = if thorough { 3_000 } else { 150 };
        for h in 0..n_own {
            let kind = if h % 2 == 0 { Kind::Sum } else { Kind::Aff };
            emit(random_history("C16", kind, true, 60, &mut rng, st));
        }
        let (reps, size) = if thorough { (8, 1500) } else { (1, 300) };
        for pattern in 0..5u64 {
            for r in 0..reps {
                emit(adversarial(pattern, size / (1 + r % 3), &mut rng));
                st.bump(&format!("adversarial_explicit_pattern_{}", pattern));
            }
        }
        // measured: adversarial histories with rlib's priorities up to 10^6 elements
        let sizes: Vec<usize> = if thorough { vec![1_000, 31_623, 1_000_000] } else { vec![1_000, 100_000] };
        for &n in &sizes {
            let sd = rng.below(1 << 30);
            for line in [
                format!("C16 sum big ; append {}", n),
                format!("C16 sum big ; front {}", n),
                format!("C16 sum big ; alt {}", n),
                format!("C16 sum big ; mid {}", n),
                format!("C16 sum big ; rand {} {}", n, sd),
                format!("C16 sum big ; append {} ; rot {} {} ; del {} {} ; front {}", n, (n / 10).min(20_000), sd + 1, n / 2, sd + 2, n / 4),
                format!("C16 sum big ; front {} ; rot {} {} ; append {} ; del {} {}", n / 2, (n / 10).min(20_000), sd + 3, n / 2, n / 3, sd + 4),
            ] {
                emit(line);
                st.bump(&format!("big_n{}", n));
            }
        }
    }
}
