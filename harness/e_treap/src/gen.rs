//! Case generators of engine `treap`. The generator simulates every history on plain vectors so
//! that positions, thresholds of `split_by` predicates etc. are chosen inside the property's domain.
use crate::common::*;

/// the largest value of rlib's priority type (`u32`, checked by `extract` in checks/C03.py)
const PMAX: u64 = u32::MAX as u64;
/// the ends of the priority range and their neighbours (seeded C03_m5: a sentinel `Priority::MAX` for an empty side)
const EXTREME: [u64; 4] = [0, 1, PMAX - 1, PMAX];
/// number of priority policies of the controlled stream (`Sim::prio`)
const POLICIES: u64 = 10;

#[derive(Clone, Copy, PartialEq)]
pub enum Kind {
    Sum,
    Aff,
    /// the item that relies on the trait's default `update`/`push` (no size, no tags, no aggregate)
    Key,
}

impl Kind {
    fn name(self) -> &'static str {
        match self {
            Kind::Sum => "sum",
            Kind::Aff => "aff",
            Kind::Key => "key",
        }
    }
}

/// a tag `e -> a*e + b` (`sum` items only have `a = 1`)
#[derive(Clone, Copy)]
struct Tag(i64, i64);

struct Sim<'a> {
    kind: Kind,
    own: bool,
    pol: u64,
    ctr: u64,
    created: usize,
    seqs: Vec<Vec<i64>>,
    ops: Vec<String>,
    rng: &'a mut SplitMix64,
    tags: usize,
    restructs_after_tag: usize,
    max_size: usize,
    splitby_interior: usize,
    splitby_interior_big: usize,
    splitby_trivial: usize,
    /// operations that re-used an item the API returned (move / take / dup of a non-empty treap)
    reuses: usize,
    /// `insert_at` calls whose item carried a pending modification (hand-built, or the root item of a modified one-element treap)
    pending_inserts: usize,
}

impl<'a> Sim<'a> {
    fn new(kind: Kind, own: bool, pol: u64, rng: &'a mut SplitMix64) -> Self {
        Sim { kind, own, pol, ctr: 0, created: 0, seqs: Vec::new(), ops: Vec::new(), rng, tags: 0, restructs_after_tag: 0, max_size: 0, splitby_interior: 0, splitby_interior_big: 0, splitby_trivial: 0, reuses: 0, pending_inserts: 0 }
    }
    fn prio(&mut self) -> String {
        if self.own {
            return "*".into();
        }
        self.ctr += 1;
        let p: u64 = match self.pol {
            0 => self.rng.below(3),
            1 => self.ctr,
            2 => 1_000_000 - self.ctr,
            3 => self.rng.next_u64() & 0xFFFF_FFFF,
            4 => self.rng.below(8),
            5 => 7,
            // pairwise distinct, random order
            6 => (self.rng.below(1 << 20) << 10) + self.ctr,
            // the two ends of the priority type only: heavy ties at 0 and at u32::MAX
            7 => *self.rng.pick(&[0, PMAX]),
            // the ends and their neighbours
            8 => *self.rng.pick(&EXTREME),
            // 32-bit random with a share of extreme values mixed in
            _ => {
                if self.rng.chance(1, 4) {
                    *self.rng.pick(&EXTREME)
                } else {
                    self.rng.next_u64() & 0xFFFF_FFFF
                }
            }
        };
        p.to_string()
    }
    fn val(&mut self) -> i64 {
        self.rng.range_i64(-30, 30)
    }
    fn tag(&mut self) -> Tag {
        match self.kind {
            Kind::Sum | Kind::Key => Tag(1, self.rng.range_i64(-1000, 1000)),
            Kind::Aff => {
                let a = match self.rng.below(4) {
                    0 => 0,
                    1 => -1,
                    _ => 1,
                };
                Tag(a, self.rng.range_i64(-20, 20))
            }
        }
    }
    /// a tag that keeps a monotone sequence monotone (the direction may flip)
    fn mono_tag(&mut self) -> Tag {
        match self.kind {
            Kind::Sum | Kind::Key => Tag(1, self.rng.range_i64(-1000, 1000)),
            Kind::Aff => {
                let a = match self.rng.below(10) {
                    0 => 0,
                    1 | 2 | 3 => -1,
                    _ => 1,
                };
                Tag(a, self.rng.range_i64(-20, 20))
            }
        }
    }
    /// `split_by` at a random element of a sorted treap (lands in the interior), observe, merge back
    fn sorted_splitby(&mut self, i: usize) -> bool {
        let s = self.seqs[i].clone();
        if s.is_empty() {
            return false;
        }
        let asc = s.windows(2).all(|w| w[0] <= w[1]);
        let desc = s.windows(2).all(|w| w[0] >= w[1]);
        if !asc && !desc {
            return false;
        }
        let c = s[self.rng.below(s.len() as u64) as usize];
        let rel = if asc {
            if self.rng.chance(1, 2) { "lt" } else { "le" }
        } else if self.rng.chance(1, 2) {
            "gt"
        } else {
            "ge"
        };
        self.p_splitby(i, rel, c);
        let n = self.seqs.len();
        let what = if self.kind == Kind::Key { "size" } else { "agg" };
        self.p_obs(what, i);
        self.p_obs(what, n - 1);
        if self.rng.chance(1, 2) {
            self.p_obs("last", i);
            self.p_obs("first", n - 1);
        }
        self.p_merge(i, n - 1);
        true
    }
    fn restruct(&mut self) {
        if self.tags > 0 {
            self.restructs_after_tag += 1;
        }
        let m = self.seqs.iter().map(|s| s.len()).max().unwrap_or(0);
        self.max_size = self.max_size.max(m);
    }
    fn total(&self) -> usize {
        self.seqs.iter().map(|s| s.len()).sum()
    }
    // ---- primitive operations -----------------------------------------------------------
    fn p_new(&mut self) {
        self.ops.push("new".into());
        self.seqs.push(Vec::new());
    }
    fn p_item(&mut self, v: i64) {
        let p = self.prio();
        self.ops.push(format!("item {} {}", v, p));
        self.seqs.push(vec![v]);
        self.created += 1;
    }
    fn p_merge(&mut self, i: usize, j: usize) {
        self.ops.push(format!("merge {} {}", i, j));
        let b = std::mem::take(&mut self.seqs[j]);
        self.seqs[i].extend(b);
        self.seqs.remove(j);
        self.restruct();
    }
    fn p_splitat(&mut self, i: usize, k: usize) {
        self.ops.push(format!("splitat {} {}", i, k));
        let kk = k.min(self.seqs[i].len());
        let r = self.seqs[i].split_off(kk);
        self.seqs.push(r);
        self.restruct();
    }
    fn p_splitby(&mut self, i: usize, rel: &str, c: i64) {
        self.ops.push(format!("splitby {} {} {}", i, rel, c));
        let k = self.seqs[i].iter().take_while(|&&e| holds(rel, e, c)).count();
        let n = self.seqs[i].len();
        if k == 0 || k == n {
            self.splitby_trivial += 1;
        } else {
            self.splitby_interior += 1;
            if n >= 6 {
                self.splitby_interior_big += 1;
            }
        }
        let r = self.seqs[i].split_off(k);
        self.seqs.push(r);
        self.restruct();
    }
    fn p_insert(&mut self, i: usize, k: usize, v: i64) {
        let p = self.prio();
        self.ops.push(format!("insert {} {} {} {}", i, k, v, p));
        let kk = k.min(self.seqs[i].len());
        self.seqs[i].insert(kk, v);
        self.created += 1;
        self.restruct();
    }
    fn p_remove(&mut self, i: usize, k: usize) {
        self.ops.push(format!("remove {} {}", i, k));
        if k < self.seqs[i].len() {
            self.seqs[i].remove(k);
        }
        self.restruct();
    }
    fn p_tag(&mut self, i: usize, t: Tag) {
        match self.kind {
            Kind::Sum | Kind::Key => self.ops.push(format!("tag {} {}", i, t.1)),
            Kind::Aff => self.ops.push(format!("tag {} {} {}", i, t.0, t.1)),
        }
        for e in self.seqs[i].iter_mut() {
            *e = t.0 * *e + t.1;
        }
        if !self.seqs[i].is_empty() {
            self.tags += 1;
        }
    }
    /// `let it = ts[i].remove_at(k); ts[j].insert_at(pos, it)`: the returned item itself is re-used
    fn p_move(&mut self, i: usize, k: usize, j: usize, pos: usize) {
        let p = self.prio();
        self.ops.push(format!("move {} {} {} {} {}", i, k, j, pos, p));
        if k < self.seqs[i].len() {
            let x = self.seqs[i].remove(k);
            let at = pos.min(self.seqs[j].len());
            self.seqs[j].insert(at, x);
        }
        self.reuses += 1;
        self.restruct();
    }
    /// `Treap::from_item(ts[i].remove_at(k))` becomes a new live treap
    fn p_take(&mut self, i: usize, k: usize) {
        let p = self.prio();
        self.ops.push(format!("take {} {} {}", i, k, p));
        if k < self.seqs[i].len() {
            let x = self.seqs[i].remove(k);
            self.seqs.push(vec![x]);
        }
        self.reuses += 1;
        self.restruct();
    }
    /// clone of the only element (through first / last / collect) becomes a new live treap
    fn p_dup(&mut self, i: usize, w: u64) {
        let p = self.prio();
        let w = ["first", "last", "collect"][(w % 3) as usize];
        self.ops.push(format!("dup {} {} {}", i, w, p));
        let c = if self.seqs[i].len() <= 1 { self.seqs[i].clone() } else { Vec::new() };
        if !c.is_empty() {
            self.reuses += 1;
        }
        self.seqs.push(c);
    }
    fn tag_str(&self, t: Tag) -> String {
        match self.kind {
            Kind::Sum | Kind::Key => format!("{}", t.1),
            Kind::Aff => format!("{} {}", t.0, t.1),
        }
    }
    /// `let mut it = Item::new(v); it.modify(t); ts[i].insert_at(k, it)`: the item carries a pending modification
    fn p_inserttag(&mut self, i: usize, k: usize, v: i64, t: Tag) {
        let p = self.prio();
        let m = self.tag_str(t);
        self.ops.push(format!("inserttag {} {} {} {} {}", i, k, v, p, m));
        let kk = k.min(self.seqs[i].len());
        self.seqs[i].insert(kk, t.0 * v + t.1);
        self.created += 1;
        self.pending_inserts += 1;
        self.restruct();
    }
    /// the item at the root of the one-element treap `i` (read through the public `root` field: taken out or cloned)
    /// goes to `ts[j].insert_at(pos, it)`; nothing happens when `ts[i].size() != 1`
    fn p_moveroot(&mut self, i: usize, take: bool, j: usize, pos: usize) {
        let p = self.prio();
        self.ops.push(format!("moveroot {} {} {} {} {}", i, if take { "take" } else { "clone" }, j, pos, p));
        if self.seqs[i].len() == 1 {
            let x = self.seqs[i][0];
            if take {
                self.seqs[i].clear();
            }
            let at = pos.min(self.seqs[j].len());
            self.seqs[j].insert(at, x);
            self.created += 1;
            self.reuses += 1;
            self.pending_inserts += 1;
        }
        self.restruct();
    }
    fn p_collect2(&mut self, i: usize, j: usize) {
        self.ops.push(format!("collect2 {} {}", i, j));
    }
    fn p_obs(&mut self, what: &str, i: usize) {
        self.ops.push(format!("{} {}", what, i));
    }
    fn p_drop(&mut self, i: usize) {
        self.ops.push(format!("drop {}", i));
        self.seqs.remove(i);
    }
    // ---- composed operations ------------------------------------------------------------
    /// `insert_at` — in the controlled stream as its own definition, so that the priority is ours
    fn insert(&mut self, i: usize, k: usize, v: i64) {
        if self.own {
            self.p_insert(i, k, v);
        } else {
            self.p_splitat(i, k);
            self.p_item(v);
            let n = self.seqs.len();
            self.p_merge(i, n - 1);
            self.p_merge(i, n - 2);
        }
    }
    /// split out `[l, r]`, tag and/or read its aggregate, merge back
    fn range(&mut self, i: usize, l: usize, r: usize, t: Option<Tag>, agg: bool) {
        self.p_splitat(i, r + 1);
        self.p_splitat(i, l);
        let n = self.seqs.len();
        if let Some(t) = t {
            self.p_tag(n - 1, t);
        }
        if agg {
            self.p_obs("agg", n - 1);
        }
        self.p_merge(i, n - 1);
        self.p_merge(i, n - 2);
    }
    /// cut the element at `a` out of treap `i`, attach one or two modifications to that one-element treap, and put it
    /// back at `pos` with `insert_at` of the ROOT ITEM (taken out of / cloned off the public `root` field): the item
    /// still carries what was attached
    fn root_move(&mut self, i: usize, a: usize, pos: usize, t1: Tag, t2: Option<Tag>, take: bool) {
        self.p_splitat(i, a + 1);
        self.p_splitat(i, a);
        let n = self.seqs.len();
        self.p_tag(n - 1, t1);
        if let Some(t2) = t2 {
            self.p_tag(n - 1, t2);
        }
        self.p_merge(i, n - 2);
        // the one-element treap is now at index n - 2
        self.p_moveroot(n - 2, take, i, pos);
        self.p_drop(n - 2);
    }
    /// split at `k` and merge the halves the other way round
    fn rotate(&mut self, i: usize, k: usize) {
        self.p_splitat(i, k);
        let n = self.seqs.len();
        self.p_merge(n - 1, i);
    }
    /// insert into a monotone sequence through `split_by` (rlib's `set` test does this)
    fn sorted_insert(&mut self, i: usize, v: i64) -> bool {
        let s = &self.seqs[i];
        let asc = s.windows(2).all(|w| w[0] <= w[1]);
        let desc = s.windows(2).all(|w| w[0] >= w[1]);
        let rel = if asc {
            if self.rng.chance(1, 2) { "lt" } else { "le" }
        } else if desc {
            if self.rng.chance(1, 2) { "gt" } else { "ge" }
        } else {
            return false;
        };
        self.p_splitby(i, rel, v);
        self.p_item(v);
        let n = self.seqs.len();
        self.p_merge(i, n - 1);
        self.p_merge(i, n - 2);
        true
    }
    /// a `split_by` whose predicate is prefix-monotone on the current sequence, if one exists
    fn mono_splitby(&mut self, i: usize) -> bool {
        let s = self.seqs[i].clone();
        let k = self.rng.below(s.len() as u64 + 1) as usize;
        let (pre, suf) = s.split_at(k);
        // lt c : need max(pre) < c <= min(suf)
        let pmax = pre.iter().copied().max();
        let pmin = pre.iter().copied().min();
        let smax = suf.iter().copied().max();
        let smin = suf.iter().copied().min();
        let mut cands: Vec<(&str, i64)> = Vec::new();
        if pmax.map_or(true, |a| smin.map_or(true, |b| a < b)) {
            let c = smin.unwrap_or(pmax.unwrap_or(0) + 1);
            cands.push(("lt", c));
            cands.push(("le", c - 1));
        }
        if pmin.map_or(true, |a| smax.map_or(true, |b| a > b)) {
            let c = smax.unwrap_or(pmin.unwrap_or(0) - 1);
            cands.push(("gt", c));
            cands.push(("ge", c + 1));
        }
        if cands.is_empty() {
            return false;
        }
        let (rel, c) = *self.rng.pick(&cands);
        self.p_splitby(i, rel, c);
        true
    }
    fn line(&self, focus: &str, pm: Option<u64>) -> String {
        let stream = if self.own { "own" } else { "ctl" };
        let mut s = format!("{} {} {}", focus, self.kind.name(), stream);
        if let Some(pm) = pm {
            s.push_str(&format!(" pm={}", pm));
        }
        for o in &self.ops {
            s.push_str(" ; ");
            s.push_str(o);
        }
        s
    }
}

fn holds(rel: &str, e: i64, c: i64) -> bool {
    match rel {
        "lt" => e < c,
        "le" => e <= c,
        "gt" => e > c,
        _ => e >= c,
    }
}

/// (i) exhaustive small scope: every assignment of priorities `[n] -> [n]` (all relative orders,
/// ties included) x every split point x both items x three build orders (left-to-right,
/// right-to-left, balanced), tags before and after the split. Everything inside the stated domain.
fn exhaustive(focus: &str, n_all: usize, n_perm: usize, emit: &mut dyn FnMut(String), st: &mut Stats, rng: &mut SplitMix64) {
    for n in 1..=n_perm {
        let total: u64 = if n <= n_all { (n as u64).pow(n as u32) } else { (1..=n as u64).product() };
        for code in 0..total {
            // decode priorities
            let mut ps: Vec<u64> = Vec::with_capacity(n);
            if n <= n_all {
                let mut c = code;
                for _ in 0..n {
                    ps.push(c % n as u64);
                    c /= n as u64;
                }
            } else {
                // code-th permutation (factorial number system)
                let mut c = code;
                let mut pool: Vec<u64> = (0..n as u64).collect();
                for i in (1..=n as u64).rev() {
                    ps.push(pool.remove((c % i) as usize));
                    c /= i;
                }
            }
            for k in 0..=n {
                for kind in [Kind::Sum, Kind::Aff] {
                    for variant in 0..3 {
                        emit(exhaustive_case(focus, &ps, k, kind, variant, rng));
                        st.bump(&format!("exhaustive_n{}_{}_build{}", n, kind.name(), variant));
                    }
                }
                if n <= 4 {
                    for variant in 0..3 {
                        emit(exhaustive_key_case(focus, &ps, k, variant, rng));
                        st.bump(&format!("exhaustive_n{}_key_build{}", n, variant));
                    }
                }
            }
        }
    }
}

/// (i') the same product with the priorities taken from the two ENDS of the priority type and their
/// neighbours (`0, 1, u32::MAX-1, u32::MAX`): every assignment `[n] -> EXTREME`, so ties at 0 and at
/// u32::MAX, with empty operands on either side of merge/split/remove (split points 0 and n).
fn exhaustive_extreme(focus: &str, n_max: usize, emit: &mut dyn FnMut(String), st: &mut Stats, rng: &mut SplitMix64) {
    for n in 1..=n_max {
        for code in 0..4u64.pow(n as u32) {
            let ps: Vec<u64> = (0..n).map(|i| EXTREME[((code >> (2 * i)) & 3) as usize]).collect();
            for k in 0..=n {
                for kind in [Kind::Sum, Kind::Aff] {
                    for variant in 0..3 {
                        emit(exhaustive_case(focus, &ps, k, kind, variant, rng));
                        st.bump(&format!("exhaustive_extreme_priorities_n{}", n));
                    }
                }
                if n <= 2 {
                    for variant in 0..3 {
                        emit(exhaustive_key_case(focus, &ps, k, variant, rng));
                        st.bump(&format!("exhaustive_extreme_priorities_key_n{}", n));
                    }
                }
            }
        }
    }
}

/// one history of the exhaustive scope: `n = ps.len()` nodes with the given priorities, built in one of three
/// orders, tags before and after a split at `k`, observations, remove at `k`
fn exhaustive_case(focus: &str, ps: &[u64], k: usize, kind: Kind, variant: usize, rng: &mut SplitMix64) -> String {
    let n = ps.len();
    let mut s = Sim::new(kind, false, 0, rng);
    let vals: Vec<i64> = (0..n).map(|i| (i as i64 + 1) * 3 - 7).collect();
    let item = |s: &mut Sim, i: usize| {
        s.ops.push(format!("item {} {}", vals[i], ps[i]));
        s.seqs.push(vec![vals[i]]);
    };
    match variant {
        0 => {
            item(&mut s, 0);
            for i in 1..n {
                item(&mut s, i);
                s.p_merge(0, 1);
            }
        }
        1 => {
            item(&mut s, n - 1);
            for i in (0..n - 1).rev() {
                item(&mut s, i);
                s.p_merge(1, 0);
            }
        }
        _ => {
            // balanced: merge neighbours pairwise, round after round
            for i in 0..n {
                item(&mut s, i);
            }
            while s.seqs.len() > 1 {
                let mut i = 0;
                while i + 1 < s.seqs.len() {
                    s.p_merge(i, i + 1);
                    i += 1;
                }
            }
        }
    }
    // first tag never collapses the elements (a != 0), so positions stay visible
    let mut t1 = s.tag();
    if t1.0 == 0 {
        t1.0 = -1;
    }
    let (t2, t3) = (s.tag(), s.tag());
    s.p_tag(0, t1);
    s.p_splitat(0, k);
    s.p_tag(0, t2);
    for w in ["agg", "first", "last"] {
        s.p_obs(w, 0);
        s.p_obs(w, 1);
    }
    s.p_tag(1, t3);
    s.p_obs("collect", 1);
    s.p_merge(0, 1);
    s.p_obs("agg", 0);
    s.p_obs("collect", 0);
    if k < n {
        s.p_remove(0, k);
        s.p_obs("collect", 0);
        s.p_obs("agg", 0);
    }
    s.p_obs("size", 0);
    // re-use of returned items: move an element inside the treap (`remove_at` + `insert_at` of the item that came
    // back; the new node's priority runs over the values of the scope), then take one out (`from_item`) and
    // append it again
    let len = s.seqs[0].len();
    if len > 0 {
        let from = k % len;
        let to = (k + 1 + variant) % len;
        s.ops.push(format!("move 0 {} 0 {} {}", from, to, ps[(k + variant) % n]));
        let x = s.seqs[0].remove(from);
        s.seqs[0].insert(to, x);
        s.p_obs("collect", 0);
        s.p_obs("agg", 0);
        s.p_obs("size", 0);
        let a = (k + variant) % len;
        s.ops.push(format!("take 0 {} {}", a, ps[k % n]));
        let x = s.seqs[0].remove(a);
        s.seqs.push(vec![x]);
        s.p_obs("agg", 1);
        if variant == 1 {
            s.p_merge(1, 0);
        } else {
            s.p_merge(0, 1);
        }
        s.p_obs("collect", 0);
        s.p_obs("agg", 0);
    }
    s.line(focus, None)
}

/// the exhaustive scope for the item WITHOUT size, tags and aggregate (default `update`/`push`): the same
/// builds, then `split_by` at every cut point of the (increasing) keys, every observation that exists for such
/// an item, clone of a one-element part, `collect_into` of both parts into one vector, merge back
fn exhaustive_key_case(focus: &str, ps: &[u64], k: usize, variant: usize, rng: &mut SplitMix64) -> String {
    let n = ps.len();
    let mut s = Sim::new(Kind::Key, false, 0, rng);
    let vals: Vec<i64> = (0..n).map(|i| (i as i64 + 1) * 3 - 7).collect();
    let item = |s: &mut Sim, i: usize| {
        s.ops.push(format!("item {} {}", vals[i], ps[i]));
        s.seqs.push(vec![vals[i]]);
    };
    match variant {
        0 => {
            item(&mut s, 0);
            for i in 1..n {
                item(&mut s, i);
                s.p_merge(0, 1);
            }
        }
        1 => {
            item(&mut s, n - 1);
            for i in (0..n - 1).rev() {
                item(&mut s, i);
                s.p_merge(1, 0);
            }
        }
        _ => {
            for i in 0..n {
                item(&mut s, i);
            }
            while s.seqs.len() > 1 {
                let mut i = 0;
                while i + 1 < s.seqs.len() {
                    s.p_merge(i, i + 1);
                    i += 1;
                }
            }
        }
    }
    s.p_obs("size", 0);
    s.p_obs("collect", 0);
    let c = if k < n { vals[k] } else { vals[n - 1] + 1 };
    if variant == 1 {
        s.p_splitby(0, "le", c - 1);
    } else {
        s.p_splitby(0, "lt", c);
    }
    for w in ["size", "first", "last"] {
        s.p_obs(w, 0);
        s.p_obs(w, 1);
    }
    s.p_dup(0, k as u64);
    s.p_dup(1, (k + 1) as u64);
    s.p_collect2(0, 1);
    s.p_collect2(1, 0);
    s.p_obs("collect", 1);
    s.p_merge(0, 1);
    s.p_obs("collect", 0);
    s.p_obs("size", 0);
    s.p_obs("first", 1);
    s.p_obs("first", 2);
    s.line(focus, None)
}

/// (i'') `insert_at` — the REAL call, rlib draws the new node's priority — of an item that carries a pending
/// modification, into treaps whose nodes have the priorities 0 / u32::MAX (every assignment `[n] -> {0, MAX}`): the new
/// node is linked ABOVE every MAX neighbour (it gets children at insertion time) and below every 0 one. Every position,
/// both sized items, three sources of the item (hand-built `new` + `modify`; the root item of a twice-modified
/// one-element treap taken out of / cloned off the public `root` field), a pending modification on the receiving
/// treap as well; afterwards every pushing walk (collect, first, last, split_at, remove_at).
fn exhaustive_pending(focus: &str, n_max: usize, emit: &mut dyn FnMut(String), st: &mut Stats, rng: &mut SplitMix64) {
    for n in 1..=n_max {
        for code in 0..(1u64 << n) {
            let ps: Vec<u64> = (0..n).map(|i| if (code >> i) & 1 == 1 { PMAX } else { 0 }).collect();
            for k in 0..=n {
                for kind in [Kind::Sum, Kind::Aff] {
                    for source in 0..3 {
                        let mut s = Sim::new(kind, true, 0, rng);
                        let vals: Vec<i64> = (0..n).map(|i| (i as i64 + 1) * 3 - 7).collect();
                        for i in 0..n {
                            s.ops.push(format!("item {} {}", vals[i], ps[i]));
                            s.seqs.push(vec![vals[i]]);
                            if i > 0 {
                                s.p_merge(0, 1);
                            }
                        }
                        // scratch creations move the thread's priority stream (the case runs on a fresh thread)
                        for _ in 0..(code + k as u64) % 4 {
                            s.p_item(0);
                            s.p_drop(1);
                        }
                        let mut t0 = s.tag();
                        if t0.0 == 0 {
                            t0.0 = -1;
                        }
                        if source != 1 {
                            s.p_tag(0, t0);
                        }
                        let mut t1 = s.tag();
                        if t1.0 == 0 {
                            t1.0 = 1;
                        }
                        if t1.0 == 1 && t1.1 == 0 {
                            t1.1 = 5;
                        }
                        let t2 = s.tag();
                        let v = 11 + k as i64;
                        match source {
                            0 => s.p_inserttag(0, k, v, t1),
                            _ => {
                                s.p_item(v);
                                s.p_tag(1, t1);
                                s.p_tag(1, t2);
                                s.p_moveroot(1, source == 1, 0, k);
                                s.p_obs("size", 1);
                                s.p_drop(1);
                            }
                        }
                        s.p_obs("agg", 0);
                        s.p_obs("collect", 0);
                        s.p_obs("first", 0);
                        s.p_obs("last", 0);
                        s.p_splitat(0, k);
                        s.p_obs("agg", 0);
                        s.p_obs("agg", 1);
                        s.p_obs("collect", 1);
                        s.p_merge(0, 1);
                        s.p_remove(0, k);
                        s.p_obs("collect", 0);
                        s.p_obs("agg", 0);
                        emit(s.line(focus, Some((code + k as u64) % 6)));
                        st.bump(&format!("exhaustive_real_insert_at_of_item_with_pending_tag_n{}", n));
                    }
                }
            }
        }
    }
}

fn bucket(n: usize) -> &'static str {
    match n {
        0..=3 => "000-003",
        4..=7 => "004-007",
        8..=15 => "008-015",
        16..=31 => "016-031",
        32..=63 => "032-063",
        64..=127 => "064-127",
        _ => "128+",
    }
}

/// (iii) random structured histories. `target` = number of nodes to grow to before the operation
/// mix becomes unbiased (0 = small history); `steps` counts *composed* operations.
fn random_history(focus: &str, kind: Kind, own: bool, target: usize, rng: &mut SplitMix64, st: &mut Stats) -> String {
    let pol = if focus == "C16" && rng.chance(1, 2) { 6 } else { rng.below(POLICIES) };
    let pm = if own { Some(rng.below(6)) } else { None };
    let set_mode = rng.chance(1, 3);
    // a small separate stream outside the stated domain (positions past the end, non-monotone predicates)
    let ood = !set_mode && rng.chance(1, 25);
    let cap = if kind == Kind::Aff { 90 } else { 400 };
    let target = target.min(cap - 10);
    let max_items = if target == 0 { 40 } else { (target + 30).min(cap) };
    let steps = if target == 0 { 25 } else { target + 40 };
    let mut s = Sim::new(kind, own, pol, rng);
    if own {
        s.p_new();
    }
    let mut is_ood = false;
    for _ in 0..steps {
        let live = s.seqs.len();
        if live == 0 {
            let v = s.val();
            s.p_item(v);
            continue;
        }
        let i = if target > 0 {
            // prefer the biggest treap so that it actually grows
            let big = (0..live).max_by_key(|&j| s.seqs[j].len()).unwrap();
            if s.rng.chance(2, 3) { big } else { s.rng.below(live as u64) as usize }
        } else {
            s.rng.below(live as u64) as usize
        };
        let n = s.seqs[i].len();
        let can_create = s.created < max_items;
        let growing = s.total() < target && can_create;
        let roll = if growing && s.rng.chance(7, 10) { 0 } else { s.rng.below(29) };
        if set_mode {
            match roll {
                0..=6 if can_create => {
                    let v = s.val();
                    if s.sorted_insert(i, v) {
                        st.bump("op_sorted_insert_via_split_by");
                    } else {
                        s.p_item(v);
                        st.bump("op_from_item");
                    }
                }
                7 | 8 if n > 0 => {
                    let k = s.rng.below(n as u64) as usize;
                    s.p_remove(i, k);
                    st.bump("op_remove");
                }
                9 | 10 => {
                    let t = s.mono_tag();
                    s.p_tag(i, t);
                    st.bump("op_tag_root");
                }
                11..=14 => {
                    if live < 6 && s.sorted_splitby(i) {
                        st.bump("op_split_by_sorted_interior");
                    }
                }
                15 | 16 if n > 0 => {
                    let (a, b) = (s.rng.below(n as u64) as usize, s.rng.below(n as u64) as usize);
                    s.range(i, a.min(b), a.max(b), None, true);
                    st.bump("op_range_agg");
                }
                17 => {
                    s.p_obs("first", i);
                    s.p_obs("last", i);
                    st.bump("op_first_last");
                }
                18 => {
                    s.p_obs("collect", i);
                    st.bump("op_collect");
                }
                20 if n > 0 && live < 6 => {
                    // taking an element out keeps both treaps sorted
                    let k = s.rng.below(n as u64) as usize;
                    s.p_take(i, k);
                    st.bump("op_take_from_item_of_removed");
                }
                21 if live < 6 => {
                    let w = s.rng.below(3);
                    let j = (0..live).find(|&j| s.seqs[j].len() == 1).unwrap_or(i);
                    s.p_dup(j, w);
                    st.bump("op_dup_clone");
                }
                22 if live >= 2 => {
                    let mut j = s.rng.below(live as u64 - 1) as usize;
                    if j >= i {
                        j += 1;
                    }
                    s.p_collect2(i, j);
                    st.bump("op_collect_into_two");
                }
                _ => {
                    s.p_obs("agg", i);
                    s.p_obs("size", i);
                    st.bump("op_agg_size");
                }
            }
            continue;
        }
        match roll {
            0 | 1 | 2 | 3 if can_create => {
                let v = s.val();
                let k = if ood && s.rng.chance(1, 4) {
                    is_ood = true;
                    n + 1 + s.rng.below(3) as usize
                } else {
                    s.rng.below(n as u64 + 1) as usize
                };
                s.insert(i, k, v);
                st.bump("op_insert");
            }
            4 if can_create && live < 5 => {
                let v = s.val();
                s.p_item(v);
                st.bump("op_from_item");
            }
            5 => {
                if n > 0 && !(ood && s.rng.chance(1, 3)) {
                    let k = s.rng.below(n as u64) as usize;
                    s.p_remove(i, k);
                    st.bump("op_remove");
                } else if ood {
                    let k = n + s.rng.below(2) as usize;
                    s.p_remove(i, k);
                    is_ood = true;
                    st.bump("op_remove_past_end");
                }
            }
            6 | 7 | 8 if n > 0 => {
                let (a, b) = (s.rng.below(n as u64) as usize, s.rng.below(n as u64) as usize);
                let t = s.tag();
                let agg = s.rng.chance(1, 2);
                s.range(i, a.min(b), a.max(b), Some(t), agg);
                st.bump("op_range_tag");
            }
            9 | 10 if n > 0 => {
                let (a, b) = (s.rng.below(n as u64) as usize, s.rng.below(n as u64) as usize);
                s.range(i, a.min(b), a.max(b), None, true);
                st.bump("op_range_agg");
            }
            11 => {
                let k = s.rng.below(n as u64 + 1) as usize;
                s.rotate(i, k);
                st.bump("op_split_swap");
            }
            12 if live >= 2 => {
                let mut j = s.rng.below(live as u64 - 1) as usize;
                if j >= i {
                    j += 1;
                }
                if kind == Kind::Sum || s.seqs[i].len() + s.seqs[j].len() <= 90 {
                    s.p_merge(i, j);
                    st.bump("op_merge");
                }
            }
            13 if live < 5 => {
                if s.rng.chance(1, 2) {
                    let k = if ood && s.rng.chance(1, 3) {
                        is_ood = true;
                        n + 1 + s.rng.below(2) as usize
                    } else {
                        s.rng.below(n as u64 + 1) as usize
                    };
                    s.p_splitat(i, k);
                    st.bump("op_split_at");
                } else if n > 0 && s.mono_splitby(i) {
                    st.bump("op_split_by");
                } else if ood && !own {
                    // a predicate that is not prefix-monotone (only in the controlled stream: the
                    // result then depends on the shape)
                    let c = s.val();
                    s.p_splitby(i, "lt", c);
                    is_ood = true;
                    st.bump("op_split_by_not_monotone");
                }
            }
            14 => {
                let t = s.tag();
                s.p_tag(i, t);
                st.bump("op_tag_root");
            }
            15 => {
                s.p_obs("first", i);
                s.p_obs("last", i);
                st.bump("op_first_last");
            }
            16 => {
                s.p_obs("collect", i);
                st.bump("op_collect");
            }
            17 => {
                s.p_obs("agg", i);
                s.p_obs("size", i);
                st.bump("op_agg_size");
            }
            18 if live >= 4 => {
                s.p_drop(i);
                st.bump("op_drop");
            }
            19 if live < 5 && s.rng.chance(1, 4) => {
                s.p_new();
                st.bump("op_new_empty");
            }
            20 | 21 if n > 0 => {
                // move an element: remove_at, then insert_at of the returned item — inside the same treap or
                // into another one
                let k = if ood && s.rng.chance(1, 4) {
                    is_ood = true;
                    n + s.rng.below(2) as usize
                } else {
                    s.rng.below(n as u64) as usize
                };
                let j = if live >= 2 && s.rng.chance(1, 3) { s.rng.below(live as u64) as usize } else { i };
                let room = if i == j { n - 1 } else { s.seqs[j].len() };
                if kind == Kind::Sum || room < 90 {
                    let pos = if ood && s.rng.chance(1, 4) {
                        is_ood = true;
                        room + 1 + s.rng.below(2) as usize
                    } else {
                        s.rng.below(room as u64 + 1) as usize
                    };
                    s.p_move(i, k, j, pos);
                    st.bump(if i == j { "op_move_within" } else { "op_move_between" });
                }
            }
            22 if n > 0 && live < 5 => {
                let k = s.rng.below(n as u64) as usize;
                s.p_take(i, k);
                st.bump("op_take_from_item_of_removed");
            }
            23 if live < 5 => {
                let w = s.rng.below(3);
                let j = (0..live).find(|&j| s.seqs[j].len() == 1).unwrap_or(i);
                s.p_dup(j, w);
                st.bump("op_dup_clone");
            }
            24 if live >= 2 => {
                let mut j = s.rng.below(live as u64 - 1) as usize;
                if j >= i {
                    j += 1;
                }
                s.p_collect2(i, j);
                st.bump("op_collect_into_two");
            }
            25 | 26 if can_create && (kind == Kind::Sum || n < 90) => {
                // `insert_at` of a hand-built item that carries a pending modification
                let v = s.val();
                let t = s.tag();
                let k = if ood && s.rng.chance(1, 4) {
                    is_ood = true;
                    n + 1 + s.rng.below(3) as usize
                } else {
                    s.rng.below(n as u64 + 1) as usize
                };
                s.p_inserttag(i, k, v, t);
                st.bump("op_insert_item_with_pending_tag");
            }
            27 | 28 if n > 0 && live < 5 && can_create && (kind == Kind::Sum || n < 90) => {
                // the root item of a modified one-element part goes back in through `insert_at`
                let a = s.rng.below(n as u64) as usize;
                let take = s.rng.chance(1, 2);
                let pos = s.rng.below(n as u64) as usize;
                let t1 = s.tag();
                let t2 = if s.rng.chance(1, 2) { Some(s.tag()) } else { None };
                s.root_move(i, a, pos, t1, t2, take);
                st.bump(if take { "op_insert_root_item_taken_with_pending_tag" } else { "op_insert_root_item_cloned_with_pending_tag" });
            }
            _ => {}
        }
    }
    // final observation of every live treap
    for i in 0..s.seqs.len() {
        s.p_obs("collect", i);
        s.p_obs("agg", i);
    }
    if is_ood {
        st.bump("histories_out_of_stated_domain");
    }
    if s.restructs_after_tag > 0 {
        st.bump("histories_with_restructuring_after_a_tag");
    }
    if s.reuses > 0 {
        st.bump("histories_reusing_a_returned_item");
    }
    if s.pending_inserts > 0 {
        st.bump(if own { "histories_own_inserting_an_item_with_a_pending_tag" } else { "histories_ctl_inserting_an_item_with_a_pending_tag" });
    }
    st.bump(&format!("histories_{}_{}", kind.name(), if own { "own" } else { "ctl" }));
    if set_mode {
        st.bump("histories_sorted_discipline");
    }
    st.bump(&format!("size_max_treap_{}", bucket(s.max_size)));
    st.bump(&format!("size_nodes_created_{}", bucket(s.created)));
    st.add("split_by_interior", s.splitby_interior as u64);
    st.add("split_by_interior_of_6_or_more", s.splitby_interior_big as u64);
    st.add("split_by_all_left_or_all_right", s.splitby_trivial as u64);
    if !own {
        st.bump(&format!("priority_policy_{}", pol));
    }
    s.line(focus, pm)
}

/// random histories for the item without size / tags / aggregate (`key`): rlib's `set` idiom (sorted insert and
/// removal through `split_by`), arbitrary merges, monotone `split_by`, and every observation that exists for it
fn key_history(focus: &str, own: bool, rng: &mut SplitMix64, st: &mut Stats) -> String {
    let pol = if focus == "C16" && rng.chance(1, 2) { 6 } else { rng.below(POLICIES) };
    let pm = if own { Some(rng.below(6)) } else { None };
    let steps = 12 + rng.below(30) as usize;
    let mut s = Sim::new(Kind::Key, own, pol, rng);
    for _ in 0..steps {
        let live = s.seqs.len();
        if live == 0 {
            let v = s.val();
            s.p_item(v);
            continue;
        }
        let i = s.rng.below(live as u64) as usize;
        let n = s.seqs[i].len();
        match s.rng.below(16) {
            0..=5 if s.created < 60 => {
                let v = s.val();
                if s.sorted_insert(i, v) {
                    st.bump("op_sorted_insert_via_split_by");
                } else {
                    s.p_item(v);
                    st.bump("op_from_item");
                }
            }
            6 | 7 => {
                if live < 6 && s.sorted_splitby(i) {
                    st.bump("op_split_by_sorted_interior");
                }
            }
            8 if live < 5 && n > 0 => {
                if s.mono_splitby(i) {
                    st.bump("op_split_by");
                }
            }
            9 if live >= 2 => {
                let mut j = s.rng.below(live as u64 - 1) as usize;
                if j >= i {
                    j += 1;
                }
                s.p_merge(i, j);
                st.bump("op_merge");
            }
            10 => {
                s.p_obs("first", i);
                s.p_obs("last", i);
                st.bump("op_first_last");
            }
            11 => {
                s.p_obs("collect", i);
                s.p_obs("size", i);
                st.bump("op_collect");
            }
            12 if live < 6 => {
                let w = s.rng.below(3);
                let j = (0..live).find(|&j| s.seqs[j].len() == 1).unwrap_or(i);
                s.p_dup(j, w);
                st.bump("op_dup_clone");
            }
            13 if live >= 2 => {
                let mut j = s.rng.below(live as u64 - 1) as usize;
                if j >= i {
                    j += 1;
                }
                s.p_collect2(i, j);
                st.bump("op_collect_into_two");
            }
            14 if live >= 4 => {
                s.p_drop(i);
                st.bump("op_drop");
            }
            15 if live < 5 => {
                s.p_new();
                st.bump("op_new_empty");
            }
            _ => {}
        }
    }
    for i in 0..s.seqs.len() {
        s.p_obs("collect", i);
        s.p_obs("size", i);
    }
    st.bump(&format!("histories_key_{}", if own { "own" } else { "ctl" }));
    st.add("split_by_interior", s.splitby_interior as u64);
    st.add("split_by_all_left_or_all_right", s.splitby_trivial as u64);
    s.line(focus, pm)
}

fn key_batch(focus: &str, n_ctl: usize, n_own: usize, rng: &mut SplitMix64, emit: &mut dyn FnMut(String), st: &mut Stats) {
    for _ in 0..n_ctl {
        emit(key_history(focus, false, rng, st));
    }
    for _ in 0..n_own {
        emit(key_history(focus, true, rng, st));
    }
}

/// a batch of random histories: `n` small ones plus shares that grow to medium / large treaps
fn random_batch(focus: &str, own: bool, n_small: usize, n_medium: usize, n_large: usize, rng: &mut SplitMix64, emit: &mut dyn FnMut(String), st: &mut Stats) {
    for h in 0..n_small + n_medium + n_large {
        let kind = if h % 2 == 0 { Kind::Sum } else { Kind::Aff };
        let target = if h < n_small {
            0
        } else if h < n_small + n_medium {
            20 + rng.below(45) as usize
        } else {
            70 + rng.below(180) as usize
        };
        emit(random_history(focus, kind, own, target, rng, st));
    }
}

/// C16, `own` stream: the operation orders that degenerate an unbalanced tree, as explicit operations
fn adversarial(pattern: u64, n: usize, rng: &mut SplitMix64) -> String {
    let mut s = Sim::new(Kind::Sum, true, 0, rng);
    s.p_new();
    for it in 0..n {
        let len = s.seqs[0].len();
        match pattern {
            0 => s.p_insert(0, len, it as i64),
            1 => s.p_insert(0, 0, it as i64),
            2 => s.p_insert(0, if it % 2 == 0 { 0 } else { len }, it as i64),
            3 => {
                s.p_insert(0, len, it as i64);
                if it % 3 == 2 {
                    let k = s.rng.below(len as u64 + 2) as usize;
                    // split-and-swap keeps the treap at index 0: [l, r] -> merge 1 0 puts r ++ l at 0
                    s.p_splitat(0, k);
                    s.p_merge(1, 0);
                }
            }
            4 => {
                let k = s.rng.below(len as u64 + 1) as usize;
                if len > 4 && s.rng.chance(1, 5) {
                    s.p_remove(0, k.min(len - 1));
                } else {
                    s.p_insert(0, k, it as i64);
                }
            }
            5 => {
                // sorted append assembled from one-element treaps made by `from_item`
                s.p_item(it as i64);
                s.p_merge(0, 1);
            }
            6 => {
                // ... made by `Treap::new()` + `insert_at`
                s.p_new();
                s.p_insert(1, 0, it as i64);
                s.p_merge(0, 1);
            }
            7 => {
                // ordinary appends with a scratch treap created in between: split, merge through
                // the empty scratch treap, merge back
                s.p_insert(0, len, it as i64);
                let k = s.rng.below(len as u64 + 2) as usize;
                s.p_splitat(0, k);
                s.p_new();
                s.p_merge(0, 2);
                s.p_merge(0, 1);
            }
            8 => {
                // several live treaps filled round-robin: the nodes of each are every k-th creation of the thread
                let k = [2usize, 3, 5, 8, 13, 21][(n % 6) as usize];
                while s.seqs.len() < k {
                    s.p_new();
                }
                let j = it % k;
                let l = s.seqs[j].len();
                s.p_insert(j, l, it as i64);
            }
            _ => {
                // appends with scratch one-element treaps created (and dropped) in between: the treap's nodes are a
                // thinned subsequence of the thread's creations
                s.p_insert(0, len, it as i64);
                let scratch = 1 + (it % 3);
                for _ in 0..scratch {
                    s.p_item(-1);
                    s.p_drop(1);
                }
            }
        }
    }
    s.line("C16", Some(4))
}

pub fn gen(args: &Args, emit: &mut dyn FnMut(String), st: &mut Stats) {
    // `--profile debug`: the same generators in smaller numbers, run against the debug build of rlib
    // (cfg(debug_assertions), debug_assert!); debug + thorough = the release quick sizes
    let debug = args.extra.get("profile").map_or(false, |s| s == "debug");
    let thorough = args.tier == "thorough" && !debug;
    let small = debug && args.tier != "thorough";
    let focus = args.extra.get("focus").cloned().unwrap_or_else(|| "C03".to_string());
    let mut rng = SplitMix64::new(args.seed ^ if focus == "C16" { 0xC16 } else { 0xC03 });
    if focus == "C03" {
        if thorough {
            exhaustive("C03", 5, 5, emit, st, &mut rng);
            exhaustive_extreme("C03", 4, emit, st, &mut rng);
            exhaustive_pending("C03", 5, emit, st, &mut rng);
            random_batch("C03", false, 90_000, 12_000, 3_000, &mut rng, emit, st);
            random_batch("C03", true, 22_000, 4_000, 1_000, &mut rng, emit, st);
            key_batch("C03", 8_000, 2_000, &mut rng, emit, st);
        } else if small {
            exhaustive("C03", 3, 4, emit, st, &mut rng);
            exhaustive_extreme("C03", 2, emit, st, &mut rng);
            exhaustive_pending("C03", 2, emit, st, &mut rng);
            random_batch("C03", false, 400, 60, 20, &mut rng, emit, st);
            random_batch("C03", true, 100, 16, 4, &mut rng, emit, st);
            key_batch("C03", 60, 20, &mut rng, emit, st);
        } else {
            exhaustive("C03", 4, 5, emit, st, &mut rng);
            exhaustive_extreme("C03", 3, emit, st, &mut rng);
            exhaustive_pending("C03", 3, emit, st, &mut rng);
            random_batch("C03", false, 2_000, 300, 100, &mut rng, emit, st);
            random_batch("C03", true, 500, 80, 20, &mut rng, emit, st);
            key_batch("C03", 300, 100, &mut rng, emit, st);
        }
    } else {
        // controlled priorities: heap order after every operation, shape at the end
        if thorough {
            exhaustive("C16", 4, 5, emit, st, &mut rng);
            exhaustive_extreme("C16", 4, emit, st, &mut rng);
            exhaustive_pending("C16", 3, emit, st, &mut rng);
            random_batch("C16", false, 20_000, 3_000, 1_000, &mut rng, emit, st);
            random_batch("C16", true, 2_500, 400, 100, &mut rng, emit, st);
            key_batch("C16", 2_000, 500, &mut rng, emit, st);
        } else if small {
            exhaustive("C16", 2, 3, emit, st, &mut rng);
            exhaustive_extreme("C16", 2, emit, st, &mut rng);
            random_batch("C16", false, 120, 30, 10, &mut rng, emit, st);
            random_batch("C16", true, 30, 6, 2, &mut rng, emit, st);
            key_batch("C16", 20, 6, &mut rng, emit, st);
        } else {
            exhaustive("C16", 3, 4, emit, st, &mut rng);
            exhaustive_extreme("C16", 3, emit, st, &mut rng);
            exhaustive_pending("C16", 2, emit, st, &mut rng);
            random_batch("C16", false, 600, 150, 50, &mut rng, emit, st);
            random_batch("C16", true, 120, 25, 5, &mut rng, emit, st);
            key_batch("C16", 100, 30, &mut rng, emit, st);
        }
        // rlib's own priorities, explicit operations
        let (reps, size) = if thorough { (6, 1500) } else if small { (1, 120) } else { (1, 300) };
        for pattern in 0..10u64 {
            for r in 0..reps {
                emit(adversarial(pattern, size / (1 + r % 3), &mut rng));
                st.bump(&format!("adversarial_explicit_pattern_{}", pattern));
            }
        }
        // measured: adversarial histories with rlib's priorities up to 10^6 elements; every case is
        // self-contained (fresh thread = start of the priority stream, `burn` moves it forward)
        let sizes: Vec<usize> = if thorough { vec![1_000, 31_623, 1_000_000] } else if small { vec![1_000] } else { vec![1_000, 100_000] };
        for &n in &sizes {
            let sd = rng.below(1 << 30);
            let burn = if thorough { rng.below(5_000_000) } else { 0 };
            let rotn = (n / 10).min(20_000);
            for line in [
                format!("C16 sum big ; append {}", n),
                format!("C16 sum big ; front {}", n),
                format!("C16 sum big ; alt {}", n),
                format!("C16 sum big ; mid {}", n),
                format!("C16 sum big ; rand {} {}", n, sd),
                // many `Treap` objects: the sequence assembled from one-element treaps, scratch treaps
                // between operations, split results merged back
                format!("C16 sum big ; singles {}", n),
                format!("C16 sum big ; fromitem {}", n),
                format!("C16 sum big ; scratch {}", n),
                format!("C16 sum big ; burn {} ; singles {} ; pieces {} {} ; fromitem {} ; pieces {} {}", burn, n / 2, (n / 50).max(2), sd + 5, n / 2, (n / 200).max(2), sd + 6),
                format!("C16 sum big ; burn {} ; append {} ; rot {} {} ; del {} {} ; front {}", burn / 2, n, rotn, sd + 1, n / 2, sd + 2, n / 4),
                format!("C16 sum big ; front {} ; rot {} {} ; scratch {} ; del {} {} ; pieces {} {}", n / 2, rotn, sd + 3, n / 2, n / 3, sd + 4, (n / 100).max(2), sd + 7),
            ] {
                emit(line);
                st.bump(&format!("big_n{}", n));
            }
        }
        if !thorough && !small {
            // one longer sorted append so that a short-period generator shows up in the quick tier too
            emit("C16 sum big ; append 300000".to_string());
            st.bump("big_n300000");
        }
        // the nodes of one treap are a SUBSEQUENCE of the thread's creations (seeded C16_m10: a priority source that is
        // fine for consecutive creations and degenerate along arithmetic progressions of the creation index).
        // (a) every stride up to S on the same nodes (two windows each);
        let (smax, len) = if thorough { (16_384, 256) } else if small { (512, 128) } else { (4_096, 256) };
        emit(format!("C16 sum big ; strides {} {}", smax, len));
        emit(format!("C16 sum big ; burn {} ; strides {} {}", 1 + rng.below(1_000_000), smax / 4, len * 2));
        st.add("big_strides_all_strides_up_to", smax as u64);
        // (b) the user-level scenarios: k treaps filled round-robin, appends thinned by scratch creations, a long append
        // run thinned to every s-th element afterwards — k/s over powers of two, Fibonacci numbers and small multiples,
        // primes, round decimal counts, random counts
        let mut counts: Vec<usize> = vec![2, 3, 7, 16, 55, 64, 89, 100, 144, 233, 256, 377, 500, 610, 987, 1000, 1024, 1597, 1974, 2048, 2584, 4096, 4181];
        for _ in 0..(if thorough { 40 } else { 6 }) {
            counts.push(2 + rng.below(5000) as usize);
        }
        if small {
            counts = vec![3, 64, 89, 610, 987, 1024];
        }
        if thorough {
            counts.extend([6765, 8192, 10_946, 16_384, 28_657, 32_768, 65_536]);
        }
        for &k in &counts {
            let rounds = if thorough { (200_000 / k).clamp(64, 512) } else if small { 64 } else { (150_000 / k).clamp(64, 256) };
            emit(format!("C16 sum big ; rr {} {}", k, rounds));
            emit(format!("C16 sum big ; burn {} ; thin {} {}", rng.below(10_000), k, if thorough { 1024 } else if small { 64 } else { 256 }));
            st.add("big_round_robin_treaps", k as u64);
            st.bump("big_rr");
            st.bump("big_thin");
        }
        for &s in &[64usize, 377, 512, 610, 987, 1000] {
            let keep = if thorough { 1024 } else if small { 64 } else { 256 };
            emit(format!("C16 sum big ; append {} ; keep {}", s * keep, s));
            emit(format!("C16 sum big ; front {} ; keep {}", s * keep / 2, s / 2 + 1));
            st.add("big_keep", 2);
        }
    }
}
