//! The items the treap correspondence runs. Field by field the same as
//! `lean/RlibModel/Model/TreapItems.lean` (`sumAdd`, `affHash`, `keyOnly`).
use rlib_treap::{TreapItem, TreapItemSized};

/// What the harness needs from an item besides rlib's two traits.
pub trait HItem: TreapItem + TreapItemSized + Sized + Clone {
    type Tag;
    fn mk(v: i64) -> Self;
    fn own(&self) -> i128;
    fn agg_s(&self) -> String;
    fn parse_tag(toks: &[&str]) -> Option<Self::Tag>;
    fn modify(&mut self, m: &Self::Tag);
}

/// rlib's own test item (`ItemSized`): value, subtree sum, pending addend, size.
#[derive(Clone)]
pub struct SumIt {
    pub x: i64,
    pub sm: i64,
    pub md: i64,
    pub sz: usize,
}

impl SumIt {
    fn modify_by(&mut self, m: i64) {
        self.md += m;
        self.x += m;
        self.sm += m * self.sz as i64;
    }
}

impl TreapItem for SumIt {
    fn update(&mut self, left: Option<&Self>, right: Option<&Self>) {
        self.sm = left.map(|i| i.sm).unwrap_or(0) + right.map(|i| i.sm).unwrap_or(0) + self.x;
        self.sz = left.map(|i| i.sz).unwrap_or(0) + right.map(|i| i.sz).unwrap_or(0) + 1;
    }
    fn push(&mut self, left: Option<&mut Self>, right: Option<&mut Self>) {
        if let Some(l) = left {
            l.modify_by(self.md);
        }
        if let Some(r) = right {
            r.modify_by(self.md);
        }
        self.md = 0;
    }
}

impl TreapItemSized for SumIt {
    fn size(&self) -> usize {
        self.sz
    }
}

impl HItem for SumIt {
    type Tag = i64;
    fn mk(v: i64) -> Self {
        SumIt { x: v, sm: v, md: 0, sz: 1 }
    }
    fn own(&self) -> i128 {
        self.x as i128
    }
    fn agg_s(&self) -> String {
        format!("({},{})", self.sz, self.sm)
    }
    fn parse_tag(toks: &[&str]) -> Option<i64> {
        if toks.len() == 1 {
            toks[0].parse().ok()
        } else {
            None
        }
    }
    fn modify(&mut self, m: &i64) {
        self.modify_by(*m)
    }
}

/// Integer elements, affine tags `e -> a*e + b` (they do not commute), positional hash
/// `(2^len, sum e_i * 2^(len-1-i))` as the aggregate (its monoid does not commute either).
#[derive(Clone)]
pub struct AffIt {
    pub x: i128,
    pub pw: i128,
    pub h: i128,
    pub ma: i128,
    pub mb: i128,
    pub sz: usize,
}

impl AffIt {
    fn modify_by(&mut self, a: i128, b: i128) {
        self.x = a * self.x + b;
        self.h = a * self.h + b * (self.pw - 1);
        let (ma, mb) = (a * self.ma, a * self.mb + b);
        self.ma = ma;
        self.mb = mb;
    }
}

fn hash_mul(a: (i128, i128), b: (i128, i128)) -> (i128, i128) {
    (a.0 * b.0, a.1 * b.0 + b.1)
}

impl TreapItem for AffIt {
    fn update(&mut self, left: Option<&Self>, right: Option<&Self>) {
        let gl = left.map(|i| (i.pw, i.h)).unwrap_or((1, 0));
        let gr = right.map(|i| (i.pw, i.h)).unwrap_or((1, 0));
        let g = hash_mul(gl, hash_mul((2, self.x), gr));
        self.pw = g.0;
        self.h = g.1;
        self.sz = left.map(|i| i.sz).unwrap_or(0) + right.map(|i| i.sz).unwrap_or(0) + 1;
    }
    fn push(&mut self, left: Option<&mut Self>, right: Option<&mut Self>) {
        if let Some(l) = left {
            l.modify_by(self.ma, self.mb);
        }
        if let Some(r) = right {
            r.modify_by(self.ma, self.mb);
        }
        self.ma = 1;
        self.mb = 0;
    }
}

impl TreapItemSized for AffIt {
    fn size(&self) -> usize {
        self.sz
    }
}

impl HItem for AffIt {
    type Tag = (i128, i128);
    fn mk(v: i64) -> Self {
        AffIt { x: v as i128, pw: 2, h: v as i128, ma: 1, mb: 0, sz: 1 }
    }
    fn own(&self) -> i128 {
        self.x
    }
    fn agg_s(&self) -> String {
        format!("({},{})", self.pw, self.h)
    }
    fn parse_tag(toks: &[&str]) -> Option<(i128, i128)> {
        if toks.len() == 2 {
            Some((toks[0].parse().ok()?, toks[1].parse().ok()?))
        } else {
            None
        }
    }
    fn modify(&mut self, m: &(i128, i128)) {
        self.modify_by(m.0, m.1)
    }
}

/// The item of rlib's own `set` test: a bare key. It relies on the DEFAULT (empty) bodies of
/// `TreapItem::update` / `TreapItem::push` and does not implement `TreapItemSized`, so only
/// `new / from_item / merge / split_by / first / last / collect / collect_into` exist for it.
/// (Lean twin `keyOnly`: the same with a ghost size, compared with the node count the harness reads
/// through the public `left` / `right` fields.)
#[derive(Clone)]
pub struct KeyIt {
    pub x: i64,
}

impl TreapItem for KeyIt {}
