//! Correspondence harness for engine `gcd` (property C11): drives rlib_gcd::{gcd, lcm, egcd, crt}.
#[path = "../../common/mod.rs"]
mod common;
use common::*;
use rlib_gcd::{crt, egcd, gcd, lcm};

const TYPES: [&str; 12] = [
    "i8", "u8", "i16", "u16", "i32", "u32", "i64", "u64", "i128", "u128", "isize", "usize",
];

/// (is signed, largest magnitude generated) — for signed types the minimum is excluded, as the property says
fn ty_info(ty: &str) -> (bool, u128) {
    match ty {
        "i8" => (true, i8::MAX as u128),
        "u8" => (false, u8::MAX as u128),
        "i16" => (true, i16::MAX as u128),
        "u16" => (false, u16::MAX as u128),
        "i32" => (true, i32::MAX as u128),
        "u32" => (false, u32::MAX as u128),
        "i64" | "isize" => (true, i64::MAX as u128),
        "u64" | "usize" => (false, u64::MAX as u128),
        "i128" => (true, i128::MAX as u128),
        "u128" => (false, u128::MAX),
        _ => unreachable!(),
    }
}
fn ty_bits(ty: &str) -> u32 {
    match ty {
        "i8" | "u8" => 8,
        "i16" | "u16" => 16,
        "i32" | "u32" => 32,
        "i128" | "u128" => 128,
        _ => 64,
    }
}

/// Operands travel as decimal strings and are parsed by the type under test itself, so every value of every
/// type (u128 above 2^127 included) can be expressed.
macro_rules! dispatch2 {
    ($f:ident, $ty:expr, $a:expr, $b:expr) => {{
        macro_rules! go {
            ($t:ty) => {
                match ($a.parse::<$t>(), $b.parse::<$t>()) {
                    (Ok(x), Ok(y)) => catch(|| $f(x, y).to_string()),
                    _ => Ok("INVALID".to_string()),
                }
            };
        }
        match $ty {
            "i8" => go!(i8),
            "u8" => go!(u8),
            "i16" => go!(i16),
            "u16" => go!(u16),
            "i32" => go!(i32),
            "u32" => go!(u32),
            "i64" => go!(i64),
            "u64" => go!(u64),
            "i128" => go!(i128),
            "u128" => go!(u128),
            "isize" => go!(isize),
            "usize" => go!(usize),
            _ => Err("bad-type".to_string()),
        }
    }};
}

/// magnitude of a decimal token (sign dropped); None if it does not fit u128
fn magnitude_of(tok: &str) -> Option<u128> {
    tok.trim_start_matches('-').parse::<u128>().ok()
}
fn gcd_u128(mut a: u128, mut b: u128) -> u128 {
    while b != 0 {
        let t = a % b;
        a = b;
        b = t;
    }
    a
}
/// Independent oracle for gcd / lcm inside the property's domain (operands representable, not the signed minimum,
/// result representable, not both zero for lcm): brute arithmetic on u128 magnitudes.
fn gcdlcm_oracle(op: &str, ty: &str, a: &str, b: &str) -> Option<String> {
    let (_, hi) = ty_info(ty);
    let (ma, mb) = (magnitude_of(a)?, magnitude_of(b)?);
    if ma > hi || mb > hi {
        return None;
    }
    let g = gcd_u128(ma, mb);
    if op == "gcd" {
        return Some(g.to_string());
    }
    if g == 0 {
        return None;
    }
    let l = (ma / g).checked_mul(mb)?;
    if l > hi {
        return None;
    }
    Some(l.to_string())
}

fn unwrap_res(r: Result<String, String>) -> String {
    match r {
        Ok(s) => s,
        Err(e) => e,
    }
}

fn gcd_i128(a: i128, b: i128) -> i128 {
    let (mut a, mut b) = (a.abs(), b.abs());
    while b != 0 {
        let t = a % b;
        a = b;
        b = t;
    }
    a
}

fn run_case(line: &str) -> String {
    let toks: Vec<&str> = line.split_whitespace().collect();
    let (op, ty) = match toks[0].split_once(':') {
        Some((o, t)) => (o, t),
        None => (toks[0], ""),
    };
    if op == "gcd" || op == "lcm" {
        if toks.len() != 3 || !TYPES.contains(&ty) {
            return out1("INVALID");
        }
        let raw = if op == "gcd" {
            unwrap_res(dispatch2!(gcd, ty, toks[1], toks[2]))
        } else {
            unwrap_res(dispatch2!(lcm, ty, toks[1], toks[2]))
        };
        if let Some(exp) = gcdlcm_oracle(op, ty, toks[1], toks[2]) {
            if raw != "INVALID" && raw != exp {
                return out2(&raw, &format!("{}_oracle-expects_{}", raw, exp));
            }
        }
        return out1(&raw);
    }
    let mut nums: Vec<i128> = Vec::new();
    for t in &toks[1..] {
        match t.parse::<i64>() {
            Ok(z) => nums.push(z as i128),
            Err(_) => return out1("INVALID"),
        }
    }
    match op {
        "egcd" if nums.len() == 3 => {
            let (a, b, c) = (nums[0] as i64, nums[1] as i64, nums[2] as i64);
            match catch(|| egcd(a, b, c)) {
                Err(e) => out1(&e),
                Ok(None) => out1("none"),
                Ok(Some((x, y))) => {
                    let ok = a as i128 * x as i128 + b as i128 * y as i128 == c as i128;
                    out2(&format!("some {} {}", x, y), if ok { "solution" } else { "bad-solution" })
                }
            }
        }
        "crt" if nums.len() == 4 => {
            let (a1, m1, a2, m2) = (nums[0] as i64, nums[1] as i64, nums[2] as i64, nums[3] as i64);
            match catch(|| crt(a1, m1, a2, m2)) {
                Err(e) => out1(&e),
                Ok(None) => out1("none"),
                Ok(Some(x)) => {
                    let (a1, m1, a2, m2, x) = (a1 as i128, m1 as i128, a2 as i128, m2 as i128, x as i128);
                    let g = gcd_i128(m1, m2);
                    let l = if g == 0 { 0 } else { (m1 / g * m2).abs() };
                    let ok = 0 <= x
                        && x < l
                        && m1 != 0
                        && m2 != 0
                        && (x - a1).rem_euclid(m1.abs()) == 0
                        && (x - a2).rem_euclid(m2.abs()) == 0;
                    out2(&format!("some {}", x), if ok { "solution" } else { "bad-solution" })
                }
            }
        }
        _ => "I bad-op | V bad-op".to_string(),
    }
}

/// structured operand near a power of two / multiple of a shared factor, |v| <= lim
fn operand(rng: &mut SplitMix64, lim: i64) -> i64 {
    let v = match rng.below(8) {
        0 => 0,
        1 => 1,
        2 => lim - rng.below(3) as i64,
        3 => 1i64 << rng.below(21),
        4 => (1i64 << rng.below(21)) - 1,
        5 => {
            let f = rng.range_i64(1, 1024);
            f * rng.range_i64(0, lim / f.max(1))
        }
        _ => rng.range_i64(0, lim),
    };
    let v = v.clamp(0, lim);
    if rng.chance(1, 2) {
        -v
    } else {
        v
    }
}

fn rand_u128(rng: &mut SplitMix64) -> u128 {
    ((rng.next_u64() as u128) << 64) | rng.next_u64() as u128
}
/// uniform-ish in [lo, hi]
fn range_u128(rng: &mut SplitMix64, lo: u128, hi: u128) -> u128 {
    if hi <= lo {
        return lo;
    }
    let span = hi - lo;
    if span == u128::MAX {
        return rand_u128(rng);
    }
    lo + rand_u128(rng) % (span + 1)
}
fn show_signed(neg: bool, mag: u128) -> String {
    if neg && mag != 0 {
        format!("-{}", mag)
    } else {
        mag.to_string()
    }
}
fn isqrt(n: u128) -> u128 {
    if n < 2 {
        return n;
    }
    let mut x = (n as f64).sqrt() as u128;
    while x.checked_mul(x).map_or(true, |v| v > n) {
        x -= 1;
    }
    while (x + 1).checked_mul(x + 1).map_or(false, |v| v <= n) {
        x += 1;
    }
    x
}

/// One sampled gcd / lcm case over the WHOLE range of `ty` (signed minimum excluded). Families:
///  * boundary  — 0, MAX-{0,1,2}, powers of two, small, wide random, shared 16-bit factor;
///  * upper_half (unsigned types) — at least one operand >= 2^(bits-1): MAX, MAX-1, 2^(bits-1)(+small), the largest
///    multiple of a small odd number, random upper-half values, against small / equal / upper-half partners
///    (an `abs` routed through the signed type, or a sign-extending cast, shows up only here);
///  * lcm_adjacent — a = p*f, b = q*f with p*q*f <= MAX < (p*f)*(q*f): the lcm is representable but the product of
///    the operands is not (an lcm that multiplies before dividing overflows exactly here).
fn gcdlcm_sample(rng: &mut SplitMix64, ty: &str, emit: &mut dyn FnMut(String), st: &mut Stats) {
    let (signed, hi) = ty_info(ty);
    let bits = ty_bits(ty);
    let family = rng.below(if signed { 6 } else { 8 });
    let (ma, mb, fam): (u128, u128, &str) = if family >= 6 {
        // upper half of an unsigned type
        let half = 1u128 << (bits - 1);
        let up = |rng: &mut SplitMix64| -> u128 {
            match rng.below(6) {
                0 => hi,
                1 => hi - 1 - rng.below(3) as u128,
                2 => half + rng.below(4) as u128,
                3 => {
                    let k = [3u128, 5, 7, 15, 17, 255, 257, 65537][rng.below(8) as usize];
                    let v = hi - hi % k;
                    if v >= half { v } else { hi }
                }
                _ => range_u128(rng, half, hi),
            }
        };
        let a = up(rng);
        let b = match rng.below(5) {
            0 => [0u128, 1, 2, 3, 5, 17, 255, 257][rng.below(8) as usize].min(hi),
            1 => a,
            2 => up(rng),
            3 => a / [2u128, 3, 5, 7][rng.below(4) as usize],
            _ => range_u128(rng, 0, hi),
        };
        if rng.chance(1, 2) { (a, b, "upper_half") } else { (b, a, "upper_half") }
    } else if family >= 4 {
        // lcm representable, product of the operands not
        let p = rng.range_i64(1, 15) as u128;
        let q = rng.range_i64(1, 15) as u128;
        let top = hi / (p * q); // largest f with p*q*f <= hi
        let low = isqrt(hi / (p * q)) + 1; // smallest f with p*q*f*f > hi
        if top >= low && top >= 1 {
            let f = match rng.below(3) {
                0 => top - rng.below(3).min((top - low) as u64) as u128,
                1 => low + rng.below(3).min((top - low) as u64) as u128,
                _ => range_u128(rng, low, top),
            };
            (p * f, q * f, "lcm_adjacent")
        } else {
            (hi, hi, "lcm_adjacent")
        }
    } else {
        let draw = |rng: &mut SplitMix64| -> u128 {
            let mag: u128 = match rng.below(7) {
                0 => 0,
                1 => hi - rng.below(3) as u128,
                2 => 1u128 << rng.below(bits as u64),
                3 => (rng.next_u64() % 1000) as u128,
                4 => (rng.next_u64() as u128) << rng.below(64),
                5 => rand_u128(rng) >> rng.below(128),
                _ => rng.next_u64() as u128,
            };
            mag.min(hi)
        };
        let (mut a, mut b) = (draw(rng), draw(rng));
        if rng.chance(1, 3) {
            let f = (rng.below(1 << 16) as u128).max(1);
            a = a / f * f;
            b = b / f * f;
        }
        (a, b, "boundary")
    };
    let (na, nb) = (signed && rng.chance(1, 2), signed && rng.chance(1, 2));
    let op = if fam == "lcm_adjacent" {
        if rng.chance(4, 5) { "lcm" } else { "gcd" }
    } else if rng.chance(1, 2) {
        "gcd"
    } else {
        "lcm"
    };
    emit(format!("{}:{} {} {}", op, ty, show_signed(na, ma), show_signed(nb, mb)));
    st.bump(&format!("{}_sampled_{}", op, ty));
    st.bump(&format!("gcdlcm_family_{}", fam));
    // what the case actually exercises (measured, not assumed)
    if !signed && (ma >> (bits - 1) != 0 || mb >> (bits - 1) != 0) {
        st.bump(&format!("operand_in_upper_half_{}", ty));
    }
    if bits == 128 && (ma >> 100 != 0 || mb >> 100 != 0) {
        st.bump(&format!("operand_above_2^100_{}", ty));
    }
    if op == "lcm" && ma != 0 && mb != 0 {
        let g = gcd_u128(ma, mb);
        let fits = (ma / g).checked_mul(mb).map_or(false, |l| l <= hi);
        let prod_overflows = ma.checked_mul(mb).map_or(true, |v| v > hi);
        if fits && prod_overflows {
            st.bump(&format!("lcm_fits_but_product_overflows_{}", ty));
        }
    }
}

fn gen(args: &Args, emit: &mut dyn FnMut(String), st: &mut Stats) {
    let thorough = args.tier == "thorough";
    let mut rng = SplitMix64::new(args.seed ^ 0xC11);
    // (1) exhaustive small scope
    let cube: i64 = if thorough { 16 } else { 12 };
    for a in -cube..=cube {
        for b in -cube..=cube {
            for c in -cube..=cube {
                emit(format!("egcd {} {} {}", a, b, c));
                st.bump("egcd_exhaustive");
            }
        }
    }
    let sq: i64 = if thorough { 80 } else { 40 };
    for a in -sq..=sq {
        for b in -sq..=sq {
            emit(format!("gcd:i64 {} {}", a, b));
            emit(format!("lcm:i64 {} {}", a, b));
            st.add("gcdlcm_exhaustive_i64", 2);
        }
    }
    let mlim: i64 = if thorough { 32 } else { 24 };
    for m1 in 1..=mlim {
        for m2 in 1..=mlim {
            for a1 in 0..m1 {
                for a2 in 0..m2 {
                    emit(format!("crt {} {} {} {}", a1, m1, a2, m2));
                    st.bump("crt_exhaustive");
                }
            }
        }
    }
    // (2) every 8-bit pair for i8/u8 (minimum of i8 excluded: outside the property's domain)
    for a in -127i64..=127 {
        for b in -127i64..=127 {
            if thorough || (a + b) % 3 == 0 {
                emit(format!("gcd:i8 {} {}", a, b));
                emit(format!("lcm:i8 {} {}", a, b));
                st.add("gcdlcm_i8", 2);
            }
        }
    }
    for a in 0i64..=255 {
        for b in 0i64..=255 {
            if thorough || (a + b) % 3 == 0 {
                emit(format!("gcd:u8 {} {}", a, b));
                emit(format!("lcm:u8 {} {}", a, b));
                st.add("gcdlcm_u8", 2);
            }
        }
    }
    // (3) boundary-biased sampling up to 2^20 (the property's box) for egcd / crt,
    //     and up to each type's range for gcd / lcm
    let n = if thorough { 2_000_000 } else { 60_000 };
    let lim = 1i64 << 20;
    for _ in 0..n {
        match rng.below(4) {
            0 => {
                let (mut a, mut b, c) = (operand(&mut rng, lim), operand(&mut rng, lim), operand(&mut rng, lim));
                // heavily non-coprime: multiply through by a shared factor sometimes
                if rng.chance(1, 3) {
                    let f = rng.range_i64(1, 64);
                    a = (a / f) * f;
                    b = (b / f) * f;
                }
                // make solvable half of the time
                let c = if rng.chance(1, 2) {
                    let g = gcd_i128(a as i128, b as i128) as i64;
                    if g != 0 { (c / g) * g } else { c }
                } else {
                    c
                };
                emit(format!("egcd {} {} {}", a, b, c));
                st.bump(if a == 0 || b == 0 { "egcd_sampled_zero_operand" } else { "egcd_sampled" });
            }
            1 => {
                let m1 = operand(&mut rng, lim).abs().max(1);
                let m2 = if rng.chance(1, 4) { m1 } else { operand(&mut rng, lim).abs().max(1) };
                let a1 = rng.range_i64(0, m1 - 1);
                let a2 = if rng.chance(1, 2) {
                    // compatible residue
                    let g = gcd_i128(m1 as i128, m2 as i128) as i64;
                    let base = a1 % g;
                    let k = rng.range_i64(0, (m2 - 1 - base).max(0) / g);
                    (base + k * g).min(m2 - 1)
                } else {
                    rng.range_i64(0, m2 - 1)
                };
                emit(format!("crt {} {} {} {}", a1, m1, a2, m2));
                st.bump("crt_sampled");
            }
            _ => {
                let ty = *rng.pick(&TYPES);
                gcdlcm_sample(&mut rng, ty, emit, st);
            }
        }
    }
    // (3b) a small stream far outside the 2^20 box (operands up to 2^62, minimum excluded): the property does not
    //      constrain the result there (`S any`), but the checked i64 model (`egcdT`, `crtT`) mirrors overflow panics,
    //      so the raw results are still compared
    let n = if thorough { 40_000 } else { 2_000 };
    let big = |rng: &mut SplitMix64| -> i64 {
        let sh = rng.below(62);
        let v = (rng.next_u64() >> 2) as i64 >> sh;
        if rng.chance(1, 2) { -v } else { v }
    };
    for _ in 0..n {
        if rng.chance(1, 2) {
            let (mut a, mut b, c) = (big(&mut rng), big(&mut rng), big(&mut rng));
            if rng.chance(1, 3) {
                let f = rng.range_i64(1, 1 << 20);
                a = (a / f) * f;
                b = (b / f) * f;
            }
            let c = if rng.chance(1, 2) {
                let g = gcd_i128(a as i128, b as i128) as i64;
                if g != 0 { (c / g) * g } else { c }
            } else {
                c
            };
            emit(format!("egcd {} {} {}", a, b, c));
            st.bump("egcd_outside_box");
        } else {
            let m1 = big(&mut rng).abs().max(1);
            let m2 = big(&mut rng).abs().max(1);
            let a1 = rng.range_i64(0, m1 - 1);
            let a2 = if rng.chance(1, 2) {
                let g = gcd_i128(m1 as i128, m2 as i128) as i64;
                let base = a1 % g;
                let k = rng.range_i64(0, (m2 - 1 - base).max(0) / g);
                ((base as i128 + k as i128 * g as i128).min(m2 as i128 - 1)) as i64
            } else {
                rng.range_i64(0, m2 - 1)
            };
            emit(format!("crt {} {} {} {}", a1, m1, a2, m2));
            st.bump("crt_outside_box");
        }
    }
    // (4) out-of-domain probes whose behaviour the model mirrors (panics), a separate small stream
    for c in -2..=2 {
        emit(format!("egcd 0 0 {}", c));
        st.bump("egcd_out_of_domain");
    }
    emit("lcm:i64 0 0".to_string());
    st.bump("lcm_out_of_domain");
}

fn main() {
    cli(gen, run_case);
}
