//! Correspondence harness for engine `gcd` (property C11): drives rlib_gcd::{gcd, lcm, egcd, crt}.
#[path = "../../common/mod.rs"]
mod common;
use common::*;
use rlib_gcd::{crt, egcd, gcd, lcm};

const TYPES: [&str; 12] = [
    "i8", "u8", "i16", "u16", "i32", "u32", "i64", "u64", "i128", "u128", "isize", "usize",
];

fn ty_bounds(ty: &str) -> (i128, i128) {
    match ty {
        "i8" => (i8::MIN as i128, i8::MAX as i128),
        "u8" => (0, u8::MAX as i128),
        "i16" => (i16::MIN as i128, i16::MAX as i128),
        "u16" => (0, u16::MAX as i128),
        "i32" => (i32::MIN as i128, i32::MAX as i128),
        "u32" => (0, u32::MAX as i128),
        "i64" | "isize" => (i64::MIN as i128, i64::MAX as i128),
        "u64" | "usize" => (0, u64::MAX as i128),
        "i128" => (i128::MIN, i128::MAX),
        // u128 operands are generated below 2^127 so that they parse as i128 in this harness
        "u128" => (0, i128::MAX),
        _ => unreachable!(),
    }
}

macro_rules! dispatch2 {
    ($f:ident, $ty:expr, $a:expr, $b:expr) => {
        match $ty {
            "i8" => catch(|| $f($a as i8, $b as i8).to_string()),
            "u8" => catch(|| $f($a as u8, $b as u8).to_string()),
            "i16" => catch(|| $f($a as i16, $b as i16).to_string()),
            "u16" => catch(|| $f($a as u16, $b as u16).to_string()),
            "i32" => catch(|| $f($a as i32, $b as i32).to_string()),
            "u32" => catch(|| $f($a as u32, $b as u32).to_string()),
            "i64" => catch(|| $f($a as i64, $b as i64).to_string()),
            "u64" => catch(|| $f($a as u64, $b as u64).to_string()),
            "i128" => catch(|| $f($a as i128, $b as i128).to_string()),
            "u128" => catch(|| $f($a as u128, $b as u128).to_string()),
            "isize" => catch(|| $f($a as isize, $b as isize).to_string()),
            "usize" => catch(|| $f($a as usize, $b as usize).to_string()),
            _ => Err("bad-type".to_string()),
        }
    };
}

fn unwrap_res(r: Result<String, String>) -> String {
    match r {
        Ok(s) => s,
        Err(e) => e,
    }
}

fn gcd_i128(a: i128, b: i128) -> i128 {
    let (mut a, mut b) = (a.abs(), b.abs());
    while b != 0 {
        let t = a % b;
        a = b;
        b = t;
    }
    a
}

fn run_case(line: &str) -> String {
    let toks: Vec<&str> = line.split_whitespace().collect();
    let (op, ty) = match toks[0].split_once(':') {
        Some((o, t)) => (o, t),
        None => (toks[0], ""),
    };
    let nums: Vec<i128> = toks[1..].iter().map(|t| t.parse::<i128>().unwrap()).collect();
    match op {
        "gcd" => out1(&unwrap_res(dispatch2!(gcd, ty, nums[0], nums[1]))),
        "lcm" => out1(&unwrap_res(dispatch2!(lcm, ty, nums[0], nums[1]))),
        "egcd" => {
            let (a, b, c) = (nums[0] as i64, nums[1] as i64, nums[2] as i64);
            match catch(|| egcd(a, b, c)) {
                Err(e) => out1(&e),
                Ok(None) => out1("none"),
                Ok(Some((x, y))) => {
                    let ok = a as i128 * x as i128 + b as i128 * y as i128 == c as i128;
                    out2(&format!("some {} {}", x, y), if ok { "solution" } else { "bad-solution" })
                }
            }
        }
        "crt" => {
            let (a1, m1, a2, m2) = (nums[0] as i64, nums[1] as i64, nums[2] as i64, nums[3] as i64);
            match catch(|| crt(a1, m1, a2, m2)) {
                Err(e) => out1(&e),
                Ok(None) => out1("none"),
                Ok(Some(x)) => {
                    let (a1, m1, a2, m2, x) = (a1 as i128, m1 as i128, a2 as i128, m2 as i128, x as i128);
                    let g = gcd_i128(m1, m2);
                    let l = if g == 0 { 0 } else { (m1 / g * m2).abs() };
                    let ok = 0 <= x
                        && x < l
                        && m1 != 0
                        && m2 != 0
                        && (x - a1).rem_euclid(m1.abs()) == 0
                        && (x - a2).rem_euclid(m2.abs()) == 0;
                    out2(&format!("some {}", x), if ok { "solution" } else { "bad-solution" })
                }
            }
        }
        _ => "I bad-op | V bad-op".to_string(),
    }
}

/// structured operand near a power of two / multiple of a shared factor, |v| <= lim
fn operand(rng: &mut SplitMix64, lim: i64) -> i64 {
    let v = match rng.below(8) {
        0 => 0,
        1 => 1,
        2 => lim - rng.below(3) as i64,
        3 => 1i64 << rng.below(21),
        4 => (1i64 << rng.below(21)) - 1,
        5 => {
            let f = rng.range_i64(1, 1024);
            f * rng.range_i64(0, lim / f.max(1))
        }
        _ => rng.range_i64(0, lim),
    };
    let v = v.clamp(0, lim);
    if rng.chance(1, 2) {
        -v
    } else {
        v
    }
}

fn gen(args: &Args, emit: &mut dyn FnMut(String), st: &mut Stats) {
    let thorough = args.tier == "thorough";
    let mut rng = SplitMix64::new(args.seed ^ 0xC11);
    // (1) exhaustive small scope
    let cube: i64 = if thorough { 16 } else { 12 };
    for a in -cube..=cube {
        for b in -cube..=cube {
            for c in -cube..=cube {
                emit(format!("egcd {} {} {}", a, b, c));
                st.bump("egcd_exhaustive");
            }
        }
    }
    let sq: i64 = if thorough { 80 } else { 40 };
    for a in -sq..=sq {
        for b in -sq..=sq {
            emit(format!("gcd:i64 {} {}", a, b));
            emit(format!("lcm:i64 {} {}", a, b));
            st.add("gcdlcm_exhaustive_i64", 2);
        }
    }
    let mlim: i64 = if thorough { 32 } else { 24 };
    for m1 in 1..=mlim {
        for m2 in 1..=mlim {
            for a1 in 0..m1 {
                for a2 in 0..m2 {
                    emit(format!("crt {} {} {} {}", a1, m1, a2, m2));
                    st.bump("crt_exhaustive");
                }
            }
        }
    }
    // (2) every 8-bit pair for i8/u8 (minimum of i8 excluded: outside the property's domain)
    for a in -127i64..=127 {
        for b in -127i64..=127 {
            if thorough || (a + b) % 3 == 0 {
                emit(format!("gcd:i8 {} {}", a, b));
                emit(format!("lcm:i8 {} {}", a, b));
                st.add("gcdlcm_i8", 2);
            }
        }
    }
    for a in 0i64..=255 {
        for b in 0i64..=255 {
            if thorough || (a + b) % 3 == 0 {
                emit(format!("gcd:u8 {} {}", a, b));
                emit(format!("lcm:u8 {} {}", a, b));
                st.add("gcdlcm_u8", 2);
            }
        }
    }
    // (3) boundary-biased sampling up to 2^20 (the property's box) for egcd / crt,
    //     and up to each type's range for gcd / lcm
    let n = if thorough { 2_000_000 } else { 60_000 };
    let lim = 1i64 << 20;
    for _ in 0..n {
        match rng.below(4) {
            0 => {
                let (mut a, mut b, c) = (operand(&mut rng, lim), operand(&mut rng, lim), operand(&mut rng, lim));
                // heavily non-coprime: multiply through by a shared factor sometimes
                if rng.chance(1, 3) {
                    let f = rng.range_i64(1, 64);
                    a = (a / f) * f;
                    b = (b / f) * f;
                }
                // make solvable half of the time
                let c = if rng.chance(1, 2) {
                    let g = gcd_i128(a as i128, b as i128) as i64;
                    if g != 0 { (c / g) * g } else { c }
                } else {
                    c
                };
                emit(format!("egcd {} {} {}", a, b, c));
                st.bump(if a == 0 || b == 0 { "egcd_sampled_zero_operand" } else { "egcd_sampled" });
            }
            1 => {
                let m1 = operand(&mut rng, lim).abs().max(1);
                let m2 = if rng.chance(1, 4) { m1 } else { operand(&mut rng, lim).abs().max(1) };
                let a1 = rng.range_i64(0, m1 - 1);
                let a2 = if rng.chance(1, 2) {
                    // compatible residue
                    let g = gcd_i128(m1 as i128, m2 as i128) as i64;
                    let base = a1 % g;
                    let k = rng.range_i64(0, (m2 - 1 - base).max(0) / g);
                    (base + k * g).min(m2 - 1)
                } else {
                    rng.range_i64(0, m2 - 1)
                };
                emit(format!("crt {} {} {} {}", a1, m1, a2, m2));
                st.bump("crt_sampled");
            }
            _ => {
                let ty = *rng.pick(&TYPES);
                let (lo, hi) = ty_bounds(ty);
                // stay off the minimum of signed types; limit magnitudes to 2^62 for 128-bit to keep parsing simple
                let hi = hi.min(1i128 << 100);
                let lo = if lo < 0 { (-hi).max(lo + 1) } else { 0 };
                let draw = |rng: &mut SplitMix64| -> i128 {
                    let mag: i128 = match rng.below(6) {
                        0 => 0,
                        1 => hi - rng.below(3) as i128,
                        2 => 1i128 << rng.below(100).min(126),
                        3 => rng.next_u64() as i128 % 1000,
                        4 => (rng.next_u64() as i128) << rng.below(40),
                        _ => rng.next_u64() as i128,
                    };
                    let mag = mag.clamp(0, hi);
                    if lo < 0 && rng.chance(1, 2) { -mag } else { mag }
                };
                let (mut a, mut b) = (draw(&mut rng), draw(&mut rng));
                if rng.chance(1, 3) {
                    let f = (rng.below(1 << 16) as i128).max(1);
                    a = a / f * f;
                    b = b / f * f;
                }
                let op = if rng.chance(1, 2) { "gcd" } else { "lcm" };
                emit(format!("{}:{} {} {}", op, ty, a, b));
                st.bump(&format!("{}_sampled_{}", op, ty));
            }
        }
    }
    // (3b) a small stream far outside the 2^20 box (operands up to 2^62, minimum excluded): the property does not
    //      constrain the result there (`S any`), but the checked i64 model (`egcdT`, `crtT`) mirrors overflow panics,
    //      so the raw results are still compared
    let n = if thorough { 40_000 } else { 2_000 };
    let big = |rng: &mut SplitMix64| -> i64 {
        let sh = rng.below(62);
        let v = (rng.next_u64() >> 2) as i64 >> sh;
        if rng.chance(1, 2) { -v } else { v }
    };
    for _ in 0..n {
        if rng.chance(1, 2) {
            let (mut a, mut b, c) = (big(&mut rng), big(&mut rng), big(&mut rng));
            if rng.chance(1, 3) {
                let f = rng.range_i64(1, 1 << 20);
                a = (a / f) * f;
                b = (b / f) * f;
            }
            let c = if rng.chance(1, 2) {
                let g = gcd_i128(a as i128, b as i128) as i64;
                if g != 0 { (c / g) * g } else { c }
            } else {
                c
            };
            emit(format!("egcd {} {} {}", a, b, c));
            st.bump("egcd_outside_box");
        } else {
            let m1 = big(&mut rng).abs().max(1);
            let m2 = big(&mut rng).abs().max(1);
            let a1 = rng.range_i64(0, m1 - 1);
            let a2 = if rng.chance(1, 2) {
                let g = gcd_i128(m1 as i128, m2 as i128) as i64;
                let base = a1 % g;
                let k = rng.range_i64(0, (m2 - 1 - base).max(0) / g);
                ((base as i128 + k as i128 * g as i128).min(m2 as i128 - 1)) as i64
            } else {
                rng.range_i64(0, m2 - 1)
            };
            emit(format!("crt {} {} {} {}", a1, m1, a2, m2));
            st.bump("crt_outside_box");
        }
    }
    // (4) out-of-domain probes whose behaviour the model mirrors (panics), a separate small stream
    for c in -2..=2 {
        emit(format!("egcd 0 0 {}", c));
        st.bump("egcd_out_of_domain");
    }
    emit("lcm:i64 0 0".to_string());
    st.bump("lcm_out_of_domain");
}

fn main() {
    cli(gen, run_case);
}
