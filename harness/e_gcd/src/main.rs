//! Correspondence harness for engine `gcd` (property C11): drives rlib_gcd::{gcd, lcm, egcd, crt}.
#[path = "../../common/mod.rs"]
mod common;
use common::*;
use rlib_gcd::{crt, egcd, gcd, lcm};

const TYPES: [&str; 12] = [
    "i8", "u8", "i16", "u16", "i32", "u32", "i64", "u64", "i128", "u128", "isize", "usize",
];

/// (is signed, largest magnitude generated) — for signed types the minimum is excluded, as the property says
fn ty_info(ty: &str) -> (bool, u128) {
    match ty {
        "i8" => (true, i8::MAX as u128),
        "u8" => (false, u8::MAX as u128),
        "i16" => (true, i16::MAX as u128),
        "u16" => (false, u16::MAX as u128),
        "i32" => (true, i32::MAX as u128),
        "u32" => (false, u32::MAX as u128),
        "i64" | "isize" => (true, i64::MAX as u128),
        "u64" | "usize" => (false, u64::MAX as u128),
        "i128" => (true, i128::MAX as u128),
        "u128" => (false, u128::MAX),
        _ => unreachable!(),
    }
}
fn ty_bits(ty: &str) -> u32 {
    match ty {
        "i8" | "u8" => 8,
        "i16" | "u16" => 16,
        "i32" | "u32" => 32,
        "i128" | "u128" => 128,
        _ => 64,
    }
}

/// Operands travel as decimal strings and are parsed by the type under test itself, so every value of every
/// type (u128 above 2^127 included) can be expressed.
macro_rules! dispatch2 {
    ($f:ident, $ty:expr, $a:expr, $b:expr) => {{
        macro_rules! go {
            ($t:ty) => {
                match ($a.parse::<$t>(), $b.parse::<$t>()) {
                    (Ok(x), Ok(y)) => catch(|| $f(x, y).to_string()),
                    _ => Ok("INVALID".to_string()),
                }
            };
        }
        match $ty {
            "i8" => go!(i8),
            "u8" => go!(u8),
            "i16" => go!(i16),
            "u16" => go!(u16),
            "i32" => go!(i32),
            "u32" => go!(u32),
            "i64" => go!(i64),
            "u64" => go!(u64),
            "i128" => go!(i128),
            "u128" => go!(u128),
            "isize" => go!(isize),
            "usize" => go!(usize),
            _ => Err("bad-type".to_string()),
        }
    }};
}

/// magnitude of a decimal token (sign dropped); None if it does not fit u128
fn magnitude_of(tok: &str) -> Option<u128> {
    tok.trim_start_matches('-').parse::<u128>().ok()
}
fn gcd_u128(mut a: u128, mut b: u128) -> u128 {
    while b != 0 {
        let t = a % b;
        a = b;
        b = t;
    }
    a
}
/// Independent oracle for gcd / lcm inside the property's domain (operands representable, not the signed minimum,
/// result representable, not both zero for lcm): brute arithmetic on u128 magnitudes.
fn gcdlcm_oracle(op: &str, ty: &str, a: &str, b: &str) -> Option<String> {
    let (_, hi) = ty_info(ty);
    let (ma, mb) = (magnitude_of(a)?, magnitude_of(b)?);
    if ma > hi || mb > hi {
        return None;
    }
    let g = gcd_u128(ma, mb);
    if op == "gcd" {
        return Some(g.to_string());
    }
    if g == 0 {
        return None;
    }
    let l = (ma / g).checked_mul(mb)?;
    if l > hi {
        return None;
    }
    Some(l.to_string())
}

fn unwrap_res(r: Result<String, String>) -> String {
    match r {
        Ok(s) => s,
        Err(e) => e,
    }
}

fn gcd_i128(a: i128, b: i128) -> i128 {
    let (mut a, mut b) = (a.abs(), b.abs());
    while b != 0 {
        let t = a % b;
        a = b;
        b = t;
    }
    a
}

const SIGNED: [&str; 6] = ["i8", "i16", "i32", "i64", "i128", "isize"];

/// sign and 256-bit magnitude of a product of two i128 (little-endian 64-bit limbs): the check a*x + b*y = c must be exact
/// for the i128 instantiation too, where the products do not fit any primitive type
#[derive(Clone, Copy, PartialEq, Eq, Debug)]
struct Wide {
    neg: bool,
    mag: [u64; 4],
}
fn wide_mul(a: i128, b: i128) -> Wide {
    let (ua, ub) = (a.unsigned_abs(), b.unsigned_abs());
    let al = [ua as u64, (ua >> 64) as u64];
    let bl = [ub as u64, (ub >> 64) as u64];
    let mut mag = [0u64; 4];
    for i in 0..2 {
        let mut carry: u128 = 0;
        for j in 0..2 {
            let cur = mag[i + j] as u128 + al[i] as u128 * bl[j] as u128 + carry;
            mag[i + j] = cur as u64;
            carry = cur >> 64;
        }
        mag[i + 2] = (mag[i + 2] as u128 + carry) as u64;
    }
    Wide { neg: (a < 0) != (b < 0) && mag != [0; 4], mag }
}
fn mag_cmp(a: &[u64; 4], b: &[u64; 4]) -> std::cmp::Ordering {
    for i in (0..4).rev() {
        if a[i] != b[i] {
            return a[i].cmp(&b[i]);
        }
    }
    std::cmp::Ordering::Equal
}
fn wide_add(a: Wide, b: Wide) -> Wide {
    if a.neg == b.neg {
        let mut mag = [0u64; 4];
        let mut carry = 0u128;
        for i in 0..4 {
            let cur = a.mag[i] as u128 + b.mag[i] as u128 + carry;
            mag[i] = cur as u64;
            carry = cur >> 64;
        }
        return Wide { neg: a.neg, mag };
    }
    // opposite signs: larger magnitude minus smaller
    let (big, small) = if mag_cmp(&a.mag, &b.mag) == std::cmp::Ordering::Less { (b, a) } else { (a, b) };
    let mut mag = [0u64; 4];
    let mut borrow = 0i128;
    for i in 0..4 {
        let mut cur = big.mag[i] as i128 - small.mag[i] as i128 - borrow;
        borrow = 0;
        if cur < 0 {
            cur += 1i128 << 64;
            borrow = 1;
        }
        mag[i] = cur as u64;
    }
    Wide { neg: big.neg && mag != [0; 4], mag }
}
/// a*x + b*y == c, exactly
fn solves(a: i128, b: i128, c: i128, x: i128, y: i128) -> bool {
    wide_add(wide_mul(a, x), wide_mul(b, y)) == wide_mul(c, 1)
}

trait Num: rlib_num_traits::Integer + Copy + std::fmt::Display + TryFrom<i128> + Into<i128> {}
impl<T: rlib_num_traits::Integer + Copy + std::fmt::Display + TryFrom<i128> + Into<i128>> Num for T {}

fn conv<T: TryFrom<i128>>(v: &[i128]) -> Option<Vec<T>> {
    v.iter().map(|z| T::try_from(*z).ok()).collect()
}
fn run_egcd<T: Num>(v: &[i128]) -> String {
    let t: Vec<T> = match conv(v) {
        Some(t) => t,
        None => return out1("INVALID"),
    };
    match catch(|| egcd(t[0], t[1], t[2])) {
        Err(e) => out1(&e),
        Ok(None) => out1("none"),
        Ok(Some((x, y))) => {
            let ok = solves(v[0], v[1], v[2], x.into(), y.into());
            out2(&format!("some {} {}", x, y), if ok { "solution" } else { "bad-solution" })
        }
    }
}
fn run_crt<T: Num + std::ops::Neg<Output = T>>(v: &[i128]) -> String {
    let t: Vec<T> = match conv(v) {
        Some(t) => t,
        None => return out1("INVALID"),
    };
    match catch(|| crt(t[0], t[1], t[2], t[3])) {
        Err(e) => out1(&e),
        Ok(None) => out1("none"),
        Ok(Some(x)) => {
            let (a1, m1, a2, m2, x): (i128, i128, i128, i128, i128) = (v[0], v[1], v[2], v[3], x.into());
            let ok = m1 > 0 && m2 > 0 && 0 <= x && {
                let g = gcd_i128(m1, m2);
                // x < lcm (an lcm beyond i128 is larger than any x)
                (m1 / g).checked_mul(m2).map_or(true, |l| x < l)
            } && x.checked_sub(a1).map_or(false, |d| d.rem_euclid(m1) == 0)
                && x.checked_sub(a2).map_or(false, |d| d.rem_euclid(m2) == 0);
            out2(&format!("some {}", x), if ok { "solution" } else { "bad-solution" })
        }
    }
}
// `Into<i128>` is not implemented for isize: it gets its own two runners below
fn run_typed(op: &str, ty: &str, v: &[i128]) -> String {
    match (op, ty) {
        ("egcd", "i8") => run_egcd::<i8>(v),
        ("egcd", "i16") => run_egcd::<i16>(v),
        ("egcd", "i32") => run_egcd::<i32>(v),
        ("egcd", "i64") => run_egcd::<i64>(v),
        ("egcd", "i128") => run_egcd::<i128>(v),
        ("egcd", "isize") => run_egcd_isize(v),
        ("crt", "i8") => run_crt::<i8>(v),
        ("crt", "i16") => run_crt::<i16>(v),
        ("crt", "i32") => run_crt::<i32>(v),
        ("crt", "i64") => run_crt::<i64>(v),
        ("crt", "i128") => run_crt::<i128>(v),
        ("crt", "isize") => run_crt_isize(v),
        _ => out1("INVALID"),
    }
}
fn run_egcd_isize(v: &[i128]) -> String {
    let t: Vec<isize> = match conv(v) {
        Some(t) => t,
        None => return out1("INVALID"),
    };
    match catch(|| egcd(t[0], t[1], t[2])) {
        Err(e) => out1(&e),
        Ok(None) => out1("none"),
        Ok(Some((x, y))) => {
            let ok = solves(v[0], v[1], v[2], x as i128, y as i128);
            out2(&format!("some {} {}", x, y), if ok { "solution" } else { "bad-solution" })
        }
    }
}
fn run_crt_isize(v: &[i128]) -> String {
    let t: Vec<isize> = match conv(v) {
        Some(t) => t,
        None => return out1("INVALID"),
    };
    match catch(|| crt(t[0], t[1], t[2], t[3])) {
        Err(e) => out1(&e),
        Ok(None) => out1("none"),
        Ok(Some(x)) => {
            let (a1, m1, a2, m2, x): (i128, i128, i128, i128, i128) = (v[0], v[1], v[2], v[3], x as i128);
            let ok = m1 > 0 && m2 > 0 && 0 <= x && {
                let g = gcd_i128(m1, m2);
                (m1 / g).checked_mul(m2).map_or(true, |l| x < l)
            } && (x - a1).rem_euclid(m1) == 0
                && (x - a2).rem_euclid(m2) == 0;
            out2(&format!("some {}", x), if ok { "solution" } else { "bad-solution" })
        }
    }
}

fn run_case(line: &str) -> String {
    let toks: Vec<&str> = line.split_whitespace().collect();
    let (op, ty) = match toks[0].split_once(':') {
        Some((o, t)) => (o, t),
        None => (toks[0], ""),
    };
    if op == "gcd" || op == "lcm" {
        if toks.len() != 3 || !TYPES.contains(&ty) {
            return out1("INVALID");
        }
        let raw = if op == "gcd" {
            unwrap_res(dispatch2!(gcd, ty, toks[1], toks[2]))
        } else {
            unwrap_res(dispatch2!(lcm, ty, toks[1], toks[2]))
        };
        if let Some(exp) = gcdlcm_oracle(op, ty, toks[1], toks[2]) {
            if raw != "INVALID" && raw != exp {
                return out2(&raw, &format!("{}_oracle-expects_{}", raw, exp));
            }
        }
        return out1(&raw);
    }
    if (op == "egcd" || op == "crt") && !ty.is_empty() {
        let mut v: Vec<i128> = Vec::new();
        for t in &toks[1..] {
            match t.parse::<i128>() {
                Ok(z) => v.push(z),
                Err(_) => return out1("INVALID"),
            }
        }
        if !SIGNED.contains(&ty) || v.len() != if op == "egcd" { 3 } else { 4 } {
            return out1("INVALID");
        }
        return run_typed(op, ty, &v);
    }
    let mut nums: Vec<i128> = Vec::new();
    for t in &toks[1..] {
        match t.parse::<i64>() {
            Ok(z) => nums.push(z as i128),
            Err(_) => return out1("INVALID"),
        }
    }
    match op {
        "egcd" if nums.len() == 3 => {
            let (a, b, c) = (nums[0] as i64, nums[1] as i64, nums[2] as i64);
            match catch(|| egcd(a, b, c)) {
                Err(e) => out1(&e),
                Ok(None) => out1("none"),
                Ok(Some((x, y))) => {
                    let ok = a as i128 * x as i128 + b as i128 * y as i128 == c as i128;
                    out2(&format!("some {} {}", x, y), if ok { "solution" } else { "bad-solution" })
                }
            }
        }
        "crt" if nums.len() == 4 => {
            let (a1, m1, a2, m2) = (nums[0] as i64, nums[1] as i64, nums[2] as i64, nums[3] as i64);
            match catch(|| crt(a1, m1, a2, m2)) {
                Err(e) => out1(&e),
                Ok(None) => out1("none"),
                Ok(Some(x)) => {
                    let (a1, m1, a2, m2, x) = (a1 as i128, m1 as i128, a2 as i128, m2 as i128, x as i128);
                    let g = gcd_i128(m1, m2);
                    let l = if g == 0 { 0 } else { (m1 / g * m2).abs() };
                    let ok = 0 <= x
                        && x < l
                        && m1 != 0
                        && m2 != 0
                        && (x - a1).rem_euclid(m1.abs()) == 0
                        && (x - a2).rem_euclid(m2.abs()) == 0;
                    out2(&format!("some {}", x), if ok { "solution" } else { "bad-solution" })
                }
            }
        }
        _ => "I bad-op | V bad-op".to_string(),
    }
}

/// structured operand near a power of two / multiple of a shared factor, |v| <= lim
fn operand(rng: &mut SplitMix64, lim: i64) -> i64 {
    let v = match rng.below(8) {
        0 => 0,
        1 => 1,
        2 => lim - rng.below(3) as i64,
        3 => 1i64 << rng.below(21),
        4 => (1i64 << rng.below(21)) - 1,
        5 => {
            let f = rng.range_i64(1, 1024);
            f * rng.range_i64(0, lim / f.max(1))
        }
        _ => rng.range_i64(0, lim),
    };
    let v = v.clamp(0, lim);
    if rng.chance(1, 2) {
        -v
    } else {
        v
    }
}

fn rand_u128(rng: &mut SplitMix64) -> u128 {
    ((rng.next_u64() as u128) << 64) | rng.next_u64() as u128
}
/// uniform-ish in [lo, hi]
fn range_u128(rng: &mut SplitMix64, lo: u128, hi: u128) -> u128 {
    if hi <= lo {
        return lo;
    }
    let span = hi - lo;
    if span == u128::MAX {
        return rand_u128(rng);
    }
    lo + rand_u128(rng) % (span + 1)
}
fn show_signed(neg: bool, mag: u128) -> String {
    if neg && mag != 0 {
        format!("-{}", mag)
    } else {
        mag.to_string()
    }
}
fn isqrt(n: u128) -> u128 {
    if n < 2 {
        return n;
    }
    let mut x = (n as f64).sqrt() as u128;
    while x.checked_mul(x).map_or(true, |v| v > n) {
        x -= 1;
    }
    while (x + 1).checked_mul(x + 1).map_or(false, |v| v <= n) {
        x += 1;
    }
    x
}

/// One sampled gcd / lcm case over the WHOLE range of `ty` (signed minimum excluded). Families:
///  * boundary  — 0, MAX-{0,1,2}, powers of two, small, wide random, shared 16-bit factor;
///  * upper_half (unsigned types) — at least one operand >= 2^(bits-1): MAX, MAX-1, 2^(bits-1)(+small), the largest
///    multiple of a small odd number, random upper-half values, against small / equal / upper-half partners
///    (an `abs` routed through the signed type, or a sign-extending cast, shows up only here);
///  * lcm_adjacent — a = p*f, b = q*f with p*q*f <= MAX < (p*f)*(q*f): the lcm is representable but the product of
///    the operands is not (an lcm that multiplies before dividing overflows exactly here).
fn gcdlcm_sample(rng: &mut SplitMix64, ty: &str, emit: &mut dyn FnMut(String), st: &mut Stats) {
    let (signed, hi) = ty_info(ty);
    let bits = ty_bits(ty);
    let family = rng.below(if signed { 6 } else { 8 });
    let (ma, mb, fam): (u128, u128, &str) = if family >= 6 {
        // upper half of an unsigned type
        let half = 1u128 << (bits - 1);
        let up = |rng: &mut SplitMix64| -> u128 {
            match rng.below(6) {
                0 => hi,
                1 => hi - 1 - rng.below(3) as u128,
                2 => half + rng.below(4) as u128,
                3 => {
                    let k = [3u128, 5, 7, 15, 17, 255, 257, 65537][rng.below(8) as usize];
                    let v = hi - hi % k;
                    if v >= half { v } else { hi }
                }
                _ => range_u128(rng, half, hi),
            }
        };
        let a = up(rng);
        let b = match rng.below(5) {
            0 => [0u128, 1, 2, 3, 5, 17, 255, 257][rng.below(8) as usize].min(hi),
            1 => a,
            2 => up(rng),
            3 => a / [2u128, 3, 5, 7][rng.below(4) as usize],
            _ => range_u128(rng, 0, hi),
        };
        if rng.chance(1, 2) { (a, b, "upper_half") } else { (b, a, "upper_half") }
    } else if family >= 4 {
        // lcm representable, product of the operands not
        let p = rng.range_i64(1, 15) as u128;
        let q = rng.range_i64(1, 15) as u128;
        let top = hi / (p * q); // largest f with p*q*f <= hi
        let low = isqrt(hi / (p * q)) + 1; // smallest f with p*q*f*f > hi
        if top >= low && top >= 1 {
            let f = match rng.below(3) {
                0 => top - rng.below(3).min((top - low) as u64) as u128,
                1 => low + rng.below(3).min((top - low) as u64) as u128,
                _ => range_u128(rng, low, top),
            };
            (p * f, q * f, "lcm_adjacent")
        } else {
            (hi, hi, "lcm_adjacent")
        }
    } else {
        let draw = |rng: &mut SplitMix64| -> u128 {
            let mag: u128 = match rng.below(7) {
                0 => 0,
                1 => hi - rng.below(3) as u128,
                2 => 1u128 << rng.below(bits as u64),
                3 => (rng.next_u64() % 1000) as u128,
                4 => (rng.next_u64() as u128) << rng.below(64),
                5 => rand_u128(rng) >> rng.below(128),
                _ => rng.next_u64() as u128,
            };
            mag.min(hi)
        };
        let (mut a, mut b) = (draw(rng), draw(rng));
        if rng.chance(1, 3) {
            let f = (rng.below(1 << 16) as u128).max(1);
            a = a / f * f;
            b = b / f * f;
        }
        (a, b, "boundary")
    };
    let (na, nb) = (signed && rng.chance(1, 2), signed && rng.chance(1, 2));
    let op = if fam == "lcm_adjacent" {
        if rng.chance(4, 5) { "lcm" } else { "gcd" }
    } else if rng.chance(1, 2) {
        "gcd"
    } else {
        "lcm"
    };
    emit(format!("{}:{} {} {}", op, ty, show_signed(na, ma), show_signed(nb, mb)));
    st.bump(&format!("{}_sampled_{}", op, ty));
    st.bump(&format!("gcdlcm_family_{}", fam));
    // what the case actually exercises (measured, not assumed)
    if !signed && (ma >> (bits - 1) != 0 || mb >> (bits - 1) != 0) {
        st.bump(&format!("operand_in_upper_half_{}", ty));
    }
    if bits == 128 && (ma >> 100 != 0 || mb >> 100 != 0) {
        st.bump(&format!("operand_above_2^100_{}", ty));
    }
    if op == "lcm" && ma != 0 && mb != 0 {
        let g = gcd_u128(ma, mb);
        let fits = (ma / g).checked_mul(mb).map_or(false, |l| l <= hi);
        let prod_overflows = ma.checked_mul(mb).map_or(true, |v| v > hi);
        if fits && prod_overflows {
            st.bump(&format!("lcm_fits_but_product_overflows_{}", ty));
        }
    }
}

fn smax(ty: &str) -> i128 {
    ty_info(ty).1 as i128
}
fn wide_le(a: Wide, b: Wide) -> bool {
    // both non-negative here
    mag_cmp(&a.mag, &b.mag) != std::cmp::Ordering::Greater
}
/// the property's domain for `egcd::<ty>` as the harness computes it on its own (used for the generator statistics only;
/// the verdict uses the driver's `domEgcd`): |operands| <= MAX, not both zero, (|c|/g)*max(|a|,|b|) <= g*MAX when g | c
fn dom_egcd(ty: &str, a: i128, b: i128, c: i128) -> bool {
    let m = smax(ty);
    if [a, b, c].iter().any(|z| *z == i128::MIN || z.abs() > m) || (a == 0 && b == 0) {
        return false;
    }
    let g = gcd_i128(a, b);
    if c.abs() % g != 0 {
        return true;
    }
    wide_le(wide_mul(c.abs() / g, a.abs().max(b.abs())), wide_mul(g, m))
}
fn dom_crt(ty: &str, a1: i128, m1: i128, a2: i128, m2: i128) -> bool {
    let m = smax(ty);
    if !(1 <= m1 && m1 <= m && 1 <= m2 && m2 <= m && 0 <= a1 && a1 < m1 && 0 <= a2 && a2 < m2) {
        return false;
    }
    let g = gcd_i128(m1, m2);
    let d = (a2 - a1).abs();
    if d % g != 0 {
        return true;
    }
    wide_le(wide_mul(d / g, m1.max(m2)), wide_mul(g, m))
        && (m2 / g).checked_mul(2).map_or(false, |v| v <= m)
        && (m1 / g).checked_mul(m2).map_or(false, |l| l <= m)
}
fn rand_i(rng: &mut SplitMix64, lo: i128, hi: i128) -> i128 {
    if hi <= lo {
        return lo;
    }
    lo + range_u128(rng, 0, (hi - lo) as u128) as i128
}
/// magnitude in [1, lim], every size class equally likely
fn log_uniform(rng: &mut SplitMix64, lim: i128) -> i128 {
    let bits = 128 - (lim.max(1) as u128).leading_zeros() as u64;
    let hi = ((1u128 << (rng.below(bits) + 1)) - 1).min(lim.max(1) as u128) as i128;
    rand_i(rng, (hi / 2).max(1), hi)
}
fn sgn(rng: &mut SplitMix64, v: i128) -> i128 {
    if rng.chance(1, 2) { -v } else { v }
}
fn isqrt_i(n: i128) -> i128 {
    isqrt(n.max(0) as u128) as i128
}
fn icbrt(n: i128) -> i128 {
    let mut x = (n as f64).cbrt() as i128;
    while x > 0 && x.checked_mul(x).and_then(|v| v.checked_mul(x)).map_or(true, |v| v > n) {
        x -= 1;
    }
    x.max(1)
}
/// a residue pair for (m1, m2): compatible by construction half of the time, extreme differences preferred
fn residues(rng: &mut SplitMix64, m1: i128, m2: i128) -> (i128, i128) {
    let a1 = match rng.below(4) {
        0 => 0,
        1 => m1 - 1,
        _ => rand_i(rng, 0, m1 - 1),
    };
    let a2 = if rng.chance(1, 2) {
        let g = gcd_i128(m1, m2);
        let base = a1 % g;
        let kmax = (m2 - 1 - base).max(0) / g;
        let k = match rng.below(3) {
            0 => 0,
            1 => kmax,
            _ => rand_i(rng, 0, kmax),
        };
        (base + k * g).min(m2 - 1)
    } else {
        match rng.below(3) {
            0 => 0,
            1 => m2 - 1,
            _ => rand_i(rng, 0, m2 - 1),
        }
    };
    (a1, a2)
}
/// One `egcd:ty` / `crt:ty` case at the overflow threshold of a signed type: the bound of the coefficients
/// (|c|/g)*max(|a|,|b|)/g, the lcm, 2*(m2/g) land just inside and just outside MAX; moduli between the cube root and the
/// square root of MAX (where a product of the un-reduced solver output by a modulus would leave the type) are a family of their own.
fn typed_edge_case(rng: &mut SplitMix64, ty: &str, st: &mut Stats) -> String {
    let m = smax(ty);
    if rng.chance(2, 5) {
        // ---- egcd
        let g = if rng.chance(1, 2) { 1 } else { 1 + rng.below(6) as i128 };
        let big = log_uniform(rng, m / g).max(1);
        let small = match rng.below(3) {
            0 => rand_i(rng, 0, big),
            1 => (big - 1 - rng.below(3) as i128).max(0),
            _ => log_uniform(rng, big),
        };
        let (a, b) = if rng.chance(1, 2) { (big * g, small * g) } else { (small * g, big * g) };
        let gg = gcd_i128(a, b).max(1);
        let mx = a.abs().max(b.abs()).max(1);
        // largest K with K*mx <= gg*MAX, capped by |c| = gg*K <= MAX
        let kmax = {
            let by_bound = if gg >= mx { m } else { ((m / mx) * gg).saturating_add((m % mx).checked_mul(gg).map_or(0, |v| v / mx)).min(m) };
            by_bound.min(m / gg)
        };
        let k = match rng.below(5) {
            0 => kmax,
            1 => (kmax - rng.below(3) as i128).max(0),
            2 => kmax.saturating_add(1 + rng.below(2) as i128).min(m / gg),
            3 => rand_i(rng, 0, kmax),
            _ => log_uniform(rng, kmax.max(1)),
        };
        let mut c = gg * k;
        if rng.chance(1, 6) {
            c = c.saturating_add(1).min(m); // usually not divisible: no solution
        }
        let (a, b, c) = (sgn(rng, a), sgn(rng, b), sgn(rng, c));
        let line = format!("egcd:{} {} {} {}", ty, a, b, c);
        st.bump(&format!("egcd_edge_{}_{}", if dom_egcd(ty, a, b, c) { "in_domain" } else { "outside_domain" }, ty));
        if dom_egcd(ty, a, b, c) && c % gg == 0 && wide_le(wide_mul(gg, m / 2), wide_mul(c.abs() / gg, mx)) {
            st.bump(&format!("egcd_edge_bound_in_top_bit_{}", ty));
        }
        return line;
    }
    // ---- crt
    let (m1, m2, fam): (i128, i128, &str) = match rng.below(5) {
        0 | 1 => {
            // between the cube root and sqrt(MAX/2): m1*m2 fits with room, m1*m2*max(m1,m2) does not
            let lo = icbrt(m).max(2);
            let hi = isqrt_i(m / 2).max(lo);
            (rand_i(rng, lo, hi), rand_i(rng, lo, hi), "cube_to_sqrt")
        }
        2 => {
            // around sqrt(MAX): the lcm itself at the threshold
            let r = isqrt_i(m).max(2);
            (rand_i(rng, r / 2, r + r / 2).max(1), rand_i(rng, r / 2, r + r / 2).max(1), "around_sqrt")
        }
        3 => {
            // one small modulus, the other near MAX/2 or MAX/m1
            let m1 = 1 + rng.below(16) as i128;
            let top = match rng.below(3) {
                0 => m / 2,
                1 => m / m1,
                _ => m,
            };
            let m2 = (top.saturating_add(1) - rng.below(4) as i128).clamp(1, m);
            if rng.chance(1, 2) { (m1, m2, "skewed") } else { (m2, m1, "skewed") }
        }
        _ => {
            // a large shared factor: lcm = g*p*q at the threshold
            let p = 1 + rng.below(12) as i128;
            let q = 1 + rng.below(12) as i128;
            let gtop = (m / (p * q)).max(1);
            let g = match rng.below(3) {
                0 => gtop - (rng.below(3) as i128).min(gtop - 1),
                1 => gtop.saturating_add(1 + rng.below(2) as i128).min(m / p.max(q)),
                _ => rand_i(rng, 1, gtop),
            };
            ((g * p).clamp(1, m), (g * q).clamp(1, m), "shared_factor")
        }
    };
    let (a1, a2) = residues(rng, m1, m2);
    let ind = dom_crt(ty, a1, m1, a2, m2);
    st.bump(&format!("crt_edge_{}_{}", if ind { "in_domain" } else { "outside_domain" }, ty));
    st.bump(&format!("crt_edge_family_{}", fam));
    if ind && (a2 - a1) % gcd_i128(m1, m2) == 0 {
        st.bump(&format!("crt_edge_in_domain_solvable_{}", ty));
        if m1.checked_mul(m2).and_then(|v| v.checked_mul(m1.max(m2))).map_or(true, |v| v > m) {
            // a solver output multiplied by a modulus BEFORE its reduction modulo m2/g would not fit
            st.bump(&format!("crt_in_domain_but_m1*m2*max_overflows_{}", ty));
        }
    }
    format!("crt:{} {} {} {} {}", ty, a1, m1, a2, m2)
}

fn gen(args: &Args, emit: &mut dyn FnMut(String), st: &mut Stats) {
    let thorough = args.tier == "thorough";
    // the debug profile (debug-assertions on) re-runs a reduced stream of the same families
    let lite = args.extra.get("profile").map_or(false, |p| p == "debug");
    let mut rng = SplitMix64::new(args.seed ^ 0xC11);
    // (0) egcd / crt at every signed instantiation: small scope, the whole neighbourhood of the i8 threshold, and the
    //     overflow threshold of each type
    for ty in SIGNED {
        let k: i128 = if lite { 3 } else if thorough { 8 } else { 5 };
        for a in -k..=k {
            for b in -k..=k {
                for c in -k..=k {
                    emit(format!("egcd:{} {} {} {}", ty, a, b, c));
                    st.bump(&format!("egcd_small_scope_{}", ty));
                }
            }
        }
        let ml: i128 = if lite { 6 } else if thorough { 16 } else { 10 };
        for m1 in 1..=ml {
            for m2 in 1..=ml {
                for a1 in 0..m1 {
                    for a2 in 0..m2 {
                        emit(format!("crt:{} {} {} {} {}", ty, a1, m1, a2, m2));
                        st.bump(&format!("crt_small_scope_{}", ty));
                    }
                }
            }
        }
    }
    {
        // i8: uniformly over the whole type for egcd; for crt every pair of moduli whose lcm is near or below 127
        let n = if lite { 4_000 } else if thorough { 1_000_000 } else { 16_000 };
        for _ in 0..n {
            let (a, b, c) = (rand_i(&mut rng, -127, 127), rand_i(&mut rng, -127, 127), rand_i(&mut rng, -127, 127));
            let c = if rng.chance(1, 2) { let g = gcd_i128(a, b); if g != 0 { c / g * g } else { c } } else { c };
            st.bump(if dom_egcd("i8", a, b, c) { "egcd_i8_whole_type_in_domain" } else { "egcd_i8_whole_type_outside_domain" });
            emit(format!("egcd:i8 {} {} {}", a, b, c));
        }
        let keep: u64 = if lite { 300 } else if thorough { 4 } else { 60 };
        for m1 in 1..=127i128 {
            for m2 in 1..=127i128 {
                let l = m1 / gcd_i128(m1, m2) * m2;
                if l > 170 {
                    continue;
                }
                for a1 in 0..m1 {
                    for a2 in 0..m2 {
                        if rng.below(keep) != 0 {
                            continue;
                        }
                        st.bump(if dom_crt("i8", a1, m1, a2, m2) { "crt_i8_threshold_in_domain" } else { "crt_i8_threshold_outside_domain" });
                        emit(format!("crt:i8 {} {} {} {}", a1, m1, a2, m2));
                    }
                }
            }
        }
    }
    let n = if lite { 6_000 } else if thorough { 900_000 } else { 36_000 };
    for i in 0..n {
        let ty = SIGNED[(i % 6) as usize];
        let line = typed_edge_case(&mut rng, ty, st);
        emit(line);
    }
    if lite {
        // the untyped / gcd / lcm families below: a reduced pass
        for _ in 0..6_000 {
            let ty = *rng.pick(&TYPES);
            gcdlcm_sample(&mut rng, ty, emit, st);
        }
        for c in -2..=2 {
            emit(format!("egcd 0 0 {}", c));
        }
        emit("lcm:i64 0 0".to_string());
        return;
    }
    // (1) exhaustive small scope
    let cube: i64 = if thorough { 16 } else { 12 };
    for a in -cube..=cube {
        for b in -cube..=cube {
            for c in -cube..=cube {
                emit(format!("egcd {} {} {}", a, b, c));
                st.bump("egcd_exhaustive");
            }
        }
    }
    let sq: i64 = if thorough { 80 } else { 40 };
    for a in -sq..=sq {
        for b in -sq..=sq {
            emit(format!("gcd:i64 {} {}", a, b));
            emit(format!("lcm:i64 {} {}", a, b));
            st.add("gcdlcm_exhaustive_i64", 2);
        }
    }
    let mlim: i64 = if thorough { 32 } else { 24 };
    for m1 in 1..=mlim {
        for m2 in 1..=mlim {
            for a1 in 0..m1 {
                for a2 in 0..m2 {
                    emit(format!("crt {} {} {} {}", a1, m1, a2, m2));
                    st.bump("crt_exhaustive");
                }
            }
        }
    }
    // (2) every 8-bit pair for i8/u8 (minimum of i8 excluded: outside the property's domain)
    for a in -127i64..=127 {
        for b in -127i64..=127 {
            if thorough || (a + b) % 3 == 0 {
                emit(format!("gcd:i8 {} {}", a, b));
                emit(format!("lcm:i8 {} {}", a, b));
                st.add("gcdlcm_i8", 2);
            }
        }
    }
    for a in 0i64..=255 {
        for b in 0i64..=255 {
            if thorough || (a + b) % 3 == 0 {
                emit(format!("gcd:u8 {} {}", a, b));
                emit(format!("lcm:u8 {} {}", a, b));
                st.add("gcdlcm_u8", 2);
            }
        }
    }
    // (3) boundary-biased sampling up to 2^20 (the property's box) for egcd / crt,
    //     and up to each type's range for gcd / lcm
    let n = if thorough { 2_000_000 } else { 60_000 };
    let lim = 1i64 << 20;
    for _ in 0..n {
        match rng.below(4) {
            0 => {
                let (mut a, mut b, c) = (operand(&mut rng, lim), operand(&mut rng, lim), operand(&mut rng, lim));
                // heavily non-coprime: multiply through by a shared factor sometimes
                if rng.chance(1, 3) {
                    let f = rng.range_i64(1, 64);
                    a = (a / f) * f;
                    b = (b / f) * f;
                }
                // make solvable half of the time
                let c = if rng.chance(1, 2) {
                    let g = gcd_i128(a as i128, b as i128) as i64;
                    if g != 0 { (c / g) * g } else { c }
                } else {
                    c
                };
                emit(format!("egcd {} {} {}", a, b, c));
                st.bump(if a == 0 || b == 0 { "egcd_sampled_zero_operand" } else { "egcd_sampled" });
            }
            1 => {
                let m1 = operand(&mut rng, lim).abs().max(1);
                let m2 = if rng.chance(1, 4) { m1 } else { operand(&mut rng, lim).abs().max(1) };
                let a1 = rng.range_i64(0, m1 - 1);
                let a2 = if rng.chance(1, 2) {
                    // compatible residue
                    let g = gcd_i128(m1 as i128, m2 as i128) as i64;
                    let base = a1 % g;
                    let k = rng.range_i64(0, (m2 - 1 - base).max(0) / g);
                    (base + k * g).min(m2 - 1)
                } else {
                    rng.range_i64(0, m2 - 1)
                };
                emit(format!("crt {} {} {} {}", a1, m1, a2, m2));
                st.bump("crt_sampled");
            }
            _ => {
                let ty = *rng.pick(&TYPES);
                gcdlcm_sample(&mut rng, ty, emit, st);
            }
        }
    }
    // (3b) a small stream far outside the 2^20 box (operands up to 2^62, minimum excluded): the property does not
    //      constrain the result there (`S any`), but the checked i64 model (`egcdT`, `crtT`) mirrors overflow panics,
    //      so the raw results are still compared
    let n = if thorough { 40_000 } else { 2_000 };
    let big = |rng: &mut SplitMix64| -> i64 {
        let sh = rng.below(62);
        let v = (rng.next_u64() >> 2) as i64 >> sh;
        if rng.chance(1, 2) { -v } else { v }
    };
    for _ in 0..n {
        if rng.chance(1, 2) {
            let (mut a, mut b, c) = (big(&mut rng), big(&mut rng), big(&mut rng));
            if rng.chance(1, 3) {
                let f = rng.range_i64(1, 1 << 20);
                a = (a / f) * f;
                b = (b / f) * f;
            }
            let c = if rng.chance(1, 2) {
                let g = gcd_i128(a as i128, b as i128) as i64;
                if g != 0 { (c / g) * g } else { c }
            } else {
                c
            };
            emit(format!("egcd {} {} {}", a, b, c));
            st.bump("egcd_outside_box");
        } else {
            let m1 = big(&mut rng).abs().max(1);
            let m2 = big(&mut rng).abs().max(1);
            let a1 = rng.range_i64(0, m1 - 1);
            let a2 = if rng.chance(1, 2) {
                let g = gcd_i128(m1 as i128, m2 as i128) as i64;
                let base = a1 % g;
                let k = rng.range_i64(0, (m2 - 1 - base).max(0) / g);
                ((base as i128 + k as i128 * g as i128).min(m2 as i128 - 1)) as i64
            } else {
                rng.range_i64(0, m2 - 1)
            };
            emit(format!("crt {} {} {} {}", a1, m1, a2, m2));
            st.bump("crt_outside_box");
        }
    }
    // (4) out-of-domain probes whose behaviour the model mirrors (panics), a separate small stream
    for c in -2..=2 {
        emit(format!("egcd 0 0 {}", c));
        st.bump("egcd_out_of_domain");
    }
    emit("lcm:i64 0 0".to_string());
    st.bump("lcm_out_of_domain");
}

fn main() {
    cli(gen, run_case);
}
