//! Correspondence harness for engine `rational` (property C07): drives rlib_rational::Rational<T>
//! for T = i32, i64, i128 through every syntactic operator form.
#[path = "../../common/mod.rs"]
mod common;
use common::*;
use rlib_rational::{Rational, SignedInteger};
use std::cmp::Ordering;
use std::collections::hash_map::DefaultHasher;
use std::collections::HashSet;
use std::fmt::{Debug, Display};
use std::hash::{Hash, Hasher};

const TYPES: [&str; 3] = ["i32", "i64", "i128"];

/// the property's magnitude guard 2^(bits/2 - 2)
fn guard(ty: &str) -> i128 {
    match ty {
        "i32" => 1 << 14,
        "i64" => 1 << 30,
        "i128" => 1 << 62,
        _ => unreachable!(),
    }
}
fn ty_max(ty: &str) -> i128 {
    match ty {
        "i32" => i32::MAX as i128,
        "i64" => i64::MAX as i128,
        "i128" => i128::MAX,
        _ => unreachable!(),
    }
}

// ---------------------------------------------------------------- independent oracle (i128 + own Euclid)
fn euclid(a: i128, b: i128) -> i128 {
    let (mut a, mut b) = (a.abs(), b.abs());
    while b != 0 {
        let t = a % b;
        a = b;
        b = t;
    }
    a
}
/// lowest terms, positive denominator (den != 0)
fn canon(n: i128, d: i128) -> (i128, i128) {
    let g = euclid(n, d);
    let (n, d) = (n / g, d / g);
    if d < 0 {
        (-n, -d)
    } else {
        (n, d)
    }
}
fn floor_div(n: i128, d: i128) -> i128 {
    // d > 0
    n.div_euclid(d)
}
/// Expected result computed by cross multiplication, only called inside the guard (no i128 overflow there).
fn oracle(op: &str, v: &[i128]) -> Option<String> {
    let fr = |p: (i128, i128)| format!("{} {}", p.0, p.1);
    match op {
        "new" => Some(fr(canon(v[0], v[1]))),
        "newint" => Some(format!("{} 1", v[0])),
        "neg" => Some(fr(canon(-v[0], v[1]))),
        "show" => {
            let p = canon(v[0], v[1]);
            Some(format!("{}/{}", p.0, p.1))
        }
        "floor" => {
            let p = canon(v[0], v[1]);
            Some(format!("{} 1", floor_div(p.0, p.1)))
        }
        "ceil" => {
            let p = canon(v[0], v[1]);
            Some(format!("{} 1", -floor_div(-p.0, p.1)))
        }
        "add" => Some(fr(canon(v[0] * v[3] + v[2] * v[1], v[1] * v[3]))),
        "sub" => Some(fr(canon(v[0] * v[3] - v[2] * v[1], v[1] * v[3]))),
        "mul" => Some(fr(canon(v[0] * v[2], v[1] * v[3]))),
        "div" => Some(fr(canon(v[0] * v[3], v[1] * v[2]))),
        "cmp" | "eq" => {
            // sign(a/b - c/d) = sign((a*d - c*b) * (b*d))
            let lhs = v[0] * v[3] - v[2] * v[1];
            let s = lhs.signum() * (v[1].signum() * v[3].signum());
            if op == "eq" {
                Some((s == 0).to_string())
            } else {
                Some(match s {
                    -1 => "lt",
                    0 => "eq",
                    _ => "gt",
                }
                .to_string())
            }
        }
        _ => None,
    }
}

// ---------------------------------------------------------------- the implementation under test
fn fr<T: Display>(r: &Rational<T>) -> String {
    format!("{} {}", r.a, r.b)
}
fn hash_of<H: Hash>(x: &H) -> u64 {
    let mut h = DefaultHasher::new();
    x.hash(&mut h);
    h.finish()
}

macro_rules! four_forms {
    ($x:expr, $y:expr, $op:tt, $opa:tt) => {{
        let (x, y) = ($x, $y);
        let by_val = x $op y;
        let by_ref = x $op &y;
        let mut as_val = x;
        as_val $opa y;
        let mut as_ref = x;
        as_ref $opa &y;
        let base = fr(&by_val);
        if fr(&by_ref) != base || fr(&as_val) != base || fr(&as_ref) != base {
            format!("forms-differ val={} ref={} assign={} assign-ref={}", base, fr(&by_ref), fr(&as_val), fr(&as_ref)).replace(' ', "_")
        } else {
            base
        }
    }};
}

fn run_t<T>(op: &str, v: &[i128], in_dom: bool) -> Result<String, String>
where
    T: SignedInteger + Copy + Hash + Display + Debug + TryFrom<i128>,
{
    let mut t: Vec<T> = Vec::new();
    for &z in v {
        match T::try_from(z) {
            Ok(x) => t.push(x),
            Err(_) => return Ok("INVALID".to_string()),
        }
    }
    let need = match op {
        "newint" => 1,
        "new" | "neg" | "floor" | "ceil" | "show" => 2,
        "add" | "sub" | "mul" | "div" | "cmp" | "eq" => 4,
        _ => return Ok("bad-op".to_string()),
    };
    if t.len() != need {
        return Ok("INVALID".to_string());
    }
    catch(move || {
        if need == 1 {
            // `new_int(n)` must be the same value as `new(n, 1)` for ==, cmp, Hash and HashSet
            let x = Rational::<T>::new_int(t[0]);
            if !in_dom {
                return fr(&x);
            }
            let y = Rational::<T>::new(t[0], T::ONE);
            let mut set = HashSet::new();
            set.insert(y);
            let ok = x == y && x.cmp(&y) == Ordering::Equal && hash_of(&x) == hash_of(&y) && set.contains(&x);
            return if ok { fr(&x) } else { format!("{}_differs-from-new(n,1)={}", fr(&x), fr(&y)).replace(' ', "_") };
        }
        let x = Rational::<T>::new(t[0], t[1]);
        if need == 2 {
            return match op {
                "new" => fr(&x),
                "neg" => fr(&(-x)),
                "floor" => fr(&x.floor()),
                "ceil" => fr(&x.ceil()),
                _ => {
                    let d = format!("{}", x);
                    let g = format!("{:?}", x);
                    if d == g {
                        d
                    } else {
                        format!("display-debug-differ_{}_{}", d, g)
                    }
                }
            };
        }
        let y = Rational::<T>::new(t[2], t[3]);
        match op {
            "add" => four_forms!(x, y, +, +=),
            "sub" => four_forms!(x, y, -, -=),
            "mul" => four_forms!(x, y, *, *=),
            "div" => four_forms!(x, y, /, /=),
            "cmp" => {
                let c = x.cmp(&y);
                if !in_dom {
                    // outside the domain (overflowing or zero-denominator operands) only `cmp` itself is mirrored
                    return match c {
                        Ordering::Less => "lt",
                        Ordering::Equal => "eq",
                        Ordering::Greater => "gt",
                    }
                    .to_string();
                }
                let name = match c {
                    Ordering::Less => "lt",
                    Ordering::Equal => "eq",
                    Ordering::Greater => "gt",
                };
                // consistency of the derived views of the order and with ==
                let ok = x.partial_cmp(&y) == Some(c)
                    && (x < y) == (c == Ordering::Less)
                    && (x <= y) == (c != Ordering::Greater)
                    && (x > y) == (c == Ordering::Greater)
                    && (x >= y) == (c != Ordering::Less)
                    && (x == y) == (c == Ordering::Equal)
                    && (x != y) == (c != Ordering::Equal)
                    && y.cmp(&x) == c.reverse()
                    && y.partial_cmp(&x) == Some(c.reverse())
                    && (y < x) == (c == Ordering::Greater)
                    && (y <= x) == (c != Ordering::Less)
                    && (y > x) == (c == Ordering::Less)
                    && (y >= x) == (c != Ordering::Greater)
                    && fr(&Ord::min(x, y)) == fr(if c == Ordering::Greater { &y } else { &x })
                    && fr(&Ord::max(x, y)) == fr(if c == Ordering::Greater { &x } else { &y })
                    && x.cmp(&x) == Ordering::Equal
                    && x >= x
                    && x <= x
                    && !(x < x)
                    && !(x > x);
                if ok {
                    name.to_string()
                } else {
                    format!("{}_inconsistent", name)
                }
            }
            _ => {
                // eq + hash agreement
                let e = x == y;
                let same_hash = hash_of(&x) == hash_of(&y);
                let mut set = HashSet::new();
                set.insert(x);
                let member = set.contains(&y);
                let ok = (x != y) == !e && member == e && (!e || same_hash);
                if ok {
                    e.to_string()
                } else {
                    format!("{}_hash-disagrees_samehash={}_member={}", e, same_hash, member)
                }
            }
        }
    })
}

fn run_case(line: &str) -> String {
    let toks: Vec<&str> = line.split_whitespace().collect();
    if toks.is_empty() {
        return out1("INVALID");
    }
    let (op, ty) = match toks[0].split_once(':') {
        Some((o, t)) => (o, t),
        None => (toks[0], ""),
    };
    let mut nums: Vec<i128> = Vec::new();
    for t in &toks[1..] {
        match t.parse::<i128>() {
            Ok(z) => nums.push(z),
            Err(_) => return out1("INVALID"),
        }
    }
    // the property's domain: operands inside the guard, non-zero denominators, non-zero divisor
    let g = if TYPES.contains(&ty) { guard(ty) } else { 0 };
    let in_guard = nums.iter().all(|z| z.unsigned_abs() <= g as u128);
    let dens_ok = if op == "newint" {
        nums.len() == 1
    } else {
        nums.len() >= 2 && nums[1] != 0 && (nums.len() < 4 || (nums[3] != 0 && (op != "div" || nums[2] != 0)))
    };
    let in_dom = in_guard && dens_ok;
    let r = match ty {
        "i32" => run_t::<i32>(op, &nums, in_dom),
        "i64" => run_t::<i64>(op, &nums, in_dom),
        "i128" => run_t::<i128>(op, &nums, in_dom),
        _ => Ok("bad-type".to_string()),
    };
    let raw = match r {
        Ok(s) => s,
        Err(e) => e,
    };
    // inside the domain the harness's own oracle must agree as well
    if in_guard && dens_ok {
        if let Some(exp) = oracle(op, &nums) {
            if exp != raw {
                return out2(&raw, &format!("{}_oracle-expects_{}", raw, exp).replace(' ', "_"));
            }
        }
        return out1(&raw);
    }
    // outside the domain the property does not say WHICH panic (abs of MIN, a product, a division by zero) comes
    // first: only "some panic" vs the returned value is compared with the checked model
    if raw.starts_with("panic:") {
        return out1("panic");
    }
    out1(&raw)
}

// ---------------------------------------------------------------- generators
const BIN_OPS: [&str; 6] = ["add", "sub", "mul", "div", "cmp", "eq"];
const UN_OPS: [&str; 5] = ["new", "neg", "floor", "ceil", "show"];

/// boundary-biased magnitude in [0, lim]
fn magnitude(rng: &mut SplitMix64, lim: i128) -> i128 {
    let bits = 128 - (lim as u128).leading_zeros() as u64; // lim < 2^bits
    let v: i128 = match rng.below(10) {
        0 => 0,
        1 => 1,
        2 => lim - rng.below(3) as i128,
        3 => 1i128 << rng.below(bits),
        4 => (1i128 << rng.below(bits)) - 1,
        5 => (1i128 << rng.below(bits)) + 1,
        6 => rng.below(20) as i128,
        7 => {
            // product of two small-ish factors
            let f = rng.below(1 << 12) as i128 + 1;
            f * (rng.below(1 << 12) as i128)
        }
        _ => {
            let r = ((rng.next_u64() as u128) << 64 | rng.next_u64() as u128) >> (128 - rng.below(bits) - 1);
            r as i128
        }
    };
    v.clamp(0, lim)
}
fn signed(rng: &mut SplitMix64, v: i128) -> i128 {
    if rng.chance(1, 2) {
        -v
    } else {
        v
    }
}
fn nonzero(v: i128) -> i128 {
    if v == 0 {
        1
    } else {
        v
    }
}

/// number of `a %= b; swap` rounds rlib's gcd loop performs on (|n|, |d|)
fn euclid_rounds(n: i128, d: i128) -> u32 {
    let (mut a, mut b) = (n.unsigned_abs(), d.unsigned_abs());
    let mut k = 0;
    while b != 0 {
        let t = a % b;
        a = b;
        b = t;
        k += 1;
    }
    k
}
/// the (numerator, denominator) handed to `norm` by a binary operator on canonical x = a/b, y = c/d
fn norm_input(op: &str, v: &[i128]) -> Option<(i128, i128)> {
    if v.len() != 4 || v[1] == 0 || v[3] == 0 {
        return None;
    }
    let (a, b) = canon(v[0], v[1]);
    let (c, d) = canon(v[2], v[3]);
    match op {
        "add" => Some((a * d + b * c, b * d)),
        "sub" | "cmp" => Some((a * d - b * c, b * d)),
        "mul" => Some((a * c, b * d)),
        "div" => Some((a * d, b * c)),
        _ => None,
    }
}
/// record how deep the Euclid loop inside `norm` has to go for this case (64 is where a capped loop would stop)
fn note_depth(st: &mut Stats, op: &str, ty: &str, v: &[i128]) {
    let r = if v.len() == 2 { Some(euclid_rounds(v[0], v[1])) } else { norm_input(op, v).map(|(n, d)| euclid_rounds(n, d)) };
    if let Some(r) = r {
        let bucket = if r >= 65 { "65plus" } else if r >= 33 { "33to64" } else { "upto32" };
        st.bump(&format!("euclid_rounds_{}_{}", bucket, ty));
        if r >= 65 {
            st.bump(&format!("euclid_rounds_65plus_op_{}", op));
        }
    }
    if (op == "cmp" || op == "eq") && v.len() == 4 && v[1] != 0 && v[3] != 0 && canon(v[0], v[1]) == canon(v[2], v[3]) {
        st.bump(&format!("{}_on_equal_values_{}", op, ty));
    }
}
/// Fibonacci and Lucas numbers not exceeding `lim`
fn fib_lucas(lim: i128) -> (Vec<i128>, Vec<i128>) {
    let (mut f, mut l) = (vec![0i128, 1], vec![2i128, 1]);
    loop {
        let k = l.len();
        let nl = l[k - 1] + l[k - 2];
        if nl > lim {
            break;
        }
        l.push(nl);
        f.push(f[k - 1] + f[k - 2]);
    }
    (f, l)
}

fn gen(args: &Args, emit: &mut dyn FnMut(String), st: &mut Stats) {
    let thorough = args.tier == "thorough";
    let mut rng = SplitMix64::new(args.seed ^ 0xC07);
    // (1) exhaustive small box: every a/b, c/d with numerators in [-k,k] and denominators in [-k,k] \ {0}
    for ty in TYPES {
        let k: i64 = if thorough { 8 } else if ty == "i64" { 6 } else { 4 };
        let mut fracs = Vec::new();
        for a in -k..=k {
            for b in -k..=k {
                if b != 0 {
                    fracs.push((a, b));
                }
            }
        }
        for n in -4 * k..=4 * k {
            emit(format!("newint:{} {}", ty, n));
            st.bump(&format!("box_newint_{}", ty));
        }
        for &(a, b) in &fracs {
            for op in UN_OPS {
                emit(format!("{}:{} {} {}", op, ty, a, b));
                st.bump(&format!("box_{}_{}", op, ty));
            }
            for &(c, d) in &fracs {
                for op in BIN_OPS {
                    emit(format!("{}:{} {} {} {} {}", op, ty, a, b, c, d));
                    note_depth(st, op, ty, &[a as i128, b as i128, c as i128, d as i128]);
                }
                st.add(&format!("box_binary_{}", ty), BIN_OPS.len() as u64);
                if c == 0 {
                    st.bump("box_div_by_zero_value(out of domain)");
                }
            }
        }
    }
    // (2) boundary-biased sampling up to the guard of each type
    let n = if thorough { 2_600_000 } else { 90_000 };
    for i in 0..n {
        let ty = TYPES[(i % 3) as usize];
        let g = guard(ty);
        let mut a = { let v = magnitude(&mut rng, g); signed(&mut rng, v) };
        let mut b = { let v = nonzero(magnitude(&mut rng, g)); signed(&mut rng, v) };
        let mut c = { let v = magnitude(&mut rng, g); signed(&mut rng, v) };
        let mut d = { let v = nonzero(magnitude(&mut rng, g)); signed(&mut rng, v) };
        let mut kind = "plain";
        let mut forced_op: Option<&str> = None;
        match rng.below(8) {
            4 | 5 => {
                // Fibonacci / Lucas ratios: F(m)L(n) + F(n)L(m) = 2F(m+n), F(n)L(n) = F(2n), so the cross products that
                // `norm` receives are (near-)consecutive Fibonacci numbers of twice the index: the Euclid loop needs
                // about 2n rounds (up to ~80 for i64 inside the 2^30 guard, ~170 for i128) although every operand is
                // inside the guard and every operand fraction is already in lowest terms
                let (f, l) = fib_lucas(g);
                let nmax = l.len() - 1;
                let n = nmax - rng.below(10.min(nmax as u64 - 2)) as usize;
                let op = *rng.pick(&["mul", "div", "add", "sub", "cmp", "eq", "new"]);
                // for + - cmp ==: n = 1 (mod 3) makes F(n-1), L(n-1) even, and
                // (F(n-1)/2)/F(n) + (L(n-1)/2)/L(n) has cross products F(2n-1) over F(2n): 2n-2 Euclid rounds
                let n3 = n - (n + 2) % 3;
                let (xa, xb, ya, yb) = match op {
                    "mul" => (f[n], f[n - 1], l[n], l[n - 1]),
                    "div" => (f[n], f[n - 1], l[n - 1], l[n]),
                    "add" => (f[n3 - 1] / 2, f[n3], l[n3 - 1] / 2, l[n3]),
                    "new" => (f[n], f[n - 1], 1, 1),
                    _ => (f[n3 - 1] / 2, f[n3], -l[n3 - 1] / 2, l[n3]),
                };
                // either sign of the denominators (value unchanged)
                let (sx, sy) = (if rng.chance(1, 2) { -1 } else { 1 }, if rng.chance(1, 2) { -1 } else { 1 });
                a = xa * sx;
                b = xb * sx;
                c = ya * sy;
                d = yb * sy;
                forced_op = Some(op);
                kind = "fibonacci_ratio";
            }
            0 => {
                // a factor shared across the two fractions (a with d, b with c) and inside each
                let f = rng.below(1 << 10) as i128 + 2;
                a = a / f * f;
                d = nonzero(d / f * f);
                if rng.chance(1, 2) {
                    b = nonzero(b / f * f);
                    c = c / f * f;
                }
                kind = "shared_factor";
            }
            1 => {
                // equal values written differently: c/d = (a*k)/(b*k) when it stays inside the guard
                let k = { let v = rng.below(64) as i128 + 1; signed(&mut rng, v) };
                if (a * k).abs() <= g && (b * k).abs() <= g {
                    c = a * k;
                    d = b * k;
                    kind = "equal_value";
                }
            }
            2 => {
                // neighbours: c/d differs from a/b by one unit in the numerator
                c = (a + signed(&mut rng, 1)).clamp(-g, g);
                d = b;
                kind = "neighbour";
            }
            3 => {
                // integers (denominator ±1 or dividing the numerator)
                if rng.chance(1, 2) {
                    b = signed(&mut rng, 1);
                } else {
                    let q = rng.below(1 << 10) as i128 + 1;
                    b = signed(&mut rng, q);
                    a = a / q * q;
                }
                kind = "integer_valued";
            }
            _ => {}
        }
        st.bump(&format!("sampled_{}", kind));
        if let Some(op) = forced_op {
            if op == "new" {
                emit(format!("new:{} {} {}", ty, a, b));
                note_depth(st, op, ty, &[a, b]);
            } else {
                emit(format!("{}:{} {} {} {} {}", op, ty, a, b, c, d));
                note_depth(st, op, ty, &[a, b, c, d]);
            }
            st.bump(&format!("sampled_{}_{}", op, ty));
            continue;
        }
        if rng.chance(1, 20) {
            emit(format!("newint:{} {}", ty, a));
            st.bump(&format!("sampled_newint_{}", ty));
        } else if rng.chance(1, 4) {
            let op = *rng.pick(&UN_OPS);
            note_depth(st, op, ty, &[a, b]);
            emit(format!("{}:{} {} {}", op, ty, a, b));
            st.bump(&format!("sampled_{}_{}", op, ty));
            if a < 0 {
                st.bump("sampled_unary_negative_value_numerator");
            }
            if b < 0 {
                st.bump("sampled_negative_denominator");
            }
        } else {
            let op = *rng.pick(&BIN_OPS);
            emit(format!("{}:{} {} {} {} {}", op, ty, a, b, c, d));
            note_depth(st, op, ty, &[a, b, c, d]);
            st.bump(&format!("sampled_{}_{}", op, ty));
            if b < 0 || d < 0 {
                st.bump("sampled_negative_denominator");
            }
        }
    }
    // (3) a small stream outside the guard (up to the limits of the type): the property does not constrain the
    //     result there (`S any`), but the machine model mirrors overflow panics, so raw results are still compared
    let n = if thorough { 60_000 } else { 3_000 };
    for i in 0..n {
        let ty = TYPES[(i % 3) as usize];
        let m = ty_max(ty);
        let a = { let v = magnitude(&mut rng, m); signed(&mut rng, v) };
        let b = { let v = magnitude(&mut rng, m); signed(&mut rng, v) };
        let c = { let v = magnitude(&mut rng, m); signed(&mut rng, v) };
        let d = { let v = magnitude(&mut rng, m); signed(&mut rng, v) };
        if rng.chance(1, 4) {
            let op = *rng.pick(&UN_OPS);
            emit(format!("{}:{} {} {}", op, ty, a, b));
        } else {
            let op = *rng.pick(&BIN_OPS);
            emit(format!("{}:{} {} {} {} {}", op, ty, a, b, c, d));
        }
        st.bump("outside_guard_stream");
    }
    // minimum of the type and zero denominators (panics mirrored by the model)
    for ty in TYPES {
        let mn = -ty_max(ty) - 1;
        for (a, b) in [(mn, 1), (1, mn), (mn, mn), (0, 0), (5, 0), (-5, 0), (0, -7)] {
            for op in UN_OPS {
                emit(format!("{}:{} {} {}", op, ty, a, b));
                st.bump("min_and_zero_probes");
            }
        }
        for n in [mn, mn + 1, ty_max(ty), 0] {
            emit(format!("newint:{} {}", ty, n));
            st.bump("min_and_zero_probes");
        }
        for op in BIN_OPS {
            emit(format!("{}:{} 1 2 0 0", op, ty));
            emit(format!("{}:{} 1 0 1 2", op, ty));
            emit(format!("{}:{} 0 5 0 -3", op, ty));
            st.add("min_and_zero_probes", 3);
        }
    }
}

fn main() {
    cli(gen, run_case);
}
