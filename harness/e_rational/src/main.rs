//! Correspondence harness for engine `rational` (property C07): drives rlib_rational::Rational<T>
//! for T = i8, i16, i32, i64, i128, isize through every syntactic operator form, every comparison / equality / hash /
//! clone entry point the standard traits offer (provided methods included), chains that re-use returned values, and
//! several live values at once (sort, BTreeSet, HashSet, binary_search, clamp, slice hash).
#[path = "../../common/mod.rs"]
mod common;
use common::*;
use rlib_num_traits::ZeroOne;
use rlib_rational::{Rational, SignedInteger};
use std::cmp::{Ordering, Reverse};
use std::collections::hash_map::DefaultHasher;
use std::collections::{BTreeSet, HashSet};
use std::fmt::{Debug, Display};
use std::hash::{Hash, Hasher};

const TYPES: [&str; 6] = ["i8", "i16", "i32", "i64", "i128", "isize"];
/// the three instantiations the property names; the guard-box stream cycles over these
const GUARD_TYPES: [&str; 4] = ["i32", "i64", "i128", "isize"];

/// the property's magnitude guard 2^(bits/2 - 2) (a box inside the domain; the domain itself reaches the type's limit)
fn guard(ty: &str) -> i128 {
    match ty {
        "i8" => 1 << 2,
        "i16" => 1 << 6,
        "i32" => 1 << 14,
        "i64" | "isize" => 1 << 30,
        "i128" => 1 << 62,
        _ => unreachable!(),
    }
}
fn ty_max(ty: &str) -> i128 {
    match ty {
        "i8" => i8::MAX as i128,
        "i16" => i16::MAX as i128,
        "i32" => i32::MAX as i128,
        "i64" | "isize" => i64::MAX as i128,
        "i128" => i128::MAX,
        _ => unreachable!(),
    }
}

// ---------------------------------------------------------------- independent oracle (i128 + own Euclid)
fn euclid(a: i128, b: i128) -> i128 {
    let (mut a, mut b) = (a.unsigned_abs(), b.unsigned_abs());
    while b != 0 {
        let t = a % b;
        a = b;
        b = t;
    }
    a as i128
}
/// lowest terms, positive denominator (den != 0, neither field the minimum of i128)
fn canon(n: i128, d: i128) -> (i128, i128) {
    let g = euclid(n, d);
    let (n, d) = (n / g, d / g);
    if d < 0 {
        (-n, -d)
    } else {
        (n, d)
    }
}
fn floor_div(n: i128, d: i128) -> i128 {
    // d > 0
    n.div_euclid(d)
}

// ---- the property's domain, decided by the harness on its own (the driver decides it with Lean's `domNew`, `domAdd`, …):
// ---- every intermediate value of the specified computation is representable in `ty`
/// representable in `ty` (None = does not even fit i128)
fn fits(ty: &str, z: Option<i128>) -> bool {
    match z {
        None => false,
        Some(z) => ty == "i128" || (-ty_max(ty) - 1 <= z && z <= ty_max(ty)),
    }
}
/// |z| <= MAX of `ty`: z, -z and |z| are representable
fn mag_ok(ty: &str, z: Option<i128>) -> bool {
    match z {
        None => false,
        Some(z) => z != i128::MIN && z.abs() <= ty_max(ty),
    }
}
fn dom_new(ty: &str, a: i128, b: i128) -> bool {
    b != 0 && mag_ok(ty, Some(a)) && mag_ok(ty, Some(b))
}
type Fr = (i128, i128);
fn cross(x: Fr, y: Fr) -> (Option<i128>, Option<i128>) {
    (x.0.checked_mul(y.1), x.1.checked_mul(y.0))
}
fn opt_add(p: Option<i128>, q: Option<i128>) -> Option<i128> {
    p?.checked_add(q?)
}
fn opt_sub(p: Option<i128>, q: Option<i128>) -> Option<i128> {
    p?.checked_sub(q?)
}
/// domain of a binary operator on CANONICAL operands
fn dom_bin(op: &str, ty: &str, x: Fr, y: Fr) -> bool {
    let (p1, p2) = cross(x, y);
    match op {
        "add" => fits(ty, p1) && fits(ty, p2) && mag_ok(ty, opt_add(p1, p2)) && mag_ok(ty, x.1.checked_mul(y.1)),
        "sub" | "cmp" => fits(ty, p1) && fits(ty, p2) && mag_ok(ty, opt_sub(p1, p2)) && mag_ok(ty, x.1.checked_mul(y.1)),
        "mul" => mag_ok(ty, x.0.checked_mul(y.0)) && mag_ok(ty, x.1.checked_mul(y.1)),
        "div" => y.0 != 0 && mag_ok(ty, p1) && mag_ok(ty, p2),
        "eq" => true,
        _ => false,
    }
}
fn dom_floor(ty: &str, x: Fr) -> bool {
    x.0 >= 0 || fits(ty, x.0.checked_sub(x.1))
}
fn dom_ceil(ty: &str, x: Fr) -> bool {
    x.0 < 0 || fits(ty, x.0.checked_add(x.1))
}
/// exact result of a binary operator on canonical operands (only called inside `dom_bin`: nothing overflows there)
fn spec_bin(op: &str, x: Fr, y: Fr) -> Fr {
    match op {
        "add" => canon(x.0 * y.1 + x.1 * y.0, x.1 * y.1),
        "sub" => canon(x.0 * y.1 - x.1 * y.0, x.1 * y.1),
        "mul" => canon(x.0 * y.0, x.1 * y.1),
        _ => canon(x.0 * y.1, x.1 * y.0),
    }
}
fn spec_cmp(x: Fr, y: Fr) -> Ordering {
    // canonical operands, inside the domain of `cmp`: both cross products fit
    (x.0 * y.1).cmp(&(x.1 * y.0))
}
fn ord_name(c: Ordering) -> &'static str {
    match c {
        Ordering::Less => "lt",
        Ordering::Equal => "eq",
        Ordering::Greater => "gt",
    }
}

/// What a case line asks for, as the harness itself understands it.
struct Case {
    op: String,
    ty: String,
    sub_ops: Vec<String>, // chain: the two operators
    nums: Vec<i128>,
    in_dom: bool,
    /// comparisons of each operand with itself are inside the domain too (reflexivity / clamp checks)
    self_ok: bool,
    expect: Option<String>,
}

fn analyse(line: &str) -> Option<Case> {
    let toks: Vec<&str> = line.split_whitespace().collect();
    if toks.is_empty() {
        return None;
    }
    let (op, ty) = toks[0].split_once(':')?;
    if !TYPES.contains(&ty) {
        return None;
    }
    let mut rest = &toks[1..];
    let mut sub_ops = Vec::new();
    if op == "chain" {
        if rest.len() < 2 {
            return None;
        }
        for o in &rest[..2] {
            if !["add", "sub", "mul", "div"].contains(o) {
                return None;
            }
            sub_ops.push(o.to_string());
        }
        rest = &rest[2..];
    }
    let mut nums: Vec<i128> = Vec::new();
    for t in rest {
        nums.push(t.parse::<i128>().ok()?);
    }
    let fr = |p: Fr| format!("{} {}", p.0, p.1);
    let arity_ok = match op {
        "consts" => nums.is_empty(),
        "newint" => nums.len() == 1,
        "new" | "neg" | "floor" | "ceil" | "show" => nums.len() == 2,
        "add" | "sub" | "mul" | "div" | "cmp" | "eq" => nums.len() == 4,
        "chain" => nums.len() == 6,
        "sort" => nums.len() >= 2 && nums.len() % 2 == 0,
        _ => false,
    };
    if !arity_ok {
        return None;
    }
    let mut c = Case { op: op.to_string(), ty: ty.to_string(), sub_ops, nums: nums.clone(), in_dom: false, self_ok: false, expect: None };
    match op {
        "consts" => {
            c.in_dom = true;
            c.expect = Some("0 1 1 1".to_string());
        }
        "newint" => {
            c.in_dom = fits(ty, Some(nums[0]));
            c.self_ok = mag_ok(ty, Some(nums[0])); // new(n, 1) exists
            c.expect = Some(format!("{} 1", nums[0]));
        }
        _ => {
            let pairs: Vec<Fr> = nums.chunks(2).map(|p| (p[0], p[1])).collect();
            if !pairs.iter().all(|p| dom_new(ty, p.0, p.1)) {
                return Some(c);
            }
            let cs: Vec<Fr> = pairs.iter().map(|p| canon(p.0, p.1)).collect();
            let x = cs[0];
            match op {
                "new" => {
                    c.in_dom = true;
                    c.expect = Some(fr(x));
                }
                "show" => {
                    c.in_dom = true;
                    c.expect = Some(format!("{}/{}", x.0, x.1));
                }
                "neg" => {
                    c.in_dom = true;
                    c.expect = Some(fr((-x.0, x.1)));
                }
                "floor" => {
                    c.in_dom = dom_floor(ty, x);
                    c.expect = Some(format!("{} 1", floor_div(x.0, x.1)));
                }
                "ceil" => {
                    c.in_dom = dom_ceil(ty, x);
                    c.expect = Some(format!("{} 1", -floor_div(-x.0, x.1)));
                }
                "add" | "sub" | "mul" | "div" => {
                    c.in_dom = dom_bin(op, ty, x, cs[1]);
                    if c.in_dom {
                        c.expect = Some(fr(spec_bin(op, x, cs[1])));
                    }
                }
                "cmp" => {
                    c.in_dom = dom_bin("cmp", ty, x, cs[1]);
                    c.self_ok = dom_bin("cmp", ty, x, x) && dom_bin("cmp", ty, cs[1], cs[1]);
                    if c.in_dom {
                        c.expect = Some(ord_name(spec_cmp(x, cs[1])).to_string());
                    }
                }
                "eq" => {
                    c.in_dom = true;
                    c.expect = Some((x == cs[1]).to_string());
                }
                "chain" => {
                    if dom_bin(&c.sub_ops[0], ty, x, cs[1]) {
                        let r = spec_bin(&c.sub_ops[0], x, cs[1]);
                        if dom_bin(&c.sub_ops[1], ty, r, cs[2]) {
                            c.in_dom = true;
                            c.expect = Some(fr(spec_bin(&c.sub_ops[1], r, cs[2])));
                        }
                    }
                }
                "sort" => {
                    c.in_dom = cs.iter().all(|p| cs.iter().all(|q| dom_bin("cmp", ty, *p, *q)));
                    if c.in_dom {
                        let mut s = cs.clone();
                        // selection sort by the oracle's own comparison (no std sort, no rlib comparison)
                        for i in 0..s.len() {
                            for j in i + 1..s.len() {
                                if spec_cmp(s[j], s[i]) == Ordering::Less {
                                    s.swap(i, j);
                                }
                            }
                        }
                        c.expect = Some(show_list(&s));
                    }
                }
                _ => {}
            }
        }
    }
    Some(c)
}
fn show_list(s: &[Fr]) -> String {
    format!("[{}]", s.iter().map(|p| format!("{}/{}", p.0, p.1)).collect::<Vec<_>>().join(","))
}

// ---------------------------------------------------------------- the implementation under test
fn fr<T: Display>(r: &Rational<T>) -> String {
    format!("{} {}", r.a, r.b)
}
fn hash_of<H: Hash + ?Sized>(x: &H) -> u64 {
    let mut h = DefaultHasher::new();
    x.hash(&mut h);
    h.finish()
}

macro_rules! four_forms {
    ($x:expr, $y:expr, $op:tt, $opa:tt) => {{
        let (x, y) = ($x, $y);
        let by_val = x $op y;
        let by_ref = x $op &y;
        let mut as_val = x;
        as_val $opa y;
        let mut as_ref = x;
        as_ref $opa &y;
        let base = fr(&by_val);
        if fr(&by_ref) != base || fr(&as_val) != base || fr(&as_ref) != base {
            format!("forms-differ val={} ref={} assign={} assign-ref={}", base, fr(&by_ref), fr(&as_val), fr(&as_ref)).replace(' ', "_")
        } else {
            base
        }
    }};
}

trait Elem: SignedInteger + Copy + Hash + Display + Debug + TryFrom<i128> {}
impl<T: SignedInteger + Copy + Hash + Display + Debug + TryFrom<i128>> Elem for T {}

/// one operator, one syntactic form (0 by value, 1 by reference, 2 assigning by value, 3 assigning by reference)
fn apply<T: Elem>(op: &str, form: u8, x: Rational<T>, y: Rational<T>) -> Rational<T> {
    let mut r = x;
    match (op, form) {
        ("add", 0) => x + y,
        ("add", 1) => x + &y,
        ("add", 2) => { r += y; r }
        ("add", _) => { r += &y; r }
        ("sub", 0) => x - y,
        ("sub", 1) => x - &y,
        ("sub", 2) => { r -= y; r }
        ("sub", _) => { r -= &y; r }
        ("mul", 0) => x * y,
        ("mul", 1) => x * &y,
        ("mul", 2) => { r *= y; r }
        ("mul", _) => { r *= &y; r }
        ("div", 0) => x / y,
        ("div", 1) => x / &y,
        ("div", 2) => { r /= y; r }
        (_, _) => { r /= &y; r }
    }
}

/// `cmp` and every view of the order the standard traits derive from it (provided methods included: a crate may override them)
fn cmp_views<T: Elem>(x: Rational<T>, y: Rational<T>, self_ok: bool) -> String {
    let c = x.cmp(&y);
    let name = ord_name(c);
    let (lt, eq, gt) = (c == Ordering::Less, c == Ordering::Equal, c == Ordering::Greater);
    let mut bad: Vec<&str> = Vec::new();
    let mut chk = |ok: bool, what: &'static str| {
        if !ok {
            bad.push(what);
        }
    };
    chk(x.partial_cmp(&y) == Some(c), "partial_cmp");
    chk((x < y) == lt && (x <= y) == !gt && (x > y) == gt && (x >= y) == !lt, "lt-le-gt-ge");
    chk((x == y) == eq && (x != y) == !eq, "eq-ne");
    chk(y.cmp(&x) == c.reverse() && y.partial_cmp(&x) == Some(c.reverse()), "reversed-cmp");
    chk((y < x) == gt && (y <= x) == !lt && (y > x) == lt && (y >= x) == !gt, "reversed-lt-le-gt-ge");
    // provided methods of Ord: min / max are `min_by(cmp)` / `max_by(cmp)` (the left operand on a tie / the right one)
    chk(fr(&Ord::min(x, y)) == fr(if gt { &y } else { &x }) && fr(&Ord::max(x, y)) == fr(if gt { &x } else { &y }), "min-max");
    chk(fr(&Ord::min(y, x)) == fr(if lt { &x } else { &y }) && fr(&Ord::max(y, x)) == fr(if lt { &y } else { &x }), "reversed-min-max");
    chk(fr(std::cmp::min_by(&x, &y, |p, q| p.cmp(q))) == fr(if gt { &y } else { &x }), "min_by");
    // through containers whose comparison is built from the element's: tuples (chained lt/le/gt/ge), slices, Option, Reverse
    chk(((x, 0u8) < (y, 1u8)) == !gt && ((x, 1u8) < (y, 0u8)) == lt && ((x, 0u8) <= (y, 0u8)) == !gt, "tuple-lt-le");
    chk(((x, 1u8) > (y, 0u8)) == !lt && ((x, 0u8) > (y, 1u8)) == gt && ((x, 0u8) >= (y, 0u8)) == !lt, "tuple-gt-ge");
    chk((x, 0u8).cmp(&(y, 0u8)) == c && (x, 0u8).partial_cmp(&(y, 0u8)) == Some(c), "tuple-cmp");
    let (sx, sy) = ([x], [y]);
    chk(sx[..].cmp(&sy[..]) == c && sx[..].partial_cmp(&sy[..]) == Some(c) && (sx[..] < sy[..]) == lt && (sx[..] >= sy[..]) == !lt, "slice-cmp");
    chk((sx[..] == sy[..]) == eq && (sx[..] != sy[..]) == !eq && (vec![x] == vec![y]) == eq, "slice-eq-ne");
    chk(Some(x).cmp(&Some(y)) == c && (Some(x) == Some(y)) == eq && (Some(x) != Some(y)) == !eq && (Some(x) < Some(y)) == lt, "option");
    chk(Reverse(x).cmp(&Reverse(y)) == c.reverse() && (Reverse(x) < Reverse(y)) == gt && (Reverse(x) >= Reverse(y)) == !gt, "reverse");
    if self_ok {
        // a value against itself, and clamp (asserts min <= max, then compares self with both bounds)
        chk(x.cmp(&x) == Ordering::Equal && x >= x && x <= x && !(x < x) && !(x > x) && x == x && !(x != x), "reflexive");
        let (lo, hi) = if gt { (y, x) } else { (x, y) };
        chk(fr(&x.clamp(lo, hi)) == fr(&x) && fr(&y.clamp(lo, hi)) == fr(&y), "clamp-inside");
        chk(fr(&lo.clamp(hi, hi)) == fr(&hi) && fr(&hi.clamp(lo, lo)) == fr(&lo), "clamp-outside");
    }
    if bad.is_empty() {
        name.to_string()
    } else {
        format!("{}_inconsistent:{}", name, bad.join("+"))
    }
}

/// `==` and everything that must agree with it: `!=`, Hash (value, slice, HashSet), Clone / clone_from / Copy
fn eq_views<T: Elem>(x: Rational<T>, y: Rational<T>) -> String {
    let e = x == y;
    let structural = fr(&x) == fr(&y);
    let same_hash = hash_of(&x) == hash_of(&y);
    let mut set = HashSet::new();
    set.insert(x);
    let member = set.contains(&y);
    let mut bad: Vec<&str> = Vec::new();
    let mut chk = |ok: bool, what: &'static str| {
        if !ok {
            bad.push(what);
        }
    };
    chk((x != y) == !e && (y == x) == e && (y != x) == !e, "ne");
    chk(e == structural, "structural");
    chk(member == e && (!e || same_hash), "hash");
    chk(([x][..] == [y][..]) == e && ([x, y][..] != [y, x][..]) == !e, "slice-eq");
    // Clone: `clone` gives the same fields as the Copy, `clone_from` overwrites a fresh and a used destination
    let c1 = x.clone();
    let mut c2 = Rational::<T>::new_int(T::ONE);
    c2.clone_from(&x);
    let mut c3 = y;
    c3.clone_from(&x);
    chk(fr(&c1) == fr(&x) && fr(&c2) == fr(&x) && fr(&c3) == fr(&x) && c1 == x && hash_of(&c1) == hash_of(&x), "clone");
    // a slice hashes as its length followed by its elements in order (Hash::hash_slice is a provided method)
    let mut h = DefaultHasher::new();
    h.write_usize(2);
    x.hash(&mut h);
    y.hash(&mut h);
    chk(hash_of(&[x, y][..]) == h.finish(), "hash_slice");
    if bad.is_empty() {
        e.to_string()
    } else {
        format!("{}_inconsistent:{}_samehash={}_member={}", e, bad.join("+"), same_hash, member)
    }
}

/// several live values at once: every ordered collection / search / extremum the standard library builds on `cmp`, `lt`, `==`, `Hash`
fn sort_views<T: Elem>(v: &[Rational<T>]) -> String {
    let show = |s: &[Rational<T>]| format!("[{}]", s.iter().map(|p| format!("{}/{}", p.a, p.b)).collect::<Vec<_>>().join(","));
    let mut s1 = v.to_vec();
    s1.sort();
    let base = show(&s1);
    let mut bad: Vec<&str> = Vec::new();
    let mut chk = |ok: bool, what: &'static str| {
        if !ok {
            bad.push(what);
        }
    };
    let mut s2 = v.to_vec();
    s2.sort_unstable();
    let mut s3 = v.to_vec();
    s3.sort_by(|p, q| p.cmp(q));
    let mut s4 = v.to_vec();
    s4.sort_by(|p, q| p.partial_cmp(q).unwrap());
    let mut s5 = v.to_vec();
    s5.sort_by_key(|p| *p);
    let mut s6 = v.to_vec();
    s6.sort_by(|p, q| if p < q { Ordering::Less } else if p > q { Ordering::Greater } else { Ordering::Equal });
    chk(show(&s2) == base && show(&s3) == base && show(&s4) == base && show(&s5) == base && show(&s6) == base, "sort-variants");
    chk(s1.is_sorted() && s1.windows(2).all(|w| w[0] <= w[1] && !(w[1] < w[0])), "is_sorted");
    // distinct values by the FIELDS (not by the crate's ==)
    let mut distinct: Vec<Rational<T>> = Vec::new();
    for p in &s1 {
        if distinct.last().map_or(true, |q| fr(q) != fr(p)) {
            distinct.push(*p);
        }
    }
    let bt: Vec<Rational<T>> = v.iter().copied().collect::<BTreeSet<_>>().into_iter().collect();
    chk(show(&bt) == show(&distinct), "btreeset");
    let mut dd = s1.clone();
    dd.dedup();
    chk(show(&dd) == show(&distinct), "dedup");
    let hs: HashSet<Rational<T>> = v.iter().copied().collect();
    chk(hs.len() == distinct.len() && v.iter().all(|p| hs.contains(p)), "hashset");
    chk(v.iter().min().map(fr) == s1.first().map(fr) && v.iter().max().map(fr) == s1.last().map(fr), "iter-min-max");
    chk(v.iter().copied().min_by(|p, q| p.cmp(q)).map(|p| fr(&p)) == s1.first().map(fr), "min_by");
    chk(v.iter().copied().reduce(Ord::max).map(|p| fr(&p)) == s1.last().map(fr) && v.iter().copied().reduce(Ord::min).map(|p| fr(&p)) == s1.first().map(fr), "reduce-min-max");
    chk(v.iter().all(|p| matches!(s1.binary_search(p), Ok(i) if fr(&s1[i]) == fr(p))), "binary_search");
    chk(v.iter().all(|p| v.contains(p) && v.iter().position(|q| q == p).map_or(false, |i| fr(&v[i]) == fr(p))), "contains-position");
    // clamp of every value between every ordered pair of bounds, against its definition in terms of the sorted positions
    let (lo_all, hi_all) = (s1[0], s1[s1.len() - 1]);
    let mut clamp_ok = true;
    for (i, p) in s1.iter().enumerate() {
        clamp_ok &= fr(&(*p).clamp(lo_all, hi_all)) == fr(p);
        for j in 0..s1.len() {
            for k in j..s1.len() {
                let exp = if i < j && fr(p) != fr(&s1[j]) { s1[j] } else if i > k && fr(p) != fr(&s1[k]) { s1[k] } else { *p };
                clamp_ok &= fr(&(*p).clamp(s1[j], s1[k])) == fr(&exp);
            }
        }
    }
    chk(clamp_ok, "clamp");
    // hashing the whole slice = length, then the elements in order
    let mut h = DefaultHasher::new();
    h.write_usize(v.len());
    for p in v {
        p.hash(&mut h);
    }
    chk(hash_of(v) == h.finish() && hash_of(&v.to_vec()) == hash_of(v), "hash_slice");
    // whole-slice comparisons
    chk(s1[..].cmp(&s1[..]) == Ordering::Equal && v[..] == v.to_vec()[..] && !(v[..] != v.to_vec()[..]), "slice-self");
    if distinct.len() > 1 {
        chk(s1[..].cmp(&[hi_all][..]) == Ordering::Less && [hi_all][..] > s1[..] && s1[..] != [hi_all][..], "slice-lex");
    }
    // clones made in the middle of the work are as good as the originals
    let cl: Vec<Rational<T>> = v.iter().map(|p| p.clone()).collect();
    let mut cf = vec![Rational::<T>::new_int(T::ZERO); v.len()];
    cf.clone_from_slice(v);
    let mut cv = s1.clone();
    cv.clone_from(&v.to_vec());
    chk(show(&cl) == show(v) && show(&cf) == show(v) && show(&cv) == show(v), "clone");
    if bad.is_empty() {
        base
    } else {
        format!("{}_inconsistent:{}", base, bad.join("+"))
    }
}

fn run_t<T: Elem>(c: &Case) -> Result<String, String> {
    let mut t: Vec<T> = Vec::new();
    for &z in &c.nums {
        match T::try_from(z) {
            Ok(x) => t.push(x),
            Err(_) => return Ok("INVALID".to_string()),
        }
    }
    let op = c.op.as_str();
    let (in_dom, self_ok) = (c.in_dom, c.self_ok);
    let sub_ops = c.sub_ops.clone();
    catch(move || {
        if op == "consts" {
            let (z, o) = (<Rational<T> as ZeroOne>::ZERO, <Rational<T> as ZeroOne>::ONE);
            return format!("{} {}", fr(&z), fr(&o));
        }
        if op == "newint" {
            // `new_int(n)` must be the same value as `new(n, 1)` for ==, cmp, Hash and HashSet
            let x = Rational::<T>::new_int(t[0]);
            if !in_dom || !self_ok {
                return fr(&x);
            }
            let y = Rational::<T>::new(t[0], T::ONE);
            let mut set = HashSet::new();
            set.insert(y);
            let ok = x == y && !(x != y) && hash_of(&x) == hash_of(&y) && set.contains(&x);
            return if ok { fr(&x) } else { format!("{}_differs-from-new(n,1)={}", fr(&x), fr(&y)).replace(' ', "_") };
        }
        let x = Rational::<T>::new(t[0], t[1]);
        if t.len() == 2 && op != "sort" {
            return match op {
                "new" => fr(&x),
                "neg" => fr(&(-x)),
                "floor" => fr(&x.floor()),
                "ceil" => fr(&x.ceil()),
                _ => {
                    let d = format!("{}", x);
                    let g = format!("{:?}", x);
                    if d == g {
                        d
                    } else {
                        format!("display-debug-differ_{}_{}", d, g)
                    }
                }
            };
        }
        if op == "sort" {
            let v: Vec<Rational<T>> = t.chunks(2).map(|p| Rational::<T>::new(p[0], p[1])).collect();
            if !in_dom {
                let mut s = v.clone();
                s.sort();
                return format!("[{}]", s.iter().map(|p| format!("{}/{}", p.a, p.b)).collect::<Vec<_>>().join(","));
            }
            return sort_views(&v);
        }
        let y = Rational::<T>::new(t[2], t[3]);
        match op {
            "add" => four_forms!(x, y, +, +=),
            "sub" => four_forms!(x, y, -, -=),
            "mul" => four_forms!(x, y, *, *=),
            "div" => four_forms!(x, y, /, /=),
            "chain" => {
                // a returned value is re-used as an operand, through every pairing of syntactic forms
                let z = Rational::<T>::new(t[4], t[5]);
                let base = fr(&apply(&sub_ops[1], 0, apply(&sub_ops[0], 0, x, y), z));
                if !in_dom {
                    return base;
                }
                for f1 in 0..4u8 {
                    for f2 in 0..4u8 {
                        let r = apply(&sub_ops[1], f2, apply(&sub_ops[0], f1, x, y), z);
                        if fr(&r) != base {
                            return format!("forms-differ_{}_form{}{}={}", base, f1, f2, fr(&r)).replace(' ', "_");
                        }
                    }
                }
                base
            }
            "cmp" => {
                if !in_dom {
                    // outside the domain (overflowing or zero-denominator operands) only `cmp` itself is mirrored
                    return ord_name(x.cmp(&y)).to_string();
                }
                cmp_views(x, y, self_ok)
            }
            _ => {
                if !in_dom {
                    return (x == y).to_string();
                }
                eq_views(x, y)
            }
        }
    })
}

fn run_case(line: &str) -> String {
    let c = match analyse(line) {
        Some(c) => c,
        None => return out1("INVALID"),
    };
    let r = match c.ty.as_str() {
        "i8" => run_t::<i8>(&c),
        "i16" => run_t::<i16>(&c),
        "i32" => run_t::<i32>(&c),
        "i64" => run_t::<i64>(&c),
        "i128" => run_t::<i128>(&c),
        "isize" => run_t::<isize>(&c),
        _ => Ok("bad-type".to_string()),
    };
    let raw = match r {
        Ok(s) => s,
        Err(e) => e,
    };
    // inside the domain the harness's own oracle must agree as well
    if c.in_dom {
        if let Some(exp) = &c.expect {
            if *exp != raw {
                return out2(&raw, &format!("{}_oracle-expects_{}", raw, exp).replace(' ', "_"));
            }
        }
        return out1(&raw);
    }
    // outside the domain the property does not say WHICH panic (abs of MIN, a product, a division by zero) comes
    // first: only "some panic" vs the returned value is compared with the checked model
    if raw.starts_with("panic:") {
        return out1("panic");
    }
    out1(&raw)
}

// ---------------------------------------------------------------- generators
const BIN_OPS: [&str; 6] = ["add", "sub", "mul", "div", "cmp", "eq"];
const ARITH: [&str; 4] = ["add", "sub", "mul", "div"];
const UN_OPS: [&str; 5] = ["new", "neg", "floor", "ceil", "show"];

fn rand_u128(rng: &mut SplitMix64) -> u128 {
    (rng.next_u64() as u128) << 64 | rng.next_u64() as u128
}
/// uniform in [lo, hi] (0 <= lo)
fn range(rng: &mut SplitMix64, lo: i128, hi: i128) -> i128 {
    if hi <= lo {
        return lo;
    }
    let span = (hi - lo) as u128 + 1;
    lo + (rand_u128(rng) % span) as i128
}
/// boundary-biased magnitude in [0, lim]
fn magnitude(rng: &mut SplitMix64, lim: i128) -> i128 {
    let bits = 128 - (lim as u128).leading_zeros() as u64; // lim < 2^bits
    let v: i128 = match rng.below(10) {
        0 => 0,
        1 => 1,
        2 => lim - rng.below(3) as i128,
        3 => 1i128 << rng.below(bits),
        4 => (1i128 << rng.below(bits)) - 1,
        5 => (1i128 << rng.below(bits)) + 1,
        6 => rng.below(20) as i128,
        7 => {
            // product of two small-ish factors
            let f = rng.below(1 << 12) as i128 + 1;
            f * (rng.below(1 << 12) as i128)
        }
        _ => {
            let r = ((rng.next_u64() as u128) << 64 | rng.next_u64() as u128) >> (128 - rng.below(bits) - 1);
            r as i128
        }
    };
    v.clamp(0, lim)
}
fn signed(rng: &mut SplitMix64, v: i128) -> i128 {
    if rng.chance(1, 2) {
        -v
    } else {
        v
    }
}
fn nonzero(v: i128) -> i128 {
    if v == 0 {
        1
    } else {
        v
    }
}
/// magnitude in [1, lim], log-uniform: every size class of operand is equally likely
fn log_uniform(rng: &mut SplitMix64, lim: i128) -> i128 {
    let bits = 128 - (lim as u128).leading_zeros() as u64;
    let hi = ((1u128 << (rng.below(bits) + 1)) - 1).min(lim as u128) as i128;
    range(rng, (hi / 2).max(1), hi)
}
/// the closest value to `a` (towards zero) that is coprime to `b`
fn coprime_towards_zero(mut a: i128, b: i128) -> i128 {
    let mut budget = 64;
    while budget > 0 && a != 0 && euclid(a, b) != 1 {
        a -= a.signum();
        budget -= 1;
    }
    a
}

/// number of `a %= b; swap` rounds rlib's gcd loop performs on (|n|, |d|)
fn euclid_rounds(n: i128, d: i128) -> u32 {
    let (mut a, mut b) = (n.unsigned_abs(), d.unsigned_abs());
    let mut k = 0;
    while b != 0 {
        let t = a % b;
        a = b;
        b = t;
        k += 1;
    }
    k
}
/// the (numerator, denominator) handed to `norm` by a binary operator on canonical x = a/b, y = c/d (None: leaves i128)
fn norm_input(op: &str, v: &[i128]) -> Option<(i128, i128)> {
    if v.len() != 4 || v[1] == 0 || v[3] == 0 || v.iter().any(|z| *z == i128::MIN) {
        return None;
    }
    let (a, b) = canon(v[0], v[1]);
    let (c, d) = canon(v[2], v[3]);
    match op {
        "add" => Some((a.checked_mul(d)?.checked_add(b.checked_mul(c)?)?, b.checked_mul(d)?)),
        "sub" | "cmp" => Some((a.checked_mul(d)?.checked_sub(b.checked_mul(c)?)?, b.checked_mul(d)?)),
        "mul" => Some((a.checked_mul(c)?, b.checked_mul(d)?)),
        "div" => Some((a.checked_mul(d)?, b.checked_mul(c)?)),
        _ => None,
    }
}
/// record how deep the Euclid loop inside `norm` has to go for this case (64 is where a capped loop would stop)
fn note_depth(st: &mut Stats, op: &str, ty: &str, v: &[i128]) {
    let r = if v.len() == 2 { Some(euclid_rounds(v[0], v[1])) } else { norm_input(op, v).map(|(n, d)| euclid_rounds(n, d)) };
    if let Some(r) = r {
        let bucket = if r >= 65 { "65plus" } else if r >= 33 { "33to64" } else { "upto32" };
        st.bump(&format!("euclid_rounds_{}_{}", bucket, ty));
        if r >= 65 {
            st.bump(&format!("euclid_rounds_65plus_op_{}", op));
        }
    }
    if (op == "cmp" || op == "eq") && v.len() == 4 && v[1] != 0 && v[3] != 0 && v.iter().all(|z| *z != i128::MIN) && canon(v[0], v[1]) == canon(v[2], v[3]) {
        st.bump(&format!("{}_on_equal_values_{}", op, ty));
    }
}
/// what an edge-stream case exercises, MEASURED on the emitted line (not assumed from the recipe)
fn note_edge(st: &mut Stats, line: &str) {
    let c = match analyse(line) {
        Some(c) => c,
        None => return,
    };
    let (op, ty) = (c.op.as_str(), c.ty.as_str());
    st.bump(&format!("edge_{}_{}", if c.in_dom { "in_domain" } else { "outside_domain" }, ty));
    if !c.in_dom {
        return;
    }
    st.bump(&format!("edge_in_domain_op_{}", op));
    let m = ty_max(ty);
    let above_guard = c.nums.iter().any(|z| z.unsigned_abs() > guard(ty) as u128);
    if above_guard {
        st.bump(&format!("edge_in_domain_operand_above_guard_{}", ty));
        st.bump(&format!("edge_in_domain_operand_above_guard_op_{}", op));
    }
    if let Some((n, d)) = norm_input(op, &c.nums) {
        let top = |z: i128| z.unsigned_abs() > (m / 2) as u128;
        if top(n) || top(d) {
            st.bump(&format!("edge_norm_operand_in_top_bit_{}", ty));
        }
        if top(n) && top(d) {
            // both arguments of the gcd inside `norm` above MAX/2: its first remainder is above MAX/2 as well
            st.bump(&format!("edge_gcd_operands_both_in_top_bit_{}", ty));
            st.bump(&format!("edge_gcd_operands_both_in_top_bit_op_{}", op));
        }
    }
    if op == "eq" && c.nums.len() == 4 {
        let (x, y) = (canon(c.nums[0], c.nums[1]), canon(c.nums[2], c.nums[3]));
        if x != y && !dom_bin("cmp", ty, x, y) {
            // == must answer although the comparison of the same two values would overflow
            st.bump(&format!("eq_where_cmp_would_overflow_{}", ty));
        }
    }
}
/// Fibonacci and Lucas numbers not exceeding `lim`
fn fib_lucas(lim: i128) -> (Vec<i128>, Vec<i128>) {
    let (mut f, mut l) = (vec![0i128, 1], vec![2i128, 1]);
    loop {
        let k = l.len();
        let nl = l[k - 1] + l[k - 2];
        if nl > lim {
            break;
        }
        l.push(nl);
        f.push(f[k - 1] + f[k - 2]);
    }
    (f, l)
}

/// One case at the true edge of `ty`: the operands are chosen so that the cross products / sums the operator forms land
/// in the top bits of the type (just inside and just outside the domain), or - for ==, Hash, neg, floor, ceil, Display,
/// new_int, whose domain is everything representable - anywhere up to MAX.
fn edge_case(rng: &mut SplitMix64, ty: &str) -> String {
    let m = ty_max(ty);
    // a denominator pair with b*d <= MAX, the product preferably in the top bits
    let bd = |rng: &mut SplitMix64| -> (i128, i128) {
        let b = log_uniform(rng, m);
        let top = m / b;
        let d = match rng.below(4) {
            0 => top - (rng.below(3) as i128).min(top - 1),
            1 => range(rng, (top / 2).max(1), top),
            2 => log_uniform(rng, top.max(1)),
            _ => range(rng, 1, top),
        };
        if rng.chance(1, 2) { (b, d.max(1)) } else { (d.max(1), b) }
    };
    let spell = |rng: &mut SplitMix64, a: i128, b: i128| -> (i128, i128) {
        // the same value with a negative denominator half of the time
        if rng.chance(1, 2) { (-a, -b) } else { (a, b) }
    };
    match rng.below(12) {
        0 | 1 | 2 | 3 => {
            // + - cmp: a*d (+-) b*c close to MAX with b*d <= MAX
            let op = *rng.pick(&["add", "sub", "cmp", "add", "sub", "cmp", "eq"]);
            let (b, d) = bd(rng);
            let target = match rng.below(4) {
                0 => m - rng.below(3) as i128,
                1 => range(rng, m / 2, m),
                2 => range(rng, m / 4, m / 2 + 2),
                _ => m.saturating_add(1 + rng.below(2) as i128), // just outside (the magnitude of MIN and beyond)
            };
            let (a, c) = match rng.below(3) {
                0 => {
                    // both products positive, their sum at the target
                    let p1 = range(rng, 0, target.min(m));
                    let a = p1 / d;
                    (a, (target - a * d) / b)
                }
                1 => {
                    // each product near +-MAX, the combination small
                    let a = m / d - (rng.below(2) as i128).min(m / d);
                    (a, -(m / b - (rng.below(2) as i128).min(m / b)))
                }
                _ => (range(rng, 0, m / d), range(rng, 0, m / b)),
            };
            let (a, c) = (coprime_towards_zero(a.clamp(-m, m), b), coprime_towards_zero(c.clamp(-m, m), d));
            // x + y, or x - (-y), or x cmp (-y): the products add up in magnitude
            let (a, c) = match op {
                "add" => if rng.chance(1, 2) { (a, c) } else { (-a, -c) },
                _ => if rng.chance(1, 2) { (a, -c) } else { (-a, c) },
            };
            let ((a, b), (c, d)) = (spell(rng, a, b), spell(rng, c, d));
            format!("{}:{} {} {} {} {}", op, ty, a, b, c, d)
        }
        4 | 5 => {
            // * and /: both products of the operator close to MAX
            let op = *rng.pick(&["mul", "div"]);
            let (p, q) = bd(rng); // p*q <= MAX
            let (r, s) = bd(rng); // r*s <= MAX
            // mul: a*c = p*q, b*d = r*s;  div: a*d = p*q, b*c = r*s
            let (a, b, c, d) = if op == "mul" { (p, r, q, s) } else { (p, r, s, q) };
            let (a, c) = (coprime_towards_zero(a, b), coprime_towards_zero(c, d));
            let (a, c) = (signed(rng, a), signed(rng, c));
            let ((a, b), (c, d)) = (spell(rng, a, b), spell(rng, c, d));
            format!("{}:{} {} {} {} {}", op, ty, a, b, c, d)
        }
        6 | 7 => {
            // == / Hash between representable values of any size: no product is requested, nothing may overflow
            let pick = |rng: &mut SplitMix64| -> i128 {
                match rng.below(4) {
                    0 => m - rng.below(4) as i128,
                    1 => log_uniform(rng, m),
                    2 => range(rng, 1, m),
                    _ => (isqrt(m) + rng.below(5) as i128 - 2).max(1),
                }
            };
            let (a, b) = (pick(rng), pick(rng));
            let (c, d) = match rng.below(5) {
                0 => (a, b),
                1 => (a, b.saturating_add(signed(rng, 1)).clamp(1, m)),
                2 => (a.saturating_add(signed(rng, 1)).clamp(1, m), b),
                3 => (b, a),
                _ => (pick(rng), pick(rng)),
            };
            let (a, c) = (signed(rng, a), signed(rng, c));
            let ((a, b), (c, d)) = (spell(rng, a, b), spell(rng, c, d));
            format!("{}:{} {} {} {} {}", if rng.chance(5, 6) { "eq" } else { "cmp" }, ty, a, b, c, d)
        }
        8 | 9 => {
            // floor / ceil where the adjusted numerator a -+ (b - 1) reaches the end of the type; new / neg / show anywhere
            let op = *rng.pick(&["floor", "ceil", "floor", "ceil", "new", "neg", "show"]);
            let b = match rng.below(3) {
                0 => 1 + rng.below(4) as i128,
                1 => log_uniform(rng, m),
                _ => range(rng, 1, m),
            };
            let a = match rng.below(4) {
                // floor: a - b = MIN exactly at delta 0 (the last input inside the domain)
                0 | 1 => (-m).saturating_add(b - 3).saturating_add(rng.below(5) as i128).clamp(-m, m),
                2 => m - rng.below(3) as i128,
                _ => { let v = range(rng, 0, m); signed(rng, v) }
            };
            let a = if op == "ceil" { -a } else { a };
            let a = coprime_towards_zero(a, b);
            let (a, b) = spell(rng, a, b);
            format!("{}:{} {} {}", op, ty, a, b)
        }
        10 => {
            let n = match rng.below(4) {
                0 => -m - 1,
                1 => -m + rng.below(2) as i128,
                2 => m - rng.below(2) as i128,
                _ => { let v = range(rng, 0, m); signed(rng, v) }
            };
            format!("newint:{} {}", ty, n)
        }
        _ => {
            // a returned value re-used: (x op1 y) op2 z with the second step at the edge
            let (op1, op2) = (*rng.pick(&ARITH), *rng.pick(&ARITH));
            if rng.chance(1, 2) {
                // every component around the fourth root of MAX: both steps inside the domain, the second one close to its edge
                let r = isqrt(isqrt(m)).max(2);
                let pick = |rng: &mut SplitMix64| -> i128 { range(rng, (r / 2).max(1), r + r / 2) };
                let (b, d, f) = (pick(rng), pick(rng), pick(rng));
                let (a, c, e) = (coprime_towards_zero(pick(rng), b), coprime_towards_zero(pick(rng), d), coprime_towards_zero(pick(rng), f));
                let (a, c, e) = (signed(rng, a), signed(rng, c), signed(rng, e));
                return format!("chain:{} {} {} {} {} {} {} {} {}", ty, op1, op2, a, b, c, d, e, f);
            }
            let (b, d) = bd(rng);
            let (a, c) = (range(rng, 0, m / d), range(rng, 0, m / b));
            let (a, c) = (signed(rng, coprime_towards_zero(a, b)), signed(rng, coprime_towards_zero(c, d)));
            let f = log_uniform(rng, (isqrt(m)).max(1));
            let e = { let v = coprime_towards_zero(log_uniform(rng, (isqrt(m)).max(1)), f); signed(rng, v) };
            format!("chain:{} {} {} {} {} {} {} {} {}", ty, op1, op2, a, b, c, d, e, f)
        }
    }
}
fn isqrt(n: i128) -> i128 {
    if n < 2 {
        return n;
    }
    let mut x = (n as f64).sqrt() as i128;
    while x.checked_mul(x).map_or(true, |v| v > n) {
        x -= 1;
    }
    while (x + 1).checked_mul(x + 1).map_or(false, |v| v <= n) {
        x += 1;
    }
    x
}

/// several values whose pairwise comparisons are all inside the domain of `ty` (denominators and numerators below sqrt(MAX)/2,
/// or values at the edge that happen to be pairwise comparable); duplicates and equal values spelled differently included
fn sort_case(rng: &mut SplitMix64, ty: &str) -> String {
    let m = ty_max(ty);
    let lim = match rng.below(3) {
        0 => (isqrt(m / 2)).max(1),
        1 => (isqrt(isqrt(m))).max(2),
        _ => 9.min(isqrt(m / 2)).max(1),
    };
    let n = 2 + rng.below(6) as usize;
    let mut v: Vec<Fr> = Vec::new();
    while v.len() < n {
        if !v.is_empty() && rng.chance(1, 4) {
            // an equal value, possibly spelled differently
            let (a, b) = v[rng.below(v.len() as u64) as usize];
            let k = { let v = 1 + rng.below(3) as i128; signed(rng, v) };
            if mag_ok(ty, a.checked_mul(k)) && mag_ok(ty, b.checked_mul(k)) {
                v.push((a * k, b * k));
                continue;
            }
        }
        let b = range(rng, 1, lim);
        let a = { let v = range(rng, 0, lim); signed(rng, v) };
        let (a, b) = if rng.chance(1, 3) { (-a, -b) } else { (a, b) };
        v.push((a, b));
    }
    format!("sort:{} {}", ty, v.iter().map(|p| format!("{} {}", p.0, p.1)).collect::<Vec<_>>().join(" "))
}

fn gen(args: &Args, emit: &mut dyn FnMut(String), st: &mut Stats) {
    let thorough = args.tier == "thorough";
    // the debug profile (debug-assertions on) re-runs a reduced stream: same families, about a quarter of the volume
    let lite = args.extra.get("profile").map_or(false, |p| p == "debug");
    let mut rng = SplitMix64::new(args.seed ^ 0xC07);
    // (1) exhaustive small box: every a/b, c/d with numerators in [-k,k] and denominators in [-k,k] \ {0}
    for ty in TYPES {
        let main3 = ["i32", "i64", "i128"].contains(&ty);
        let k: i64 = if lite {
            2
        } else if thorough {
            if main3 { 8 } else { 6 }
        } else if ty == "i64" {
            6
        } else if main3 {
            4
        } else {
            3
        };
        let mut fracs = Vec::new();
        for a in -k..=k {
            for b in -k..=k {
                if b != 0 {
                    fracs.push((a, b));
                }
            }
        }
        emit(format!("consts:{}", ty));
        st.bump("consts");
        for n in -4 * k..=4 * k {
            emit(format!("newint:{} {}", ty, n));
            st.bump(&format!("box_newint_{}", ty));
        }
        for &(a, b) in &fracs {
            for op in UN_OPS {
                emit(format!("{}:{} {} {}", op, ty, a, b));
                st.bump(&format!("box_{}_{}", op, ty));
            }
            for &(c, d) in &fracs {
                for op in BIN_OPS {
                    emit(format!("{}:{} {} {} {} {}", op, ty, a, b, c, d));
                    note_depth(st, op, ty, &[a as i128, b as i128, c as i128, d as i128]);
                }
                st.add(&format!("box_binary_{}", ty), BIN_OPS.len() as u64);
                if c == 0 {
                    st.bump("box_div_by_zero_value(out of domain)");
                }
            }
        }
    }
    // (1b) i8: every pair of canonical fractions whose cross products all fit (b*d, |a*d|, |b*c| <= 127) - the whole
    //      neighbourhood of the overflow threshold of the narrowest type, sampled 1/3 in thorough and 1/50 in quick
    {
        let keep: u64 = if lite { 200 } else if thorough { 3 } else { 50 };
        for b in 1..=127i128 {
            for d in 1..=127 / b {
                for a in -(127 / d)..=127 / d {
                    if euclid(a, b) != 1 {
                        continue;
                    }
                    for c in -(127 / b)..=127 / b {
                        if euclid(c, d) != 1 || rng.below(keep) != 0 {
                            continue;
                        }
                        let op = *rng.pick(&["add", "sub", "mul", "div", "cmp", "add", "sub", "cmp"]);
                        let line = format!("{}:i8 {} {} {} {}", op, a, b, c, d);
                        note_edge(st, &line);
                        emit(line);
                        st.bump("i8_threshold_neighbourhood");
                    }
                }
            }
        }
    }
    // (2) boundary-biased sampling up to the guard of each type
    let n = if lite { 12_000 } else if thorough { 2_000_000 } else { 66_000 };
    for i in 0..n {
        let ty = GUARD_TYPES[(i % 4) as usize];
        let g = guard(ty);
        let mut a = { let v = magnitude(&mut rng, g); signed(&mut rng, v) };
        let mut b = { let v = nonzero(magnitude(&mut rng, g)); signed(&mut rng, v) };
        let mut c = { let v = magnitude(&mut rng, g); signed(&mut rng, v) };
        let mut d = { let v = nonzero(magnitude(&mut rng, g)); signed(&mut rng, v) };
        let mut kind = "plain";
        let mut forced_op: Option<&str> = None;
        match rng.below(8) {
            4 | 5 => {
                // Fibonacci / Lucas ratios: F(m)L(n) + F(n)L(m) = 2F(m+n), F(n)L(n) = F(2n), so the cross products that
                // `norm` receives are (near-)consecutive Fibonacci numbers of twice the index: the Euclid loop needs
                // about 2n rounds (up to ~80 for i64 inside the 2^30 guard, ~170 for i128) although every operand is
                // inside the guard and every operand fraction is already in lowest terms
                let (f, l) = fib_lucas(g);
                let nmax = l.len() - 1;
                let n = nmax - rng.below(10.min(nmax as u64 - 2)) as usize;
                let op = *rng.pick(&["mul", "div", "add", "sub", "cmp", "eq", "new"]);
                // for + - cmp ==: n = 1 (mod 3) makes F(n-1), L(n-1) even, and
                // (F(n-1)/2)/F(n) + (L(n-1)/2)/L(n) has cross products F(2n-1) over F(2n): 2n-2 Euclid rounds
                let n3 = n - (n + 2) % 3;
                let (xa, xb, ya, yb) = match op {
                    "mul" => (f[n], f[n - 1], l[n], l[n - 1]),
                    "div" => (f[n], f[n - 1], l[n - 1], l[n]),
                    "add" => (f[n3 - 1] / 2, f[n3], l[n3 - 1] / 2, l[n3]),
                    "new" => (f[n], f[n - 1], 1, 1),
                    _ => (f[n3 - 1] / 2, f[n3], -l[n3 - 1] / 2, l[n3]),
                };
                // either sign of the denominators (value unchanged)
                let (sx, sy) = (if rng.chance(1, 2) { -1 } else { 1 }, if rng.chance(1, 2) { -1 } else { 1 });
                a = xa * sx;
                b = xb * sx;
                c = ya * sy;
                d = yb * sy;
                forced_op = Some(op);
                kind = "fibonacci_ratio";
            }
            0 => {
                // a factor shared across the two fractions (a with d, b with c) and inside each
                let f = rng.below(1 << 10) as i128 + 2;
                a = a / f * f;
                d = nonzero(d / f * f);
                if rng.chance(1, 2) {
                    b = nonzero(b / f * f);
                    c = c / f * f;
                }
                kind = "shared_factor";
            }
            1 => {
                // equal values written differently: c/d = (a*k)/(b*k) when it stays inside the guard
                let k = { let v = rng.below(64) as i128 + 1; signed(&mut rng, v) };
                if (a * k).abs() <= g && (b * k).abs() <= g {
                    c = a * k;
                    d = b * k;
                    kind = "equal_value";
                }
            }
            2 => {
                // neighbours: c/d differs from a/b by one unit in the numerator
                c = (a + signed(&mut rng, 1)).clamp(-g, g);
                d = b;
                kind = "neighbour";
            }
            3 => {
                // integers (denominator ±1 or dividing the numerator)
                if rng.chance(1, 2) {
                    b = signed(&mut rng, 1);
                } else {
                    let q = rng.below(1 << 10) as i128 + 1;
                    b = signed(&mut rng, q);
                    a = a / q * q;
                }
                kind = "integer_valued";
            }
            _ => {}
        }
        st.bump(&format!("sampled_{}", kind));
        if let Some(op) = forced_op {
            if op == "new" {
                emit(format!("new:{} {} {}", ty, a, b));
                note_depth(st, op, ty, &[a, b]);
            } else {
                emit(format!("{}:{} {} {} {} {}", op, ty, a, b, c, d));
                note_depth(st, op, ty, &[a, b, c, d]);
            }
            st.bump(&format!("sampled_{}_{}", op, ty));
            continue;
        }
        if rng.chance(1, 20) {
            emit(format!("newint:{} {}", ty, a));
            st.bump(&format!("sampled_newint_{}", ty));
        } else if rng.chance(1, 4) {
            let op = *rng.pick(&UN_OPS);
            note_depth(st, op, ty, &[a, b]);
            emit(format!("{}:{} {} {}", op, ty, a, b));
            st.bump(&format!("sampled_{}_{}", op, ty));
            if a < 0 {
                st.bump("sampled_unary_negative_value_numerator");
            }
            if b < 0 {
                st.bump("sampled_negative_denominator");
            }
        } else if rng.chance(1, 12) {
            // a returned value re-used as an operand
            let (op1, op2) = (*rng.pick(&ARITH), *rng.pick(&ARITH));
            let r = isqrt(isqrt(ty_max(ty)));
            let small = |rng: &mut SplitMix64| -> i128 { let v = magnitude(rng, r); signed(rng, v) };
            let (a, b, c, d, e, f) = (small(&mut rng), nonzero(small(&mut rng)), small(&mut rng), nonzero(small(&mut rng)), small(&mut rng), nonzero(small(&mut rng)));
            emit(format!("chain:{} {} {} {} {} {} {} {} {}", ty, op1, op2, a, b, c, d, e, f));
            st.bump(&format!("sampled_chain_{}", ty));
        } else {
            let op = *rng.pick(&BIN_OPS);
            emit(format!("{}:{} {} {} {} {}", op, ty, a, b, c, d));
            note_depth(st, op, ty, &[a, b, c, d]);
            st.bump(&format!("sampled_{}_{}", op, ty));
            if b < 0 || d < 0 {
                st.bump("sampled_negative_denominator");
            }
        }
    }
    // (2b) the true edge of every type: cross products in the top bits, just inside and just outside the domain;
    //      ==, Hash, neg, floor, ceil, Display, new_int anywhere up to MAX
    let n = if lite { 8_000 } else if thorough { 900_000 } else { 36_000 };
    for i in 0..n {
        let ty = TYPES[(i % 6) as usize];
        let line = edge_case(&mut rng, ty);
        note_edge(st, &line);
        st.bump(&format!("edge_stream_{}", line.split(':').next().unwrap_or("?")));
        emit(line);
    }
    // (2c) several live values: sort / BTreeSet / HashSet / binary_search / min / max / clamp / slice hash / clones
    let n = if lite { 1_500 } else if thorough { 120_000 } else { 6_000 };
    for i in 0..n {
        let ty = TYPES[(i % 6) as usize];
        let line = sort_case(&mut rng, ty);
        let ok = analyse(&line).map_or(false, |c| c.in_dom);
        st.bump(if ok { "sort_in_domain" } else { "sort_outside_domain" });
        emit(line);
    }
    // (3) a small stream outside the domain (up to the limits of the type): the property does not constrain the
    //     result there (`S any`), but the machine model mirrors overflow panics, so raw results are still compared
    let n = if lite { 600 } else if thorough { 60_000 } else { 3_000 };
    for i in 0..n {
        let ty = TYPES[(i % 6) as usize];
        let m = ty_max(ty);
        let a = { let v = magnitude(&mut rng, m); signed(&mut rng, v) };
        let b = { let v = magnitude(&mut rng, m); signed(&mut rng, v) };
        let c = { let v = magnitude(&mut rng, m); signed(&mut rng, v) };
        let d = { let v = magnitude(&mut rng, m); signed(&mut rng, v) };
        if rng.chance(1, 4) {
            let op = *rng.pick(&UN_OPS);
            emit(format!("{}:{} {} {}", op, ty, a, b));
        } else {
            let op = *rng.pick(&BIN_OPS);
            emit(format!("{}:{} {} {} {} {}", op, ty, a, b, c, d));
        }
        st.bump("whole_range_stream");
    }
    // minimum of the type and zero denominators (panics mirrored by the model)
    for ty in TYPES {
        let mn = -ty_max(ty) - 1;
        for (a, b) in [(mn, 1), (1, mn), (mn, mn), (0, 0), (5, 0), (-5, 0), (0, -7)] {
            for op in UN_OPS {
                emit(format!("{}:{} {} {}", op, ty, a, b));
                st.bump("min_and_zero_probes");
            }
        }
        for n in [mn, mn + 1, ty_max(ty), 0] {
            emit(format!("newint:{} {}", ty, n));
            st.bump("min_and_zero_probes");
        }
        for op in BIN_OPS {
            emit(format!("{}:{} 1 2 0 0", op, ty));
            emit(format!("{}:{} 1 0 1 2", op, ty));
            emit(format!("{}:{} 0 5 0 -3", op, ty));
            st.add("min_and_zero_probes", 3);
        }
        emit(format!("sort:{} 1 2 {} 1 -1 3", ty, mn));
        emit(format!("chain:{} add mul 1 2 1 0 1 3", ty));
        st.add("min_and_zero_probes", 2);
    }
}

fn main() {
    cli(gen, run_case);
}
