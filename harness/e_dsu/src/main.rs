//! Correspondence harness for engine `dsu` (property C05): drives rlib_dsu::DSU through its public API
//! (`new`, `reset`, `par`, `un`, `check`, `size`, `Clone::clone`, `Clone::clone_from`, `Debug`) on histories `n0 [flags] ; op ; op ; …`
//! that work on two live structures (current / saved) and, with the flag `dk`, on three decoy structures in between.
//! Case / token forms: see lean/Driver/Dsu.lean.  The parent forest is read WITHOUT hooks by parsing
//! `format!("{:?}", dsu.clone())`.
#[path = "../../common/mod.rs"]
mod common;
use common::*;
use rlib_dsu::DSU;

const FNV_INIT: u64 = 0xcbf29ce484222325;
#[inline]
fn fnv(h: u64, x: u64) -> u64 {
    (h ^ x).wrapping_mul(0x100000001b3)
}

/// Independent oracle: the partition as labels + member lists (relabel the smaller class), and the
/// representative reported for each class since its last real union.
#[derive(Clone)]
struct Oracle {
    n: usize,
    label: Vec<usize>,
    members: Vec<Vec<usize>>,
    reps: Vec<Option<usize>>,
}

impl Oracle {
    fn new(n: usize) -> Self {
        Oracle { n, label: (0..n).collect(), members: (0..n).map(|i| vec![i]).collect(), reps: vec![None; n] }
    }
    fn conn(&self, u: usize, v: usize) -> bool {
        self.label[u] == self.label[v]
    }
    fn size(&self, v: usize) -> usize {
        self.members[self.label[v]].len()
    }
    fn union(&mut self, u: usize, v: usize) -> bool {
        let (a, b) = (self.label[u], self.label[v]);
        if a == b {
            return false;
        }
        let (small, big) = if self.members[a].len() <= self.members[b].len() { (a, b) } else { (b, a) };
        let moved = std::mem::take(&mut self.members[small]);
        for &x in &moved {
            self.label[x] = big;
        }
        self.members[big].extend(moved);
        self.reps[a] = None;
        self.reps[b] = None;
        true
    }
    /// is `r` an acceptable answer of `par(v)`?  (member of the class, equal to the recorded one)
    fn rep(&mut self, v: usize, r: usize) -> bool {
        let l = self.label[v];
        let ok = r < self.n && self.label[r] == l && self.reps[l].map_or(true, |r0| r0 == r);
        self.reps[l] = Some(r);
        ok
    }
}

struct Tok {
    raw: String,
    view: String,
}
/// an argument is out of range: the property says nothing (view `ood`), raw keeps what the implementation did
fn ood(raw: &str) -> Tok {
    Tok { raw: raw.to_string(), view: "ood".to_string() }
}
fn res_str<T: ToString>(r: Result<T, String>) -> String {
    match r {
        Ok(_) => "no-panic".to_string(),
        Err(e) => e,
    }
}
fn tok1(s: &str) -> Tok {
    Tok { raw: s.to_string(), view: s.to_string() }
}
fn show_b(b: bool) -> &'static str {
    if b {
        "t"
    } else {
        "f"
    }
}

/// A value of a derived `Debug` text: numbers, lists, structs / tuple structs (names are kept for fields only).
enum Val {
    Num(usize),
    List(Vec<Val>),
    Struct(Vec<(String, Val)>),
    Other,
}

struct DbgParser<'a> {
    b: &'a [u8],
    i: usize,
}

impl<'a> DbgParser<'a> {
    fn ws(&mut self) {
        while self.i < self.b.len() && (self.b[self.i] == b' ' || self.b[self.i] == b'\n') {
            self.i += 1;
        }
    }
    fn ident(&mut self) -> String {
        let st = self.i;
        while self.i < self.b.len() && (self.b[self.i].is_ascii_alphanumeric() || self.b[self.i] == b'_') {
            self.i += 1;
        }
        String::from_utf8_lossy(&self.b[st..self.i]).to_string()
    }
    fn value(&mut self, depth: usize) -> Option<Val> {
        if depth > 8 {
            return None;
        }
        self.ws();
        let c = *self.b.get(self.i)?;
        if c.is_ascii_digit() {
            let st = self.i;
            while self.i < self.b.len() && self.b[self.i].is_ascii_digit() {
                self.i += 1;
            }
            return std::str::from_utf8(&self.b[st..self.i]).ok()?.parse().ok().map(Val::Num);
        }
        if c == b'[' {
            self.i += 1;
            let mut v = Vec::new();
            loop {
                self.ws();
                if *self.b.get(self.i)? == b']' {
                    self.i += 1;
                    return Some(Val::List(v));
                }
                v.push(self.value(depth + 1)?);
                self.ws();
                if *self.b.get(self.i)? == b',' {
                    self.i += 1;
                }
            }
        }
        if c.is_ascii_alphabetic() || c == b'_' || c == b'(' {
            let _name = if c == b'(' { String::new() } else { self.ident() };
            self.ws();
            match self.b.get(self.i) {
                Some(b'{') => {
                    self.i += 1;
                    let mut fields = Vec::new();
                    loop {
                        self.ws();
                        if *self.b.get(self.i)? == b'}' {
                            self.i += 1;
                            return Some(Val::Struct(fields));
                        }
                        let f = self.ident();
                        self.ws();
                        if *self.b.get(self.i)? != b':' {
                            return None;
                        }
                        self.i += 1;
                        let v = self.value(depth + 1)?;
                        fields.push((f, v));
                        self.ws();
                        if *self.b.get(self.i)? == b',' {
                            self.i += 1;
                        }
                    }
                }
                Some(b'(') => {
                    self.i += 1;
                    let mut fields = Vec::new();
                    loop {
                        self.ws();
                        if *self.b.get(self.i)? == b')' {
                            self.i += 1;
                            return Some(Val::Struct(fields));
                        }
                        let v = self.value(depth + 1)?;
                        fields.push((fields.len().to_string(), v));
                        self.ws();
                        if *self.b.get(self.i)? == b',' {
                            self.i += 1;
                        }
                    }
                }
                _ => return Some(Val::Other), // unit-like name (`None`, `true`, …)
            }
        }
        None
    }
}

/// all integer "columns" of length-n data reachable from the top-level struct: a field that is a list of numbers, or each
/// numeric field of a field that is a list of equal-shaped structs
fn columns(v: &Val) -> Vec<Vec<usize>> {
    let mut cols = Vec::new();
    if let Val::Struct(fields) = v {
        for (_, f) in fields {
            if let Val::List(items) = f {
                if items.iter().all(|x| matches!(x, Val::Num(_))) {
                    cols.push(items.iter().map(|x| if let Val::Num(k) = x { *k } else { 0 }).collect());
                } else if let Some(Val::Struct(first)) = items.first() {
                    let k = first.len();
                    let ok = items.iter().all(|x| matches!(x, Val::Struct(fs) if fs.len() == k));
                    if ok {
                        for c in 0..k {
                            let col: Option<Vec<usize>> = items
                                .iter()
                                .map(|x| match x {
                                    Val::Struct(fs) => match fs[c].1 {
                                        Val::Num(z) => Some(z),
                                        _ => None,
                                    },
                                    _ => None,
                                })
                                .collect();
                            if let Some(col) = col {
                                cols.push(col);
                            }
                        }
                    }
                }
            }
        }
    }
    cols
}

/// is (parent, size) a forest on n = len vertices whose root sizes add up to n?
fn valid_forest(p: &[usize], sz: &[usize]) -> bool {
    if p.len() != sz.len() {
        return false;
    }
    match depths(p) {
        None => false,
        Some(_) => {
            let total: usize = (0..p.len()).filter(|&r| p[r] == r).map(|r| sz[r]).sum();
            total == p.len()
        }
    }
}

/// Recover the parent forest and the sizes from the derived `Debug` text of the structure, whatever its private layout is,
/// as long as there are a parent-like and a size-like integer column (two vectors, or one vector of two-field structs, …):
/// every ordered pair of columns is tried (declaration order first) and the first one that is a valid forest is taken.
/// `None` = the forest is not observable without hooks.
fn parse_debug(s: &str) -> Option<(Vec<usize>, Vec<usize>)> {
    let mut ps = DbgParser { b: s.as_bytes(), i: 0 };
    let v = ps.value(0)?;
    let cols = columns(&v);
    // an empty structure prints empty lists: nothing to recover, and nothing to measure
    if !cols.is_empty() && cols.iter().all(|c| c.is_empty()) {
        return Some((vec![], vec![]));
    }
    for a in 0..cols.len() {
        for b in 0..cols.len() {
            if a != b && valid_forest(&cols[a], &cols[b]) {
                return Some((cols[a].clone(), cols[b].clone()));
            }
        }
    }
    None
}

/// depth of every vertex in O(n) (memoised along paths); `None` if the parent pointers contain a cycle / escape
fn depths(p: &[usize]) -> Option<(Vec<u32>, Vec<usize>)> {
    let n = p.len();
    let mut depth = vec![u32::MAX; n];
    let mut root = vec![usize::MAX; n];
    let mut stack: Vec<usize> = Vec::new();
    for v in 0..n {
        if depth[v] != u32::MAX {
            continue;
        }
        let mut x = v;
        stack.clear();
        loop {
            if x >= n {
                return None;
            }
            if depth[x] != u32::MAX {
                break;
            }
            if p[x] == x {
                depth[x] = 0;
                root[x] = x;
                break;
            }
            stack.push(x);
            if stack.len() > n {
                return None; // cycle
            }
            x = p[x];
        }
        let (mut d, r) = (depth[x], root[x]);
        while let Some(y) = stack.pop() {
            d += 1;
            depth[y] = d;
            root[y] = r;
        }
    }
    Some((depth, root))
}

fn log2_floor(x: usize) -> u32 {
    usize::BITS - 1 - x.leading_zeros()
}

/// (diagnostic text, view, depth violated?).  The view is `depth-ok` also when the forest cannot be recovered from the
/// Debug text (depth is then not observable without hooks; the small-stack runs still check that lookups do not recurse
/// deeply); the diagnostic text then says `depth=unknown`.
fn dump_tok(d: &DSU, oc: &Oracle) -> (String, String, bool) {
    // the structure itself and a clone of it: when the two texts differ, both forests are measured
    let text = format!("{:?}", d);
    let text_clone = format!("{:?}", d.clone());
    let first = dump_text(&text, oc);
    if text_clone == text || first.2 {
        return first;
    }
    let second = dump_text(&text_clone, oc);
    if second.2 {
        return (second.0, format!("{}(clone)", second.1), true);
    }
    first
}

fn dump_text(text: &str, oc: &Oracle) -> (String, String, bool) {
    let (p, sz) = match parse_debug(text) {
        Some(x) => x,
        None => return ("depth=unknown".to_string(), "depth-ok".to_string(), false),
    };
    let n = p.len();
    let (view, dmax) = match depths(&p) {
        None => ("DEPTH!cycle".to_string(), 0),
        Some((depth, root)) => {
            let mut bad = None;
            let mut dmax = 0;
            for v in 0..n {
                dmax = dmax.max(depth[v]);
                // the bound is the cardinality of v's class according to the independent oracle (not the structure's own
                // size field), and the root must be a member of that class
                let z = if v < oc.n { oc.size(v) } else { 0 };
                if bad.is_none() && (z == 0 || depth[v] > log2_floor(z) || !(root[v] < oc.n && oc.conn(v, root[v]))) {
                    bad = Some(format!("DEPTH!v={},d={},size={}", v, depth[v], z));
                }
            }
            (bad.unwrap_or_else(|| "depth-ok".to_string()), dmax)
        }
    };
    let diag = if n <= 64 {
        let j = |v: &[usize]| v.iter().map(|x| x.to_string()).collect::<Vec<_>>().join(",");
        format!("p=[{}]/sz=[{}]/depth={}", j(&p), j(&sz), dmax)
    } else {
        let hp = p.iter().fold(FNV_INIT, |h, &x| fnv(h, x as u64));
        let hs = sz.iter().fold(FNV_INIT, |h, &x| fnv(h, x as u64));
        format!("p#{:016x}/sz#{:016x}/depth={}", hp, hs, dmax)
    };
    let violated = view != "depth-ok";
    (diag, view, violated)
}

fn binom_pairs(lo: usize, hi: usize) -> Vec<(usize, usize)> {
    let mut v = Vec::new();
    let mut step = 1usize;
    while step < hi.saturating_sub(lo) {
        let blocks = (hi - lo) / (2 * step);
        for k in 0..blocks {
            let i = lo + k * 2 * step;
            v.push((i + step - 1, i + 2 * step - 1));
        }
        step *= 2;
    }
    v
}

fn macro_pairs(n: usize, t: &[&str]) -> Option<Vec<(usize, usize)>> {
    let num = |i: usize| -> Option<usize> { t.get(i)?.parse().ok() };
    match (t[0], t.len()) {
        ("chain", 3) => {
            let (a, b) = (num(1)?, num(2)?);
            Some((0..b.saturating_sub(1).saturating_sub(a)).map(|k| (a + k, a + k + 1)).collect())
        }
        ("chainr", 3) => {
            let (a, b) = (num(1)?, num(2)?);
            Some((0..b.saturating_sub(1).saturating_sub(a)).map(|k| (a + k + 1, a + k)).collect())
        }
        ("star", 4) => {
            let (c, a, b) = (num(1)?, num(2)?, num(3)?);
            Some((0..b.saturating_sub(a)).map(|k| (c, a + k)).collect())
        }
        ("starr", 4) => {
            let (c, a, b) = (num(1)?, num(2)?, num(3)?);
            Some((0..b.saturating_sub(a)).map(|k| (a + k, c)).collect())
        }
        ("binom", 3) => Some(binom_pairs(num(1)?, num(2)?)),
        ("rand", 3) => {
            let (seed, cnt) = (t[1].parse::<u64>().ok()?, num(2)?);
            if n == 0 {
                return Some(vec![]);
            }
            let mut r = SplitMix64::new(seed);
            Some((0..cnt).map(|_| ((r.next_u64() % n as u64) as usize, (r.next_u64() % n as u64) as usize)).collect())
        }
        _ => None,
    }
}

struct State {
    cur: DSU,
    saved: DSU,
    n_cur: usize,
    n_saved: usize,
    oc: Oracle,
    os: Oracle,
}

/// Header flag `dk`: further structures of the same type that are alive on the same thread and are used between the
/// operations of the history (own unions, lookups, resets, clones, `clone_from` among themselves, drops and re-creations).
/// They share nothing with the structure under test, so the history's answers must be what they are without them, and the
/// decoys' own answers are checked against their own independent oracles (`DECOY!` in the view otherwise).  Their element
/// counts overlap the small vertex numbers of the history, so state keyed by a vertex number (a process-wide or
/// thread-local cache, a shared scratch buffer) is hit from several objects.
struct Decoys {
    ds: Vec<(DSU, Oracle)>,
    rng: SplitMix64,
    bad: Option<String>,
}

impl Decoys {
    fn new(n0: usize) -> Self {
        let a = n0.clamp(1, 40);
        let sizes = [a, a + 3, (a / 2).max(1)];
        Decoys { ds: sizes.iter().map(|&k| (DSU::new(k), Oracle::new(k))).collect(), rng: SplitMix64::new(0xDEC0 ^ n0 as u64), bad: None }
    }
    fn fail(&mut self, what: &str) {
        if self.bad.is_none() {
            self.bad = Some(format!("DECOY!{}", what));
        }
    }
    /// one pseudo-random operation on one decoy, checked against that decoy's oracle
    fn poke(&mut self) {
        let k = self.rng.below(self.ds.len() as u64) as usize;
        let n = self.ds[k].1.n;
        let what = self.rng.below(100);
        if n == 0 || what < 4 {
            let m = 1 + self.rng.below(44) as usize;
            if self.rng.chance(1, 2) {
                if catch(|| self.ds[k].0.reset(m)).is_err() {
                    return self.fail("reset-panic");
                }
            } else {
                self.ds[k].0 = DSU::new(m); // the old one is dropped here
            }
            self.ds[k].1 = Oracle::new(m);
            return;
        }
        let (u, v) = (self.rng.below(n as u64) as usize, self.rng.below(n as u64) as usize);
        if what < 50 {
            match catch(|| self.ds[k].0.un(u, v)) {
                Err(_) => self.fail("un-panic"),
                Ok(b) => {
                    if b != self.ds[k].1.union(u, v) {
                        self.fail("un");
                    }
                }
            }
        } else if what < 62 {
            match catch(|| self.ds[k].0.check(u, v)) {
                Err(_) => self.fail("check-panic"),
                Ok(b) => {
                    if b != self.ds[k].1.conn(u, v) {
                        self.fail("check");
                    }
                }
            }
        } else if what < 74 {
            match catch(|| self.ds[k].0.size(u)) {
                Err(_) => self.fail("size-panic"),
                Ok(z) => {
                    if z != self.ds[k].1.size(u) {
                        self.fail("size");
                    }
                }
            }
        } else if what < 86 {
            match catch(|| self.ds[k].0.par(u)) {
                Err(_) => self.fail("par-panic"),
                Ok(r) => {
                    if !self.ds[k].1.rep(u, r) {
                        self.fail("par");
                    }
                }
            }
        } else {
            // copy decoy k over decoy j (clone / clone_from onto a used destination of another size)
            let j = (k + 1 + self.rng.below(self.ds.len() as u64 - 1) as usize) % self.ds.len();
            let src = self.ds[k].0.clone();
            if what < 93 {
                self.ds[j].0 = src;
            } else if catch(|| self.ds[j].0.clone_from(&src)).is_err() {
                return self.fail("clone_from-panic");
            }
            self.ds[j].1 = self.ds[k].1.clone();
        }
    }
}

enum Out {
    Tok(Tok),
    Stop(Tok),
    Bad,
}

fn do_op(st: &mut State, t: &[&str]) -> Out {
    let n = st.n_cur;
    let num = |i: usize| -> Option<usize> { t.get(i)?.parse().ok() };
    macro_rules! need {
        ($e:expr) => {
            match $e {
                Some(x) => x,
                None => return Out::Bad,
            }
        };
    }
    match (t[0], t.len()) {
        ("un", 3) => {
            let (u, v) = (need!(num(1)), need!(num(2)));
            if u >= n || v >= n {
                return Out::Stop(ood(&res_str(catch(|| st.cur.un(u, v)))));
            }
            match catch(|| st.cur.un(u, v)) {
                Err(e) => Out::Stop(tok1(&e)),
                Ok(b) => {
                    st.oc.union(u, v);
                    Out::Tok(tok1(show_b(b)))
                }
            }
        }
        ("check", 3) => {
            let (u, v) = (need!(num(1)), need!(num(2)));
            if u >= n || v >= n {
                return Out::Stop(ood(&res_str(catch(|| st.cur.check(u, v)))));
            }
            match catch(|| st.cur.check(u, v)) {
                Err(e) => Out::Stop(tok1(&e)),
                Ok(b) => Out::Tok(tok1(show_b(b))),
            }
        }
        ("size", 2) => {
            let v = need!(num(1));
            if v >= n {
                return Out::Stop(ood(&res_str(catch(|| st.cur.size(v)))));
            }
            match catch(|| st.cur.size(v)) {
                Err(e) => Out::Stop(tok1(&e)),
                Ok(k) => Out::Tok(tok1(&k.to_string())),
            }
        }
        ("par", 2) => {
            let v = need!(num(1));
            if v >= n {
                return Out::Stop(ood(&res_str(catch(|| st.cur.par(v)))));
            }
            match catch(|| st.cur.par(v)) {
                Err(e) => Out::Stop(tok1(&e)),
                Ok(r) => {
                    let ok = st.oc.rep(v, r);
                    Out::Tok(Tok { raw: r.to_string(), view: if ok { "r".into() } else { "R!".into() } })
                }
            }
        }
        ("reset", 2) => {
            let m = need!(num(1));
            match catch(|| st.cur.reset(m)) {
                Err(e) => Out::Stop(tok1(&e)),
                Ok(()) => {
                    st.n_cur = m;
                    st.oc = Oracle::new(m);
                    Out::Tok(tok1("-"))
                }
            }
        }
        ("clone", 1) => {
            st.saved = st.cur.clone();
            st.n_saved = st.n_cur;
            st.os = st.oc.clone();
            Out::Tok(tok1("-"))
        }
        ("clonefrom", 1) => {
            // `Clone::clone_from` onto whatever the saved structure is by now (fresh, used, shorter, longer)
            match catch(|| st.saved.clone_from(&st.cur)) {
                Err(e) => Out::Stop(tok1(&e)),
                Ok(()) => {
                    st.n_saved = st.n_cur;
                    st.os = st.oc.clone();
                    Out::Tok(tok1("-"))
                }
            }
        }
        ("restore", 1) => {
            // roll the current structure back to the snapshot, re-using the current structure's allocations
            match catch(|| st.cur.clone_from(&st.saved)) {
                Err(e) => Out::Stop(tok1(&e)),
                Ok(()) => {
                    st.n_cur = st.n_saved;
                    st.oc = st.os.clone();
                    Out::Tok(tok1("-"))
                }
            }
        }
        ("feed", 2) => {
            // values the API returned are fed back into it: r = par v; check v r; size r; par r; un r v
            let v = need!(num(1));
            if v >= n {
                return Out::Stop(ood(&res_str(catch(|| st.cur.par(v)))));
            }
            macro_rules! call {
                ($e:expr) => {
                    match catch(|| $e) {
                        Err(e) => return Out::Stop(tok1(&e)),
                        Ok(x) => x,
                    }
                };
            }
            let r = call!(st.cur.par(v));
            let ok1 = st.oc.rep(v, r);
            if r >= n {
                return Out::Stop(Tok { raw: r.to_string(), view: "R!".into() });
            }
            let b = call!(st.cur.check(v, r));
            let k = call!(st.cur.size(r));
            let rr = call!(st.cur.par(r));
            let ok4 = st.oc.rep(r, rr);
            let ub = call!(st.cur.un(r, v));
            let rp = |o: bool| if o { "r" } else { "R!" };
            Out::Tok(Tok {
                raw: format!("{}/{}/{}/{}/{}", r, show_b(b), k, rr, show_b(ub)),
                view: format!("{}/{}/{}/{}/{}", rp(ok1), show_b(b), k, rp(ok4), show_b(ub)),
            })
        }
        ("swap", 1) => {
            std::mem::swap(&mut st.cur, &mut st.saved);
            std::mem::swap(&mut st.n_cur, &mut st.n_saved);
            std::mem::swap(&mut st.oc, &mut st.os);
            Out::Tok(tok1("-"))
        }
        ("dump", 1) => {
            // raw is the constant `dump`: the private arrays are not part of the comparison, only the depth predicate is
            let (_diag, view, violated) = dump_tok(&st.cur, &st.oc);
            let tk = Tok { raw: "dump".to_string(), view };
            // a degenerate forest makes everything after it quadratic on the 10^6 runs: report and stop
            if violated && n > 4096 {
                Out::Stop(tk)
            } else {
                Out::Tok(tk)
            }
        }
        ("dumpdiag", 1) => {
            // diagnostic only (used by checks/C05.py::extra, never by the generated stream): arrays / depth as text
            let (diag, _view, _) = dump_tok(&st.cur, &st.oc);
            Out::Tok(Tok { raw: diag, view: "diag".to_string() })
        }
        ("parall", 1) => {
            let mut h = FNV_INIT;
            let mut ok = true;
            for v in 0..n {
                match catch(|| st.cur.par(v)) {
                    Err(e) => return Out::Stop(tok1(&e)),
                    Ok(r) => {
                        h = fnv(h, r as u64);
                        ok &= st.oc.rep(v, r);
                    }
                }
            }
            Out::Tok(Tok { raw: format!("#{:016x}", h), view: if ok { "r".into() } else { "R!".into() } })
        }
        ("sizeall", 1) => {
            let mut h = FNV_INIT;
            for v in 0..n {
                match catch(|| st.cur.size(v)) {
                    Err(e) => return Out::Stop(tok1(&e)),
                    Ok(k) => h = fnv(h, k as u64),
                }
            }
            Out::Tok(tok1(&format!("#{:016x}", h)))
        }
        ("randmix", 3) => {
            let seed: u64 = need!(t[1].parse().ok());
            let cnt = need!(num(2));
            let (mut h_all, mut h_obs, mut ok) = (FNV_INIT, FNV_INIT, true);
            if n > 0 {
                let mut g = SplitMix64::new(seed);
                for _ in 0..cnt {
                    let k = g.next_u64() % 8;
                    let a = (g.next_u64() % n as u64) as usize;
                    let b = (g.next_u64() % n as u64) as usize;
                    if k < 4 {
                        match catch(|| st.cur.un(a, b)) {
                            Err(e) => return Out::Stop(tok1(&e)),
                            Ok(x) => {
                                st.oc.union(a, b);
                                h_all = fnv(h_all, x as u64);
                                h_obs = fnv(h_obs, x as u64);
                            }
                        }
                    } else if k == 4 {
                        match catch(|| st.cur.par(a)) {
                            Err(e) => return Out::Stop(tok1(&e)),
                            Ok(x) => {
                                ok &= st.oc.rep(a, x);
                                h_all = fnv(h_all, x as u64);
                            }
                        }
                    } else if k == 5 {
                        match catch(|| st.cur.size(a)) {
                            Err(e) => return Out::Stop(tok1(&e)),
                            Ok(x) => {
                                h_all = fnv(h_all, x as u64);
                                h_obs = fnv(h_obs, x as u64);
                            }
                        }
                    } else {
                        match catch(|| st.cur.check(a, b)) {
                            Err(e) => return Out::Stop(tok1(&e)),
                            Ok(x) => {
                                h_all = fnv(h_all, x as u64);
                                h_obs = fnv(h_obs, x as u64);
                            }
                        }
                    }
                }
            }
            Out::Tok(Tok { raw: format!("#{:016x}", h_all), view: format!("#{:016x}/{}", h_obs, if ok { "r" } else { "R!" }) })
        }
        ("checkadj", 1) => {
            let mut h = FNV_INIT;
            for v in 0..n.saturating_sub(1) {
                match catch(|| st.cur.check(v, v + 1)) {
                    Err(e) => return Out::Stop(tok1(&e)),
                    Ok(b) => h = fnv(h, b as u64),
                }
            }
            Out::Tok(tok1(&format!("#{:016x}", h)))
        }
        _ => match macro_pairs(n, t) {
            None => Out::Bad,
            Some(pairs) => {
                let mut cnt = 0u64;
                let mut h = FNV_INIT;
                for (u, v) in pairs {
                    if u >= n || v >= n {
                        return Out::Stop(ood(&res_str(catch(|| st.cur.un(u, v)))));
                    }
                    match catch(|| st.cur.un(u, v)) {
                        Err(e) => return Out::Stop(tok1(&e)),
                        Ok(b) => {
                            {
                                st.oc.union(u, v);
                            }
                            cnt += b as u64;
                            h = fnv(h, b as u64);
                        }
                    }
                }
                Out::Tok(tok1(&format!("{}:{:016x}", cnt, h)))
            }
        },
    }
}

static SS_CHILD: std::sync::atomic::AtomicBool = std::sync::atomic::AtomicBool::new(false);
const SMALL_STACK: usize = 256 << 10;

/// run one case in a child process whose worker thread has a 256 KiB stack: log-depth recursion fits easily, a lookup that
/// recurses along a chain of 10^5 or more vertices overflows; the child's death is reported as the view `STACK!`
fn run_in_small_stack_child(line: &str) -> String {
    use std::io::Write;
    use std::process::{Command, Stdio};
    let exe = match std::env::current_exe() {
        Ok(e) => e,
        Err(_) => return out1("INVALID"),
    };
    let mut child = match Command::new(exe).args(["run", "--ss-child", "1"]).stdin(Stdio::piped()).stdout(Stdio::piped()).stderr(Stdio::null()).spawn() {
        Ok(c) => c,
        Err(_) => return out1("INVALID"),
    };
    {
        let mut stdin = child.stdin.take().unwrap();
        let _ = stdin.write_all(line.as_bytes());
        let _ = stdin.write_all(b"\n");
    }
    let out = match child.wait_with_output() {
        Ok(o) => o,
        Err(_) => return out1("INVALID"),
    };
    let text = String::from_utf8_lossy(&out.stdout);
    let first = text.lines().next().unwrap_or("");
    if out.status.success() && first.starts_with("I ") {
        first.to_string()
    } else {
        out2("crashed-on-256KiB-stack", "STACK!lookup-recursion-overflowed-a-256KiB-stack")
    }
}

fn run_case(line: &str) -> String {
    let mut parts = line.split(';').map(|p| p.trim());
    let hdr: Vec<&str> = parts.next().unwrap_or("").split_whitespace().collect();
    let n0: usize = match hdr.first().and_then(|h| h.parse().ok()) {
        Some(n) => n,
        None => return out1("INVALID"),
    };
    if hdr.contains(&"ss") && !SS_CHILD.load(std::sync::atomic::Ordering::Relaxed) {
        return run_in_small_stack_child(line);
    }
    let cur = match catch(|| DSU::new(n0)) {
        Ok(d) => d,
        Err(e) => return out1(&e),
    };
    let saved = cur.clone();
    let mut st = State { cur, saved, n_cur: n0, n_saved: n0, oc: Oracle::new(n0), os: Oracle::new(n0) };
    let mut decoys = if hdr.contains(&"dk") { Some(Decoys::new(n0)) } else { None };
    let mut raws: Vec<String> = Vec::new();
    let mut views: Vec<String> = Vec::new();
    for op in parts {
        if op.is_empty() {
            continue;
        }
        if let Some(dk) = decoys.as_mut() {
            dk.poke();
            dk.poke();
            if let Some(b) = dk.bad.clone() {
                raws.push("decoy".to_string());
                views.push(b);
                break;
            }
        }
        let t: Vec<&str> = op.split_whitespace().collect();
        match do_op(&mut st, &t) {
            Out::Bad => return out1("INVALID"),
            Out::Stop(tk) => {
                raws.push(tk.raw);
                views.push(tk.view);
                break;
            }
            Out::Tok(tk) => {
                raws.push(tk.raw);
                views.push(tk.view);
            }
        }
    }
    if raws.is_empty() {
        return out1("-");
    }
    out2(&raws.join(" "), &views.join(" "))
}

// ------------------------------------------------------------------------------------------------------------
// generators

fn suffix(n: usize) -> String {
    // the forest is measured first: every lookup below compresses paths
    let mut s = String::from(" ; dump");
    for i in 0..n {
        for j in (i + 1)..n {
            s.push_str(&format!(" ; check {} {}", i, j));
        }
    }
    for i in 0..n {
        s.push_str(&format!(" ; size {}", i));
    }
    s.push_str(" ; dump");
    for i in 0..n {
        s.push_str(&format!(" ; par {}", i));
    }
    s.push_str(" ; dump");
    s
}

/// element counts (current, saved) after the ops, or None if some op has an argument out of range
fn track(n0: usize, ops: &[&str]) -> Option<(usize, usize)> {
    let (mut n, mut m) = (n0, n0);
    for op in ops {
        let t: Vec<&str> = op.split_whitespace().collect();
        let a = |i: usize| -> usize { t[i].parse().unwrap() };
        match t[0] {
            "un" | "check" => {
                if a(1) >= n || a(2) >= n {
                    return None;
                }
            }
            "par" | "size" => {
                if a(1) >= n {
                    return None;
                }
            }
            "reset" => n = a(1),
            "clone" | "clonefrom" => m = n,
            "restore" => n = m,
            "swap" => std::mem::swap(&mut n, &mut m),
            _ => {}
        }
    }
    Some((n, m))
}

/// every sequence over `alphabet` of length exactly `depth`
fn exhaustive(n: usize, alphabet: &[String], depth: usize, tag: &str, emit: &mut dyn FnMut(String), st: &mut Stats) {
    let k = alphabet.len();
    let total = k.pow(depth as u32);
    for mut code in 0..total {
        let mut ops: Vec<&str> = Vec::with_capacity(depth);
        for _ in 0..depth {
            ops.push(&alphabet[code % k]);
            code /= k;
        }
        // the in-domain stream: histories that index a structure beyond its current size are left to the ood stream
        let n_end = match track(n, &ops) {
            Some((n_end, _)) => n_end,
            None => {
                st.bump("exhaustive_skipped_out_of_range");
                continue;
            }
        };
        let mut line = n.to_string();
        for op in &ops {
            line.push_str(" ; ");
            line.push_str(op);
        }
        line.push_str(&suffix(n_end));
        emit(line);
        st.bump(tag);
    }
}

fn un_alphabet(n: usize) -> Vec<String> {
    let mut a = Vec::new();
    for u in 0..n {
        for v in 0..n {
            if u != v {
                a.push(format!("un {} {}", u, v));
            }
        }
    }
    a
}

fn mixed_alphabet(n: usize) -> Vec<String> {
    let mut a = un_alphabet(n);
    for v in 0..n {
        a.push(format!("par {}", v));
    }
    a.push("size 0".into());
    a.push(format!("check 0 {}", n - 1));
    if n - 1 != 1 {
        a.push("check 0 1".into());
    }
    a.push(format!("reset {}", n - 1));
    a.push(format!("reset {}", n + 1));
    a.push("clone".into());
    a.push("swap".into());
    a.push("clonefrom".into());
    a.push("restore".into());
    a
}

fn random_history(rng: &mut SplitMix64, st: &mut Stats, max_len: usize) -> String {
    let n0 = 1 + rng.below(12) as usize;
    let mut n = n0;
    let mut n_saved = n0;
    let len = 1 + rng.below(max_len as u64) as usize;
    let mut line = n0.to_string();
    // every third history runs with decoy structures alive and used between its operations
    if rng.chance(1, 3) {
        line.push_str(" dk");
        st.bump("random_histories_with_decoys");
    }
    // a history is either union-heavy (to build deep forests) or balanced
    let heavy = rng.chance(1, 2);
    for _ in 0..len {
        if n == 0 {
            let m = 1 + rng.below(12) as usize;
            line.push_str(&format!(" ; reset {}", m));
            n = m;
            st.bump("op_reset_grow");
            continue;
        }
        let r = rng.below(100);
        let (u, v) = (rng.below(n as u64), rng.below(n as u64));
        let un_share = if heavy { 60 } else { 35 };
        if r < un_share {
            line.push_str(&format!(" ; un {} {}", u, v));
            st.bump("op_un");
        } else if r < un_share + 12 {
            line.push_str(&format!(" ; check {} {}", u, v));
            st.bump("op_check");
        } else if r < un_share + 22 {
            line.push_str(&format!(" ; par {}", u));
            st.bump("op_par");
        } else if r < un_share + 30 {
            line.push_str(&format!(" ; size {}", u));
            st.bump("op_size");
        } else if r < un_share + 33 {
            let m = rng.below(13) as usize;
            line.push_str(&format!(" ; reset {}", m));
            st.bump(if m > n {
                "op_reset_grow"
            } else if m < n {
                "op_reset_shrink"
            } else {
                "op_reset_same"
            });
            n = m;
        } else if r < un_share + 35 {
            line.push_str(" ; clone");
            n_saved = n;
            st.bump("op_clone");
        } else if r < un_share + 37 {
            line.push_str(" ; swap");
            std::mem::swap(&mut n, &mut n_saved);
            st.bump("op_swap");
        } else if r < un_share + 38 {
            line.push_str(" ; clonefrom");
            st.bump(clone_from_kind(n, n_saved));
            n_saved = n;
        } else if r < un_share + 39 {
            line.push_str(" ; restore");
            st.bump(clone_from_kind(n_saved, n));
            n = n_saved;
        } else if r < un_share + 40 {
            line.push_str(&format!(" ; feed {}", u));
            st.bump("op_feed");
        } else {
            line.push_str(" ; dump");
            st.bump("op_dump");
        }
    }
    line.push_str(" ; dump");
    st.bump("random_histories");
    line
}

fn clone_from_kind(src: usize, dst: usize) -> &'static str {
    if dst < src {
        "op_clone_from_onto_shorter"
    } else if dst > src {
        "op_clone_from_onto_longer"
    } else {
        "op_clone_from_onto_equal_length"
    }
}

/// snapshot / roll-back histories: two live structures that are both worked on (unions, lookups, resets to other sizes) and
/// are copied over each other with `clone`, `clonefrom` and `restore`; sizes of every element are read after each copy
fn rollback_history(rng: &mut SplitMix64, st: &mut Stats) -> String {
    let n0 = 2 + rng.below(11) as usize;
    let (mut n, mut n_saved) = (n0, n0);
    let mut line = n0.to_string();
    if rng.chance(1, 4) {
        line.push_str(" dk");
    }
    let bursts = 2 + rng.below(6);
    for _ in 0..bursts {
        // a burst of work on the current structure
        for _ in 0..rng.below(8) {
            if n == 0 {
                break;
            }
            let (u, v) = (rng.below(n as u64), rng.below(n as u64));
            match rng.below(10) {
                0..=6 => line.push_str(&format!(" ; un {} {}", u, v)),
                7 => line.push_str(&format!(" ; par {}", u)),
                8 => line.push_str(&format!(" ; feed {}", u)),
                _ => line.push_str(&format!(" ; check {} {}", u, v)),
            }
        }
        // then something that involves the other structure
        match rng.below(10) {
            0 | 1 => {
                line.push_str(" ; swap");
                std::mem::swap(&mut n, &mut n_saved);
                st.bump("op_swap");
            }
            2 => {
                let m = 1 + rng.below(13) as usize;
                line.push_str(&format!(" ; reset {}", m));
                n = m;
                st.bump("op_reset_rollback_stream");
            }
            3 | 4 => {
                line.push_str(" ; clone");
                n_saved = n;
                st.bump("op_clone");
            }
            5 | 6 => {
                line.push_str(" ; clonefrom ; swap ; sizeall ; dump");
                st.bump(clone_from_kind(n, n_saved));
                n_saved = n;
            }
            _ => {
                line.push_str(" ; restore ; sizeall ; dump");
                st.bump(clone_from_kind(n_saved, n));
                n = n_saved;
            }
        }
    }
    line.push_str(" ; sizeall ; checkadj ; dump ; swap ; sizeall ; parall ; dump");
    st.bump("rollback_histories");
    line
}

fn adversarial(n: usize, seed: u64) -> Vec<String> {
    let h = n / 2;
    vec![
        // binomial-tree worst case: depth exactly log2(size) with no compression on the way
        format!("{n} ; binom 0 {n} ; dump ; checkadj ; sizeall ; dump ; parall ; dump"),
        // two binomial halves, then joined through their deepest leaves
        format!("{n} ; binom 0 {h} ; binom {h} {n} ; dump ; un 0 {h} ; dump ; size 0 ; parall ; dump"),
        // chains in both argument orders
        format!("{n} ; chain 0 {n} ; dump ; parall ; sizeall ; dump"),
        format!("{n} ; chainr 0 {n} ; dump ; parall ; checkadj ; dump"),
        // stars in both argument orders, then a reset to a different size and a binomial run on top
        format!("{n} ; star 0 0 {n} ; dump ; reset {h} ; binom 0 {h} ; dump ; reset {n} ; starr 0 0 {n} ; dump ; parall"),
        // random unions, clone in the middle, both copies continue independently
        format!("{n} ; rand {seed} {h} ; dump ; clone ; rand {} {n} ; dump ; swap ; dump ; chain 0 {n} ; dump ; swap ; sizeall ; dump", seed + 1),
        // lookups interleaved with unions (compress, then link) at this size
        format!("{n} ; randmix {seed} {} ; dump ; parall ; sizeall ; dump ; randmix {} {n} ; dump", 3 * n, seed + 2),
        // binomial trees of size 4 / 8 attached below singletons and chains of binomial trees (what a broken size comparison gets wrong)
        format!("{n} ; binom 0 {h} ; chain {} {n} ; dump ; un {} 0 ; dump ; parall ; dump", h, n.saturating_sub(1)),
        // snapshot, more unions, roll back onto the used structure (`clone_from`), continue with both copies; then a copy onto a
        // used structure with FEWER elements
        format!(
            "{n} ; binom 0 {h} ; clone ; chain 0 {n} ; sizeall ; restore ; dump ; sizeall ; binom {h} {n} ; dump ; un 0 {h} ; dump ; swap ; reset {h} ; \
             starr 0 0 {h} ; swap ; clonefrom ; swap ; sizeall ; parall ; dump ; feed 0 ; swap ; sizeall ; dump"
        ),
        // a copy onto a used structure with MORE elements, then both continue
        format!(
            "{n} ; star 0 0 {n} ; clone ; reset {h} ; rand {seed} {h} ; dump ; clonefrom ; swap ; sizeall ; dump ; chain 0 {h} ; feed 0 ; dump ; swap ; \
             randmix {} {n} ; sizeall ; dump",
            seed + 3
        ),
    ]
}

fn gen(args: &Args, emit: &mut dyn FnMut(String), st: &mut Stats) {
    let thorough = args.tier == "thorough";
    // `--profile debug` (second build profile: debug assertions on, no optimisation): the same streams without the bulk
    // sample and without the 10^5+ sizes
    let debug = args.extra.get("profile").map_or(false, |p| p == "debug");
    let mut rng = SplitMix64::new(args.seed ^ 0xC05);
    // (1) exhaustive small scope: union-only histories (every order and orientation) + full observation suffix
    // the debug build keeps the quick-size exhaustive plans in both tiers (the release build carries the bulk)
    let plan: Vec<(usize, usize)> = if thorough && !debug {
        vec![(2, 3), (3, 1), (3, 2), (3, 3), (3, 4), (3, 5), (3, 6), (4, 1), (4, 2), (4, 3), (4, 4), (4, 5), (5, 3), (5, 4), (6, 3), (7, 2), (12, 1)]
    } else {
        vec![(2, 3), (3, 1), (3, 2), (3, 3), (3, 4), (4, 2), (4, 3), (5, 2), (12, 1)]
    };
    for (n, d) in plan {
        exhaustive(n, &un_alphabet(n), d, "exhaustive_union_histories", emit, st);
    }
    // five unions on five elements in quick: sampled 1/8 (thorough has all of (5,4); this adds depth 5)
    {
        let alpha = un_alphabet(5);
        let k = alpha.len();
        let total = k.pow(5);
        let stride = if debug { 9973 } else if thorough { 7 } else { 97 };
        let mut code0 = (args.seed % stride as u64) as usize;
        while code0 < total {
            let mut code = code0;
            let mut line = "5".to_string();
            for _ in 0..5 {
                line.push_str(" ; ");
                line.push_str(&alpha[code % k]);
                code /= k;
            }
            line.push_str(" ; dump");
            emit(line);
            st.bump("sampled_depth5_n5");
            code0 += stride;
        }
    }
    // (2) exhaustive small scope over the whole op alphabet (un, par, size, check, reset grow/shrink, clone, swap)
    let mixed: Vec<(usize, usize)> = if thorough && !debug { vec![(2, 4), (3, 3), (3, 4)] } else { vec![(2, 3), (3, 3)] };
    for (n, d) in mixed {
        exhaustive(n, &mixed_alphabet(n), d, "exhaustive_mixed_histories", emit, st);
    }
    // (3) random histories, n <= 12, up to 200 ops
    let count = if thorough && !debug { 30_000 } else if thorough { 6_000 } else { 1_500 };
    for _ in 0..count {
        let l = random_history(&mut rng, st, 200);
        emit(l);
    }
    // (3b) snapshot / roll-back histories: clone, clone_from in both directions onto used structures of other sizes
    let count = if thorough && !debug { 20_000 } else if thorough { 5_000 } else { 1_200 };
    for _ in 0..count {
        let l = rollback_history(&mut rng, st);
        emit(l);
    }
    // (4) adversarial orders, small and medium sizes (every n up to 40 so that every position relative to powers of two occurs)
    let mut sizes: Vec<usize> = (2..=40).collect();
    sizes.extend([63, 64, 65, 100, 127, 128, 129, 1000, 1024]);
    if thorough && !debug {
        sizes.extend([4095, 4096, 4097, 65536, 100_000]);
    }
    for n in sizes {
        for l in adversarial(n, rng.next_u64() >> 1) {
            emit(l);
            st.bump("adversarial_small_medium");
        }
    }
    // (5) thorough: 10^6 elements (and 2^20, where the binomial bound is tight)
    if thorough && !debug {
        for n in [1_000_000usize, 1 << 20, 1 << 21] {
            for (k, l) in adversarial(n, rng.next_u64() >> 1).into_iter().enumerate() {
                // at 2^21 the two random scripts are left out (random orders give shallow forests; 30 s for nothing new)
                if n > 1 << 20 && (k == 5 || k == 6) {
                    continue;
                }
                emit(l);
                st.bump("adversarial_1e6");
            }
        }
    }
    // (5a) element counts past 10^6: the binomial worst case is the only order that reaches depth log2 n, and depth 21 needs
    //      2^21 elements (a path of 21 non-root vertices below the root).  One such history in quick (about 4 s for both sides),
    //      2^22 .. 2^24 in thorough; lookups go to the deepest vertex first, before anything compresses its path.
    if !debug {
        let bigs: Vec<usize> = if thorough { vec![1 << 21, 1 << 22, 1 << 23, 1 << 24] } else { vec![1 << 21] };
        for n in bigs {
            emit(format!("{n} ; binom 0 {n} ; par 0 ; size 1 ; check 2 {} ; feed 4 ; dump", n - 1));
            st.bump("binomial_past_1e6");
        }
    }
    // (5b) the no-stack-exhaustion clause without reading the forest: the same adversarial orders, and lookups of OLD
    //      elements after unions through non-roots, in a child process with a 256 KiB stack (log-depth recursion needs a few
    //      hundred bytes; a chain of 10^5 frames does not fit).  Independent of the Debug layout.
    let ss_sizes: Vec<usize> = if debug {
        vec![]
    } else if thorough {
        vec![100_000, 1_000_000, 1 << 21]
    } else {
        vec![100_000]
    };
    for n in ss_sizes {
        let h = n / 2;
        for (k, l) in [
            format!("{n} ss ; un 0 1 ; star 0 2 {n} ; par 1 ; parall ; sizeall ; dump"),
            format!("{n} ss ; un 1 0 ; starr 0 2 {n} ; par 1 ; parall ; dump"),
            format!("{n} ss ; chain 0 {n} ; par 0 ; parall ; dump"),
            format!("{n} ss ; chainr 0 {n} ; par {} ; parall ; dump", n - 1),
            format!("{n} ss ; binom 0 {n} ; par 0 ; checkadj ; parall ; dump"),
            format!("{n} ss ; binom 0 {h} ; chain {h} {n} ; un {} 0 ; par 0 ; par {h} ; parall ; dump", n - 1),
            format!("{n} ss ; randmix {} {n} ; parall ; dump", rng.next_u64() >> 1),
        ]
        .into_iter()
        .enumerate()
        {
            // past 10^6 only the binomial orders (the depth is what grows with n)
            if n > 1_000_000 && !(k == 4 || k == 5) {
                continue;
            }
            emit(l);
            st.bump("small_stack_runs");
        }
    }
    // (6) out-of-domain stream: arguments out of range (index panic; the property says nothing)
    for l in [
        "3 ; un 0 3",
        "3 ; un 5 0",
        "3 ; par 3",
        "3 ; check 0 7",
        "3 ; size 3",
        "4 ; un 0 1 ; reset 2 ; un 0 3",
        "0 ; par 0",
        "2 ; chain 0 5",
        "3 ; un 0 1 ; clone ; reset 1 ; swap ; un 0 2 ; swap ; par 2",
        "3 ; un 0 1 ; reset 8 ; un 7 0 ; restore ; size 7",
        "3 ; reset 1 ; clonefrom ; swap ; feed 2",
        "4 ; feed 4",
    ] {
        emit(l.to_string());
        st.bump("out_of_domain");
    }
    for l in ["0", "0 ; dump ; reset 3 ; un 0 2 ; dump", "1 ; un 0 0 ; par 0 ; size 0 ; check 0 0 ; dump"] {
        emit(l.to_string());
        st.bump("edge");
    }
}

fn main() {
    // oracle / parser self-tests (guard the harness itself)
    assert_eq!(parse_debug("DSU { p: [0, 0, 2], sz: [2, 1, 1] }"), Some((vec![0, 0, 2], vec![2, 1, 1])));
    assert_eq!(parse_debug("DSU { p: [], sz: [] }"), Some((vec![], vec![])));
    assert_eq!(parse_debug("DSU { sz: [2, 1, 1], p: [0, 0, 2] }"), Some((vec![0, 0, 2], vec![2, 1, 1])));
    assert_eq!(
        parse_debug("DSU { nodes: [Node { parent: 0, count: 2 }, Node { parent: 0, count: 1 }, Node { parent: 2, count: 1 }] }"),
        Some((vec![0, 0, 2], vec![2, 1, 1]))
    );
    assert_eq!(
        parse_debug("DSU { nodes: [Node { count: 2, parent: 0 }, Node { count: 1, parent: 0 }, Node { count: 1, parent: 2 }] }"),
        Some((vec![0, 0, 2], vec![2, 1, 1]))
    );
    assert_eq!(parse_debug("DSU { nodes: [] }"), Some((vec![], vec![])));
    assert_eq!(parse_debug("DSU { data: [(0, 2), (0, 1), (2, 1)] }"), Some((vec![0, 0, 2], vec![2, 1, 1])));
    assert!(parse_debug("DSU { links: {0: 1} }").is_none());
    assert!(parse_debug("DSU").is_none());
    let (d, r) = depths(&[1, 2, 2, 3]).unwrap();
    assert_eq!((d, r), (vec![2, 1, 0, 0], vec![2, 2, 2, 3]));
    assert!(depths(&[1, 0]).is_none());
    // run everything on a thread with a large stack: a degenerate forest (a broken union-by-size) must show up as a
    // depth violation in the output, not as a stack overflow of this process.  Cases flagged `ss` are re-run in a child
    // of this binary (`--ss-child`) whose worker thread has only 256 KiB.
    let ss_child = std::env::args().any(|a| a == "--ss-child");
    SS_CHILD.store(ss_child, std::sync::atomic::Ordering::Relaxed);
    let child = std::thread::Builder::new()
        .stack_size(if ss_child { SMALL_STACK } else { 3 << 30 })
        .spawn(|| cli(gen, |line| run_case(line)))
        .unwrap();
    child.join().unwrap();
}
