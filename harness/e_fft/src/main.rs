//! Correspondence harness for engine `fft` (property C04): drives `rlib_fft::FFT<f64>` and `FFT<f32>`.
//!
//! Case:  `fft <f64|f32> [new|default|clone|histclone] ; step ; step ; … ; step` — a step is a call on one of 4 live
//! objects (`@k op`, default object 0) or a pool operation (`cl j k` clone, `cf j k` clone_from, `df k` default,
//! `nw k` new, `tk j k` std::mem::take); the answer is the result of the LAST step (the earlier ones are the history).
//! ops:   `u n` | `m a b` | `mi a b res` | `f v n` | `fi v n rx ry` | `inv xs ys` | `ii xs ys res` | `fm a b n` | `fmx a b n` | `fmi a b n res`
//!        | `fx rpn n res v0 [v1 …]` (forward transforms, a per-bin expression built from the operators of `Complex<F>`, `fft_inv_into`)
//!        `al<o>` in front of `m` / `mi` / `fm` / `fmx` / `fmi`: the two operands are passed as slices of ONE buffer, `b` starting
//!        `o` entries after `a` (same slice, prefix, suffix, overlapping); expected = the answer for separate copies
//! raw:   i64 vectors (`[..]`, digest above 48 entries), complex vectors as bit patterns
//! view:  `<vec> fresh=<same|diff> oracle=<exact|wrong>` — `fresh` repeats the last call on a brand-new
//!        object and compares bit for bit; `oracle` is an exact i128 schoolbook convolution (for `fx`: exact arithmetic
//!        in Z[i][x]/(x^n-1)); `add=<ok|wrong>` for `fi`/`ii`: destination += what `fft`/`fft_inv` returns.
#[path = "../../common/mod.rs"]
mod common;
use common::*;
use rlib_fft::{Complex, FFT};
use rlib_num_traits::{Float, ZeroOne};

trait HF: Float {
    fn bits(self) -> u64;
    fn of_bits(b: u64) -> Self;
    const NAME: &'static str;
}
impl HF for f64 {
    fn bits(self) -> u64 {
        self.to_bits()
    }
    fn of_bits(b: u64) -> Self {
        f64::from_bits(b)
    }
    const NAME: &'static str = "f64";
}
impl HF for f32 {
    fn bits(self) -> u64 {
        self.to_bits() as u64
    }
    fn of_bits(b: u64) -> Self {
        f32::from_bits(b as u32)
    }
    const NAME: &'static str = "f32";
}

/// One token of the reverse Polish per-bin expression of `fx`: which PUBLIC operator of `Complex<F>` is applied, in
/// which form (operator / assign form, Copy / `.clone()` of an operand, `ZERO` / `default()`).
#[derive(Clone, Debug, PartialEq)]
enum Tok {
    Leaf(usize),
    LeafClone(usize),
    /// `let mut t = Complex::default(); t.clone_from(&operand)`
    LeafCloneFrom(usize),
    Zero,
    DefaultZ,
    One,
    I,
    Add,
    AddA,
    Sub,
    SubA,
    Mul,
    MulA,
    Div,
    DivA,
    Neg,
    Conj,
    Abs2,
    Absq,
    Scale(i32),
    ScaleA(i32),
    DivS(i32),
    DivSA(i32),
}

#[derive(Clone, Debug)]
enum Op {
    U(usize),
    M(Vec<i32>, Vec<i32>),
    Mi(Vec<i32>, Vec<i32>, Vec<i64>),
    F(Vec<i32>, usize),
    Fi(Vec<i32>, usize, Vec<i32>, Vec<i32>),
    Inv(Vec<i32>, Vec<i32>),
    Ii(Vec<i32>, Vec<i32>, Vec<i64>),
    Fm(Vec<i32>, Vec<i32>, usize),
    /// forward transforms on this object, inverse transform of the product on a brand-new object
    Fmx(Vec<i32>, Vec<i32>, usize),
    /// forward transforms, pointwise product, fft_inv_into with a pre-filled destination of any length
    Fmi(Vec<i32>, Vec<i32>, usize, Vec<i64>),
    /// forward transforms of all operands, the expression bin by bin, fft_inv_into with the destination
    Fx(Vec<Tok>, Vec<Vec<i32>>, usize, Vec<i64>),
}

/// A step of a case: a call on object `k` of the pool, or a pool operation.
#[derive(Clone, Debug)]
enum Step {
    /// object, call, `al<o>`: pass the two operands as slices of ONE buffer, `o` = start of `b` minus start of `a`
    Call(usize, Op, Option<i64>),
    Clone(usize, usize),
    CloneFrom(usize, usize),
    Default(usize),
    Fresh(usize),
    Take(usize, usize),
}

const POOL: usize = 4;

#[derive(Clone, PartialEq)]
enum Out {
    Unit,
    IVec(Vec<i64>),
    CVec(Vec<(u64, u64)>),
    Panic(String),
    Invalid,
}

fn parse_vec<T: std::str::FromStr>(s: &str) -> Option<Vec<T>> {
    if s.is_empty() || s == "-" {
        return Some(vec![]);
    }
    s.split(',').map(|t| t.parse::<T>().ok()).collect()
}

fn parse_tok(t: &str) -> Option<Tok> {
    Some(match t {
        "Z" => Tok::Zero,
        "Dz" => Tok::DefaultZ,
        "O" => Tok::One,
        "I" => Tok::I,
        "+" => Tok::Add,
        "+=" => Tok::AddA,
        "-" => Tok::Sub,
        "-=" => Tok::SubA,
        "*" => Tok::Mul,
        "*=" => Tok::MulA,
        "/" => Tok::Div,
        "/=" => Tok::DivA,
        "neg" => Tok::Neg,
        "conj" => Tok::Conj,
        "abs2" => Tok::Abs2,
        "absq" => Tok::Absq,
        _ => {
            if let Ok(i) = t.parse::<usize>() {
                Tok::Leaf(i)
            } else if let Some(i) = t.strip_prefix("cf").and_then(|r| r.parse::<usize>().ok()) {
                Tok::LeafCloneFrom(i)
            } else if let Some(i) = t.strip_prefix('c').and_then(|r| r.parse::<usize>().ok()) {
                Tok::LeafClone(i)
            } else if let Some(k) = t.strip_prefix("s=").and_then(|r| r.parse::<i64>().ok()) {
                Tok::ScaleA(i32::try_from(k).ok()?)
            } else if let Some(k) = t.strip_prefix('s').and_then(|r| r.parse::<i64>().ok()) {
                Tok::Scale(i32::try_from(k).ok()?)
            } else if let Some(k) = t.strip_prefix("d=").and_then(|r| r.parse::<i64>().ok()) {
                Tok::DivSA(i32::try_from(k).ok()?)
            } else if let Some(k) = t.strip_prefix('d').and_then(|r| r.parse::<i64>().ok()) {
                Tok::DivS(i32::try_from(k).ok()?)
            } else {
                return None;
            }
        }
    })
}

/// Number of stack entries consumed by a token (it always produces one).
fn arity(t: &Tok) -> usize {
    match t {
        Tok::Leaf(_) | Tok::LeafClone(_) | Tok::LeafCloneFrom(_) | Tok::Zero | Tok::DefaultZ | Tok::One | Tok::I => 0,
        Tok::Add | Tok::AddA | Tok::Sub | Tok::SubA | Tok::Mul | Tok::MulA | Tok::Div | Tok::DivA => 2,
        _ => 1,
    }
}

/// A well-formed expression: the stack never underflows and exactly one value is left.
fn rpn_ok(toks: &[Tok]) -> bool {
    let mut depth = 0usize;
    for t in toks {
        if depth < arity(t) {
            return false;
        }
        depth = depth - arity(t) + 1;
    }
    depth == 1
}

fn parse_rpn(s: &str) -> Option<Vec<Tok>> {
    let toks: Option<Vec<Tok>> = s.split(',').map(parse_tok).collect();
    let toks = toks?;
    if rpn_ok(&toks) {
        Some(toks)
    } else {
        None
    }
}

fn parse_op_tokens(t: &[&str]) -> Option<Op> {
    match t {
        ["u", n] => Some(Op::U(n.parse().ok()?)),
        ["m", a, b] => Some(Op::M(parse_vec(a)?, parse_vec(b)?)),
        ["mi", a, b, r] => Some(Op::Mi(parse_vec(a)?, parse_vec(b)?, parse_vec(r)?)),
        ["f", v, n] => Some(Op::F(parse_vec(v)?, n.parse().ok()?)),
        ["fi", v, n, rx, ry] => Some(Op::Fi(parse_vec(v)?, n.parse().ok()?, parse_vec(rx)?, parse_vec(ry)?)),
        ["inv", xs, ys] => Some(Op::Inv(parse_vec(xs)?, parse_vec(ys)?)),
        ["ii", xs, ys, r] => Some(Op::Ii(parse_vec(xs)?, parse_vec(ys)?, parse_vec(r)?)),
        ["fm", a, b, n] => Some(Op::Fm(parse_vec(a)?, parse_vec(b)?, n.parse().ok()?)),
        ["fmx", a, b, n] => Some(Op::Fmx(parse_vec(a)?, parse_vec(b)?, n.parse().ok()?)),
        ["fmi", a, b, n, r] => Some(Op::Fmi(parse_vec(a)?, parse_vec(b)?, n.parse().ok()?, parse_vec(r)?)),
        ["fx", rpn, n, r, vs @ ..] if !vs.is_empty() => {
            let vs: Option<Vec<Vec<i32>>> = vs.iter().map(|v| parse_vec(v)).collect();
            Some(Op::Fx(parse_rpn(rpn)?, vs?, n.parse().ok()?, parse_vec(r)?))
        }
        _ => None,
    }
}

fn parse_idx(s: &str) -> Option<usize> {
    let k: usize = s.parse().ok()?;
    if k < POOL {
        Some(k)
    } else {
        None
    }
}

fn parse_step(s: &str) -> Option<Step> {
    let t: Vec<&str> = s.split_whitespace().collect();
    match t.as_slice() {
        ["cl", j, k] => Some(Step::Clone(parse_idx(j)?, parse_idx(k)?)),
        ["cf", j, k] => Some(Step::CloneFrom(parse_idx(j)?, parse_idx(k)?)),
        ["df", k] => Some(Step::Default(parse_idx(k)?)),
        ["nw", k] => Some(Step::Fresh(parse_idx(k)?)),
        ["tk", j, k] => Some(Step::Take(parse_idx(j)?, parse_idx(k)?)),
        [first, rest @ ..] if first.starts_with('@') => {
            let (op, al) = parse_call(rest)?;
            Some(Step::Call(parse_idx(&first[1..])?, op, al))
        }
        _ => {
            let (op, al) = parse_call(&t)?;
            Some(Step::Call(0, op, al))
        }
    }
}

/// `al<o> op ...` (two-operand calls only): the operands are passed as aliases of one buffer, see `alias_layout`.
fn parse_call(t: &[&str]) -> Option<(Op, Option<i64>)> {
    if let [fl, rest @ ..] = t {
        if let Some(o) = fl.strip_prefix("al").and_then(|r| r.parse::<i64>().ok()) {
            let op = parse_op_tokens(rest)?;
            return match op {
                Op::M(..) | Op::Mi(..) | Op::Fm(..) | Op::Fmx(..) | Op::Fmi(..) => Some((op, Some(o))),
                _ => None,
            };
        }
    }
    Some((parse_op_tokens(t)?, None))
}

/// ONE buffer that holds both operands, `b` starting `o` entries after `a` (before, for negative `o`): `(buf, start of a,
/// start of b)`.  `None` when the contents disagree on the overlap (the call is then made with separate vectors).
/// `o = 0` and equal lengths: the very same slice; `o = 0`: one operand is a prefix of the other (same start address);
/// `o = |a| - |b|`: suffix; `0 < o < |a|`: sub-slice / overlapping; `o >= |a|`: disjoint parts of one allocation.
fn alias_layout(a: &[i32], b: &[i32], o: i64) -> Option<(Vec<i32>, usize, usize)> {
    if o.unsigned_abs() > (1 << 20) {
        return None;
    }
    let (sa, sb) = if o >= 0 { (0usize, o as usize) } else { ((-o) as usize, 0usize) };
    let mut buf = vec![0i32; (sa + a.len()).max(sb + b.len())];
    buf[sa..sa + a.len()].copy_from_slice(a);
    for (i, &y) in b.iter().enumerate() {
        let p = sb + i;
        if p >= sa && p < sa + a.len() && buf[p] != y {
            return None;
        }
        buf[p] = y;
    }
    Some((buf, sa, sb))
}

/// sizes above this are not requested from either side (memory)
const MAX_N: usize = 1 << 24;

fn is_pow2(n: usize) -> bool {
    n != 0 && n & (n - 1) == 0
}

fn fft_size(len: usize, n: usize) -> usize {
    if n != 0 {
        return n;
    }
    let mut n = 1;
    while n < len {
        n <<= 1;
    }
    n
}

/// the two forward transforms of a composite choose the same size (`n = 0`: each `fft(v, 0)` chooses its own)
fn composite_ok(a: &[i32], b: &[i32], n: usize) -> bool {
    let na = fft_size(a.len(), n);
    na == fft_size(b.len(), n) && is_pow2(na) && na <= MAX_N && a.len() <= na && b.len() <= na
}

/// Preconditions that fft.rs states as `debug_assert!` (or that make the result profile dependent):
/// such calls are not made at all.
fn valid(op: &Op) -> bool {
    match op {
        Op::U(n) => *n != 0 && *n <= MAX_N,
        Op::M(..) | Op::Mi(..) => true,
        Op::F(v, n) => v.len() <= fft_size(v.len(), *n) && *n <= MAX_N,
        Op::Fi(v, n, rx, ry) => rx.len() == ry.len() && v.len() <= fft_size(v.len(), *n) && *n <= MAX_N,
        Op::Inv(xs, ys) => xs.len() == ys.len() && is_pow2(xs.len()),
        Op::Ii(xs, ys, _) => xs.len() == ys.len() && is_pow2(xs.len()),
        Op::Fm(a, b, n) | Op::Fmx(a, b, n) | Op::Fmi(a, b, n, _) => composite_ok(a, b, *n),
        Op::Fx(toks, vs, n, _) => {
            is_pow2(*n)
                && *n <= MAX_N
                && vs.len() <= 10
                && vs.iter().all(|v| v.len() <= *n)
                && toks.iter().all(|t| match t {
                    Tok::Leaf(i) | Tok::LeafClone(i) | Tok::LeafCloneFrom(i) => *i < vs.len(),
                    Tok::DivS(k) | Tok::DivSA(k) => *k != 0,
                    _ => true,
                })
        }
    }
}

fn cplx<F: HF>(xs: &[i32], ys: &[i32]) -> Vec<Complex<F>> {
    xs.iter().zip(ys.iter()).map(|(&x, &y)| Complex::new(F::from_i32(x), F::from_i32(y))).collect()
}

fn cbits<F: HF>(v: &[Complex<F>]) -> Vec<(u64, u64)> {
    v.iter().map(|c| (c.x.bits(), c.y.bits())).collect()
}

fn of_cbits<F: HF>(v: &[(u64, u64)]) -> Vec<Complex<F>> {
    v.iter().map(|&(r, i)| Complex::new(F::of_bits(r), F::of_bits(i))).collect()
}

/// The expression at bin `p`, computed with the crate's own operators in exactly the form the token names.
#[allow(clippy::clone_on_copy)]
fn eval_bin<F: HF>(toks: &[Tok], leaves: &[Vec<Complex<F>>], p: usize) -> Complex<F> {
    let mut st: Vec<Complex<F>> = Vec::with_capacity(8);
    for t in toks {
        match t {
            Tok::Leaf(i) => st.push(leaves[*i][p]),
            Tok::LeafClone(i) => st.push(leaves[*i][p].clone()),
            Tok::LeafCloneFrom(i) => {
                let mut t = Complex::<F>::default();
                t.clone_from(&leaves[*i][p]);
                st.push(t);
            }
            Tok::Zero => st.push(<Complex<F> as ZeroOne>::ZERO),
            Tok::DefaultZ => st.push(Complex::<F>::default()),
            Tok::One => st.push(<Complex<F> as ZeroOne>::ONE),
            Tok::I => st.push(Complex::<F>::I),
            Tok::Add | Tok::AddA | Tok::Sub | Tok::SubA | Tok::Mul | Tok::MulA | Tok::Div | Tok::DivA => {
                let b = st.pop().unwrap();
                let a = st.pop().unwrap();
                let mut acc = a;
                let r = match t {
                    Tok::Add => a + b,
                    Tok::Sub => a - b,
                    Tok::Mul => a * b,
                    Tok::Div => a / b,
                    Tok::AddA => {
                        acc += b;
                        acc
                    }
                    Tok::SubA => {
                        acc -= b;
                        acc
                    }
                    Tok::MulA => {
                        acc *= b;
                        acc
                    }
                    _ => {
                        acc /= b;
                        acc
                    }
                };
                st.push(r);
            }
            Tok::Neg => {
                let a = st.pop().unwrap();
                st.push(-a);
            }
            Tok::Conj => {
                let a = st.pop().unwrap();
                st.push(a.conj());
            }
            Tok::Abs2 => {
                let a = st.pop().unwrap();
                st.push(Complex::new_real(a.abs2()));
            }
            Tok::Absq => {
                let a = st.pop().unwrap();
                let r = a.abs();
                st.push(Complex::new_real(r * r));
            }
            Tok::Scale(k) => {
                let a = st.pop().unwrap();
                st.push(a * F::from_i32(*k));
            }
            Tok::ScaleA(k) => {
                let mut a = st.pop().unwrap();
                a *= F::from_i32(*k);
                st.push(a);
            }
            Tok::DivS(k) => {
                let a = st.pop().unwrap();
                st.push(a / F::from_i32(*k));
            }
            Tok::DivSA(k) => {
                let mut a = st.pop().unwrap();
                a /= F::from_i32(*k);
                st.push(a);
            }
        }
    }
    st.pop().unwrap()
}

fn call<F: HF>(fft: &mut FFT<F>, op: &Op, alias: Option<i64>) -> Out {
    if !valid(op) {
        return Out::Invalid;
    }
    // aliased operands: both slices are views into one buffer (where the contents allow it)
    let lay = match (op, alias) {
        (Op::M(a, b), Some(o)) | (Op::Mi(a, b, _), Some(o)) | (Op::Fm(a, b, _), Some(o)) | (Op::Fmx(a, b, _), Some(o)) | (Op::Fmi(a, b, _, _), Some(o)) => {
            alias_layout(a, b, o).map(|(buf, sa, sb)| (buf, sa, a.len(), sb, b.len()))
        }
        _ => None,
    };
    if let Some((buf, sa, la, sb, lb)) = &lay {
        let a: &[i32] = &buf[*sa..*sa + *la];
        let b: &[i32] = &buf[*sb..*sb + *lb];
        let r = catch(|| match op {
            Op::M(..) => Out::IVec(fft.multiply(a, b)),
            Op::Mi(_, _, res) => {
                let mut res = res.clone();
                fft.multiply_into(a, b, &mut res);
                Out::IVec(res)
            }
            Op::Fm(_, _, n) => {
                let fa = fft.fft(a, *n);
                let fb = fft.fft(b, *n);
                let prod: Vec<Complex<F>> = fa.iter().zip(fb.iter()).map(|(x, y)| *x * *y).collect();
                Out::IVec(fft.fft_inv(&prod))
            }
            Op::Fmx(_, _, n) => {
                let fa = fft.fft(a, *n);
                let fb = fft.fft(b, *n);
                let prod: Vec<Complex<F>> = fa.iter().zip(fb.iter()).map(|(x, y)| *x * *y).collect();
                Out::IVec(FFT::<F>::new().fft_inv(&prod))
            }
            Op::Fmi(_, _, n, res) => {
                let fa = fft.fft(a, *n);
                let fb = fft.fft(b, *n);
                let prod: Vec<Complex<F>> = fa.iter().zip(fb.iter()).map(|(x, y)| *x * *y).collect();
                let mut res = res.clone();
                fft.fft_inv_into(&prod, &mut res);
                Out::IVec(res)
            }
            _ => Out::Invalid,
        });
        return match r {
            Ok(o) => o,
            Err(e) => Out::Panic(e),
        };
    }
    let r = catch(|| match op {
        Op::U(n) => {
            fft.update_n(*n);
            Out::Unit
        }
        Op::M(a, b) => Out::IVec(fft.multiply(a, b)),
        Op::Mi(a, b, res) => {
            let mut res = res.clone();
            fft.multiply_into(a, b, &mut res);
            Out::IVec(res)
        }
        Op::F(v, n) => Out::CVec(cbits(&fft.fft(v, *n))),
        Op::Fi(v, n, rx, ry) => {
            let mut res: Vec<Complex<F>> = cplx(rx, ry);
            fft.fft_into(v, *n, &mut res);
            Out::CVec(cbits(&res))
        }
        Op::Inv(xs, ys) => Out::IVec(fft.fft_inv(&cplx::<F>(xs, ys))),
        Op::Ii(xs, ys, res) => {
            let mut res = res.clone();
            fft.fft_inv_into(&cplx::<F>(xs, ys), &mut res);
            Out::IVec(res)
        }
        Op::Fm(a, b, n) => {
            let fa = fft.fft(a, *n);
            let fb = fft.fft(b, *n);
            let prod: Vec<Complex<F>> = fa.iter().zip(fb.iter()).map(|(x, y)| *x * *y).collect();
            Out::IVec(fft.fft_inv(&prod))
        }
        Op::Fmx(a, b, n) => {
            let fa = fft.fft(a, *n);
            let fb = fft.fft(b, *n);
            let prod: Vec<Complex<F>> = fa.iter().zip(fb.iter()).map(|(x, y)| *x * *y).collect();
            Out::IVec(FFT::<F>::new().fft_inv(&prod))
        }
        Op::Fmi(a, b, n, res) => {
            let fa = fft.fft(a, *n);
            let fb = fft.fft(b, *n);
            let prod: Vec<Complex<F>> = fa.iter().zip(fb.iter()).map(|(x, y)| *x * *y).collect();
            let mut res = res.clone();
            fft.fft_inv_into(&prod, &mut res);
            Out::IVec(res)
        }
        Op::Fx(toks, vs, n, res) => {
            let leaves: Vec<Vec<Complex<F>>> = vs.iter().map(|v| fft.fft(v, *n)).collect();
            let spec: Vec<Complex<F>> = (0..*n).map(|p| eval_bin(toks, &leaves, p)).collect();
            let mut res = res.clone();
            fft.fft_inv_into(&spec, &mut res);
            Out::IVec(res)
        }
    });
    match r {
        Ok(o) => o,
        Err(e) => Out::Panic(e),
    }
}

const FNV_INIT: u64 = 0xcbf29ce484222325;
fn fnv(h: u64, x: u64) -> u64 {
    (h ^ x).wrapping_mul(0x100000001b3)
}

fn show_ivec(xs: &[i64]) -> String {
    if xs.len() <= 48 {
        let s: Vec<String> = xs.iter().map(|x| x.to_string()).collect();
        format!("[{}]", s.join(","))
    } else {
        let h = xs.iter().fold(FNV_INIT, |h, &x| fnv(h, x as u64));
        format!("n={}:h={:016x}", xs.len(), h)
    }
}

fn show_cvec(xs: &[(u64, u64)]) -> String {
    if xs.len() <= 4 {
        let s: Vec<String> = xs.iter().map(|(r, i)| format!("{:x}/{:x}", r, i)).collect();
        format!("[{}]", s.join(","))
    } else {
        let h = xs.iter().fold(FNV_INIT, |h, &(r, i)| fnv(fnv(h, r), i));
        format!("n={}:h={:016x}", xs.len(), h)
    }
}

fn show_out(o: &Out) -> String {
    match o {
        Out::Unit => "ok".into(),
        Out::IVec(v) => show_ivec(v),
        Out::CVec(v) => show_cvec(v),
        Out::Panic(p) => p.clone(),
        Out::Invalid => "INVALID".into(),
    }
}

/// Exact schoolbook convolution in i128 (independent oracle; rows of zero coefficients skipped).
fn conv_exact(a: &[i32], b: &[i32]) -> Vec<i128> {
    if a.is_empty() || b.is_empty() {
        return vec![];
    }
    let mut c = vec![0i128; a.len() + b.len() - 1];
    for (i, &x) in a.iter().enumerate() {
        if x == 0 {
            continue;
        }
        for (j, &y) in b.iter().enumerate() {
            c[i + j] += x as i128 * y as i128;
        }
    }
    c
}

/// out[i] = sum_k c[i + k*n]  (c followed by zeros when |c| <= n)
fn cyclic(c: &[i128], n: usize) -> Vec<i128> {
    let mut out = vec![0i128; n];
    for (i, &x) in c.iter().enumerate() {
        out[i % n] += x;
    }
    out
}

// ---- exact oracle of `fx`: arithmetic in Z[i][x] / (x^n - 1), sequences of Gaussian integers (re, im) ----

type GSeq = Vec<(i128, i128)>;

fn g_cyc_mul(x: &GSeq, y: &GSeq) -> GSeq {
    let n = x.len();
    let mut out = vec![(0i128, 0i128); n];
    for (s, &(xr, xi)) in x.iter().enumerate() {
        if xr == 0 && xi == 0 {
            continue;
        }
        for (t, &(yr, yi)) in y.iter().enumerate() {
            if yr == 0 && yi == 0 {
                continue;
            }
            let u = (s + t) % n;
            out[u].0 += xr * yr - xi * yi;
            out[u].1 += xr * yi + xi * yr;
        }
    }
    out
}

/// the sequence whose transform is the complex conjugate of the transform of x
fn g_conj(x: &GSeq) -> GSeq {
    let n = x.len();
    (0..n).map(|u| (x[(n - u) % n].0, -x[(n - u) % n].1)).collect()
}

fn g_unit_monomial(x: &GSeq) -> bool {
    x.iter().filter(|v| **v != (0, 0)).count() == 1 && x.iter().all(|v| *v == (0, 0) || v.0 * v.0 + v.1 * v.1 == 1)
}

/// The coefficient sequence the expression denotes (None: the property says nothing — inexact scalar division,
/// division by a spectrum that is not a unit monomial's).
fn fx_den(toks: &[Tok], vs: &[Vec<i32>], n: usize) -> Option<GSeq> {
    let mut st: Vec<GSeq> = vec![];
    let delta = |v: (i128, i128)| -> GSeq {
        let mut d = vec![(0i128, 0i128); n];
        d[0] = v;
        d
    };
    for t in toks {
        match t {
            Tok::Leaf(i) | Tok::LeafClone(i) | Tok::LeafCloneFrom(i) => {
                let mut d = vec![(0i128, 0i128); n];
                for (p, &x) in vs[*i].iter().enumerate() {
                    d[p].0 = x as i128;
                }
                st.push(d);
            }
            Tok::Zero | Tok::DefaultZ => st.push(vec![(0, 0); n]),
            Tok::One => st.push(delta((1, 0))),
            Tok::I => st.push(delta((0, 1))),
            Tok::Add | Tok::AddA | Tok::Sub | Tok::SubA | Tok::Mul | Tok::MulA | Tok::Div | Tok::DivA => {
                let b = st.pop()?;
                let a = st.pop()?;
                let r: GSeq = match t {
                    Tok::Add | Tok::AddA => a.iter().zip(b.iter()).map(|(x, y)| (x.0 + y.0, x.1 + y.1)).collect(),
                    Tok::Sub | Tok::SubA => a.iter().zip(b.iter()).map(|(x, y)| (x.0 - y.0, x.1 - y.1)).collect(),
                    Tok::Mul | Tok::MulA => g_cyc_mul(&a, &b),
                    _ => {
                        if !g_unit_monomial(&b) {
                            return None;
                        }
                        g_cyc_mul(&a, &g_conj(&b))
                    }
                };
                st.push(r);
            }
            Tok::Neg => {
                let a = st.pop()?;
                st.push(a.iter().map(|x| (-x.0, -x.1)).collect());
            }
            Tok::Conj => {
                let a = st.pop()?;
                st.push(g_conj(&a));
            }
            Tok::Abs2 | Tok::Absq => {
                let a = st.pop()?;
                st.push(g_cyc_mul(&a, &g_conj(&a)));
            }
            Tok::Scale(k) | Tok::ScaleA(k) => {
                let a = st.pop()?;
                st.push(a.iter().map(|x| (x.0 * *k as i128, x.1 * *k as i128)).collect());
            }
            Tok::DivS(k) | Tok::DivSA(k) => {
                let a = st.pop()?;
                let k = *k as i128;
                if k == 0 || a.iter().any(|x| x.0 % k != 0 || x.1 % k != 0) {
                    return None;
                }
                st.push(a.iter().map(|x| (x.0 / k, x.1 / k)).collect());
            }
        }
    }
    st.pop()
}

/// `(S, L)`: bound on the coefficient magnitudes with every product charged `max(S1,S2)^2 * min(L1,L2)` (for one
/// product of two operands: the property's literal envelope), bound on the number of non-zero coefficients.
fn fx_weight(toks: &[Tok], vs: &[Vec<i32>], n: usize) -> Option<(u128, u128)> {
    let mut st: Vec<(u128, u128)> = vec![];
    let n = n as u128;
    for t in toks {
        match t {
            Tok::Leaf(i) | Tok::LeafClone(i) | Tok::LeafCloneFrom(i) => st.push((max_abs(&vs[*i]), (vs[*i].len() as u128).max(1))),
            Tok::Zero | Tok::DefaultZ => st.push((0, 1)),
            Tok::One | Tok::I => st.push((1, 1)),
            Tok::Add | Tok::AddA | Tok::Sub | Tok::SubA => {
                let b = st.pop()?;
                let a = st.pop()?;
                st.push((a.0.saturating_add(b.0), n.min(a.1 + b.1)));
            }
            Tok::Mul | Tok::MulA | Tok::Div | Tok::DivA => {
                let b = st.pop()?;
                let a = st.pop()?;
                let m = a.0.max(b.0);
                st.push((m.saturating_mul(m).saturating_mul(a.1.min(b.1)), n.min(a.1.saturating_mul(b.1))));
            }
            Tok::Neg | Tok::Conj | Tok::DivS(_) | Tok::DivSA(_) => {}
            Tok::Abs2 | Tok::Absq => {
                let a = st.pop()?;
                st.push((a.0.saturating_mul(a.0).saturating_mul(a.1), n.min(a.1.saturating_mul(a.1))));
            }
            Tok::Scale(k) | Tok::ScaleA(k) => {
                let a = st.pop()?;
                st.push(((k.unsigned_abs() as u128).saturating_mul(a.0), a.1));
            }
        }
    }
    st.pop()
}

fn add_prefix(res: &[i64], c: &[i128]) -> Vec<i128> {
    let mut r: Vec<i128> = res.iter().map(|&x| x as i128).collect();
    for (x, y) in r.iter_mut().zip(c.iter()) {
        *x += *y;
    }
    r
}

fn expected(op: &Op) -> Option<Vec<i128>> {
    match op {
        Op::M(a, b) => Some(conv_exact(a, b)),
        Op::Mi(a, b, res) => Some(add_prefix(res, &conv_exact(a, b))),
        Op::Fm(a, b, n) | Op::Fmx(a, b, n) => Some(cyclic(&conv_exact(a, b), fft_size(a.len(), *n))),
        // destination + cyclic (size n) convolution on the first min(len, n) entries, unchanged beyond
        Op::Fmi(a, b, n, res) => Some(add_prefix(res, &cyclic(&conv_exact(a, b), fft_size(a.len(), *n)))),
        Op::Fx(toks, vs, n, res) => {
            let d = fx_den(toks, vs, *n)?;
            if d.iter().any(|v| v.1 != 0) {
                return None;
            }
            let c: Vec<i128> = d.iter().map(|v| v.0).collect();
            Some(add_prefix(res, &c))
        }
        _ => None,
    }
}

fn max_abs(v: &[i32]) -> u128 {
    v.iter().map(|x| (*x as i64).unsigned_abs() as u128).max().unwrap_or(0)
}

fn prec_bound(f32_: bool) -> u128 {
    if f32_ {
        1_000
    } else {
        1_000_000_000_000
    }
}

/// Is the VALUE of this call fixed by the property? (value call inside the literal envelope
/// max^2 * min(len) <= bound; destination entries small; composites with non-empty operands)
fn value_in_domain(op: &Op, f32_: bool) -> bool {
    let env = |a: &[i32], b: &[i32]| {
        let m = max_abs(a).max(max_abs(b));
        m * m * (a.len().min(b.len()) as u128) <= prec_bound(f32_)
    };
    let small = |r: &[i64]| r.iter().all(|x| x.unsigned_abs() <= 1_000_000_000_000_000);
    match op {
        Op::M(a, b) => env(a, b),
        Op::Mi(a, b, r) => env(a, b) && small(r),
        Op::Fm(a, b, _) | Op::Fmx(a, b, _) => !a.is_empty() && !b.is_empty() && env(a, b),
        Op::Fmi(a, b, _, r) => !a.is_empty() && !b.is_empty() && env(a, b) && small(r),
        Op::Fx(toks, vs, n, r) => {
            vs.iter().all(|v| !v.is_empty()) && small(r) && matches!(fx_weight(toks, vs, *n), Some((s, _)) if s <= prec_bound(f32_))
        }
        _ => false,
    }
}

fn out_len(o: &Out) -> usize {
    match o {
        Out::IVec(v) => v.len(),
        Out::CVec(v) => v.len(),
        _ => 0,
    }
}

/// Raw column: only values the property fixes are compared as values; bit patterns of fft() outputs, fft_inv of
/// arbitrary complex input and out-of-envelope products are just a length (full digests with C04_DIAG=1: a
/// diagnostic run recorded in the evidence, never a verdict).
fn raw_of(op: &Op, used: &Out, diag: bool, valued: bool) -> String {
    match used {
        Out::Unit | Out::Panic(_) | Out::Invalid => show_out(used),
        _ => {
            if diag {
                return show_out(used);
            }
            match op {
                Op::F(..) | Op::Fi(..) | Op::Inv(..) | Op::Ii(..) => format!("len={}", out_len(used)),
                _ => {
                    if valued {
                        show_out(used)
                    } else {
                        format!("len={}", out_len(used))
                    }
                }
            }
        }
    }
}

/// `base`: what the non-accumulating sibling (`fft` for `fft_into`, `fft_inv` for `fft_inv_into`) returns on a brand-new object.
fn view_of<F: HF>(op: &Op, used: &Out, fresh: &Out, base: &Out, exp: &Option<Vec<i128>>) -> String {
    let raw = show_out(used);
    let same = if used == fresh { "fresh=same" } else { "fresh=diff" };
    match (op, used) {
        (Op::U(_), _) | (_, Out::Panic(_)) | (_, Out::Invalid) => raw,
        (Op::F(..), Out::CVec(xs)) => {
            // PartialEq of Complex<F>, both methods, against the output of the brand-new object
            let (eq, ne) = match fresh {
                Out::CVec(ys) => {
                    let a = of_cbits::<F>(xs);
                    let b = of_cbits::<F>(ys);
                    (a.len() == b.len() && a.iter().zip(b.iter()).all(|(x, y)| x == y), a.len() != b.len() || a.iter().zip(b.iter()).any(|(x, y)| x != y))
                }
                _ => (false, true),
            };
            // ... and both methods on every pair of the first 8 bins (bins 0 and n/2 of a real input differ in one
            // component only), against the component-wise float comparison
            let a = of_cbits::<F>(xs);
            let k = a.len().min(8);
            let peq = (0..k).all(|i| {
                (0..k).all(|j| {
                    let want = a[i].x == a[j].x && a[i].y == a[j].y;
                    (a[i] == a[j]) == want && (a[i] != a[j]) == !want
                })
            });
            format!("len={} {} eq={} ne={} peq={}", xs.len(), same, eq, ne, if peq { "ok" } else { "wrong" })
        }
        (Op::Fi(v, n, rx, ry), Out::CVec(xs)) => {
            // destination entries beyond the transform size must be untouched, bit for bit
            let k = fft_size(v.len(), *n);
            let dest = cplx::<F>(rx, ry);
            let orig = cbits(&dest);
            let keep = xs.len() == orig.len() && xs.iter().skip(k).eq(orig.iter().skip(k));
            // on the common prefix: destination += what fft(v, n) returns (component-wise float addition)
            let add = match base {
                Out::CVec(b) => {
                    let b = of_cbits::<F>(b);
                    xs.len() == dest.len()
                        && (0..dest.len()).all(|i| {
                            let want = if i < b.len() { (dest[i].x + b[i].x, dest[i].y + b[i].y) } else { (dest[i].x, dest[i].y) };
                            xs[i] == (want.0.bits(), want.1.bits())
                        })
                }
                _ => false,
            };
            format!("len={} {} tail={} add={}", xs.len(), same, if keep { "kept" } else { "changed" }, if add { "ok" } else { "wrong" })
        }
        (Op::Inv(..), _) => same.to_string(),
        (Op::Ii(xs, _, res), Out::IVec(out)) => {
            let keep = out.len() == res.len() && out.iter().skip(xs.len()).eq(res.iter().skip(xs.len()));
            let add = match base {
                Out::IVec(b) => {
                    out.len() == res.len()
                        && (0..res.len()).all(|i| out[i] as i128 == res[i] as i128 + if i < b.len() { b[i] as i128 } else { 0 })
                }
                _ => false,
            };
            format!("{} tail={} add={}", same, if keep { "kept" } else { "changed" }, if add { "ok" } else { "wrong" })
        }
        (Op::Ii(..), _) => same.to_string(),
        (_, Out::IVec(xs)) => match exp {
            None => same.to_string(),
            Some(e) => {
                let orc = if e.len() == xs.len() && e.iter().zip(xs.iter()).all(|(p, q)| *p == *q as i128) { "oracle=exact" } else { "oracle=wrong" };
                format!("{} {} {}", raw, same, orc)
            }
        },
        _ => raw,
    }
}

fn sibling(op: &Op) -> Option<Op> {
    match op {
        Op::Fi(v, n, _, _) => Some(Op::F(v.clone(), *n)),
        Op::Ii(xs, ys, _) => Some(Op::Inv(xs.clone(), ys.clone())),
        _ => None,
    }
}

fn run_steps<F: HF>(steps: &[Step], ctor: &str) -> String {
    if steps.is_empty() {
        return out2("INVALID", "INVALID");
    }
    let diag = std::env::var("C04_DIAG").is_ok();
    let f32_ = F::NAME == "f32";
    let (last, hist) = steps.split_last().unwrap();
    // how object 0 is obtained: new() / default() / clone of a fresh one (histclone: the measured call runs on a clone
    // of its object); objects 1..3 start as new()
    let obj0 = match ctor {
        "default" => FFT::<F>::default(),
        "clone" => {
            let o = FFT::<F>::new();
            o.clone()
        }
        _ => FFT::<F>::new(),
    };
    let mut pool: Vec<FFT<F>> = vec![obj0, FFT::new(), FFT::new(), FFT::new()];
    for st in hist {
        match st {
            Step::Call(k, op, al) => {
                let _ = call(&mut pool[*k], op, *al);
            }
            Step::Clone(j, k) => {
                let c = pool[*j].clone();
                pool[*k] = c;
            }
            Step::CloneFrom(j, k) => {
                if j == k {
                    let src = pool[*j].clone();
                    pool[*k].clone_from(&src);
                } else if j < k {
                    let (lo, hi) = pool.split_at_mut(*k);
                    hi[0].clone_from(&lo[*j]);
                } else {
                    let (lo, hi) = pool.split_at_mut(*j);
                    lo[*k].clone_from(&hi[0]);
                }
            }
            Step::Default(k) => pool[*k] = FFT::<F>::default(),
            Step::Fresh(k) => pool[*k] = FFT::<F>::new(),
            Step::Take(j, k) => {
                let v = std::mem::take(&mut pool[*j]);
                pool[*k] = v;
            }
        }
    }
    let (k, last, al) = match last {
        Step::Call(k, op, al) => (*k, op, *al),
        _ => return out2("ok", "ok"),
    };
    let used = if ctor == "histclone" {
        let mut c = pool[k].clone();
        call(&mut c, last, al)
    } else {
        call(&mut pool[k], last, al)
    };
    // the brand-new object gets SEPARATE copies of the operands: `fresh=same` then also says that the answer does not
    // depend on where the operands live
    let mut fresh_obj = FFT::<F>::new();
    let fresh = call(&mut fresh_obj, last, None);
    let base = match sibling(last) {
        Some(s) => call(&mut FFT::<F>::new(), &s, None),
        None => Out::Unit,
    };
    let in_dom = value_in_domain(last, f32_);
    let exp = if in_dom { expected(last) } else { None };
    out2(&raw_of(last, &used, diag, exp.is_some()), &view_of::<F>(last, &used, &fresh, &base, &exp))
}

fn run_case(line: &str) -> String {
    let mut parts = line.split(';').map(|p| p.trim());
    let hdr: Vec<&str> = parts.next().unwrap_or("").split_whitespace().collect();
    let steps: Option<Vec<Step>> = parts.map(parse_step).collect();
    let steps = match steps {
        Some(o) => o,
        None => return out2("BAD-CASE", "BAD-CASE"),
    };
    match hdr.as_slice() {
        ["fft", "f64"] => run_steps::<f64>(&steps, "new"),
        ["fft", "f32"] => run_steps::<f32>(&steps, "new"),
        ["fft", "f64", c] if CTORS.contains(c) => run_steps::<f64>(&steps, c),
        ["fft", "f32", c] if CTORS.contains(c) => run_steps::<f32>(&steps, c),
        _ => out2("BAD-CASE", "BAD-CASE"),
    }
}

// ------------------------------------------------------------------------------------------------
// generator
// ------------------------------------------------------------------------------------------------

const CTORS: [&str; 4] = ["new", "default", "clone", "histclone"];

const PATTERNS: [&str; 8] = ["mixed", "allmax", "allneg", "alt", "sparse", "pos", "ends", "ramp"];

fn coeffs(rng: &mut SplitMix64, len: usize, maxabs: i64, pat: &str) -> Vec<i32> {
    let m = maxabs;
    let mut v = vec![0i32; len];
    match pat {
        "mixed" => {
            for x in v.iter_mut() {
                *x = rng.range_i64(-m, m) as i32;
            }
        }
        "allmax" => v.iter_mut().for_each(|x| *x = m as i32),
        "allneg" => v.iter_mut().for_each(|x| *x = -m as i32),
        "alt" => v.iter_mut().enumerate().for_each(|(i, x)| *x = if i % 2 == 0 { m as i32 } else { -m as i32 }),
        "sparse" => {
            let k = 1 + rng.below(6) as usize;
            for _ in 0..k {
                let p = rng.below(len as u64) as usize;
                v[p] = if rng.chance(1, 2) { m as i32 } else { -m as i32 };
            }
            // the two ends matter for the length of the product
            if rng.chance(1, 2) {
                v[len - 1] = -m as i32;
            }
        }
        "pos" => {
            for x in v.iter_mut() {
                *x = rng.range_i64(0, m) as i32;
            }
        }
        "ends" => {
            v[0] = m as i32;
            v[len - 1] = -m as i32;
        }
        _ => {
            // ramp: slowly varying, sign change in the middle
            for (i, x) in v.iter_mut().enumerate() {
                let t = (2 * i as i64 + 1 - len as i64) * m / (len as i64).max(1);
                *x = t.clamp(-m, m) as i32;
            }
        }
    }
    v
}

fn join<T: ToString>(v: &[T]) -> String {
    if v.is_empty() {
        return "-".into();
    }
    let s: Vec<String> = v.iter().map(|x| x.to_string()).collect();
    s.join(",")
}

fn bound_of(prec: &str) -> f64 {
    if prec == "f64" {
        1e12
    } else {
        1e3
    }
}

/// largest coefficient magnitude of the property's literal envelope max^2 * min(la, lb) <= bound (and inside i32).
/// Since the repair of finding F11 (`multiply_into` multiplies a much longer operand block by block, blocks of the
/// shorter operand's length) the real code is exact on the WHOLE literal envelope, so every stream is generated AT it,
/// however unbalanced the lengths are (1 x 4096, 2 x 8192, 7 x 1000, ...).
fn env_max(prec: &str, la: usize, lb: usize) -> i64 {
    let mn = la.min(lb).max(1) as f64;
    let mut m = (bound_of(prec) / mn).sqrt().floor() as i64;
    while (m + 1) * (m + 1) * (mn as i64) <= bound_of(prec) as i64 {
        m += 1;
    }
    while m > 0 && m * m * (mn as i64) > bound_of(prec) as i64 {
        m -= 1;
    }
    m.min(i32::MAX as i64)
}

/// Destination lengths that matter for the block loop of `multiply_into` (`short` = the shorter operand = block size):
/// empty, shorter than one block, exactly at / one before / one after a block boundary (first, middle, last block),
/// in the middle of a block, around the full product length.
fn block_dests(la: usize, lb: usize) -> Vec<usize> {
    let s = la.min(lb);
    let lg = la.max(lb);
    let l = la + lb - 1;
    let nb = (lg + s - 1) / s;
    let mut v = vec![
        0,
        1,
        s.saturating_sub(1),
        s,
        s + 1,
        2 * s - 1,
        2 * s,
        2 * s + 1,
        (nb / 2) * s,
        (nb / 2) * s + s / 2 + 1,
        ((nb - 1) * s).saturating_sub(1),
        (nb - 1) * s,
        (nb - 1) * s + 1,
        l - 1,
        l,
        l + 3,
    ];
    v.retain(|&x| x <= l + 3);
    v.sort();
    v.dedup();
    v
}

struct Gen<'a> {
    rng: SplitMix64,
    emit: &'a mut dyn FnMut(String),
    stats: &'a mut Stats,
    cap_hist: usize, // largest table size a history op may request
    /// destination length of the next generated `mi` (stream `unbalanced`: lengths relative to block boundaries)
    dest_override: Option<usize>,
}

impl<'a> Gen<'a> {
    /// a small multiplication used as a history op, transform size about `n`
    fn hist_op(&mut self, prec: &str, n: usize) -> String {
        let n = n.max(2);
        let kind = self.rng.below(7);
        if n > 2048 || kind == 0 {
            self.stats.bump("hist_op:u");
            return format!("u {}", n);
        }
        // lengths with la + lb - 1 <= n (so the transform size is exactly n when > n/2)
        let total = n / 2 + 1 + self.rng.below((n / 2) as u64) as usize; // in (n/2, n]
        let la = 1 + self.rng.below(total as u64) as usize;
        let lb = (total + 1 - la).max(1);
        let m = env_max(prec, la, lb).min(1000).max(1);
        let pat_a = *self.rng.pick(&PATTERNS);
        let a = coeffs(&mut self.rng, la, m, pat_a);
        let b = coeffs(&mut self.rng, lb, m, "mixed");
        match kind {
            1 | 2 => {
                self.stats.bump("hist_op:m");
                format!("m {} {}", join(&a), join(&b))
            }
            3 => {
                self.stats.bump("hist_op:mi");
                let res: Vec<i64> = (0..(la + lb)).map(|_| self.rng.range_i64(-1000, 1000)).collect();
                format!("mi {} {} {}", join(&a), join(&b), join(&res))
            }
            4 => {
                self.stats.bump("hist_op:f");
                let v = coeffs(&mut self.rng, (n / 2 + 1).min(n), m, "mixed");
                format!("f {} {}", join(&v), n)
            }
            5 if n <= 256 => {
                self.stats.bump("hist_op:fx");
                let form = *self.rng.pick(&["0,1,*=", "c0,1,*", "Dz,0,1,*,+=", "0,1,conj,*"]);
                format!("fx {} {} - {} {}", form, n, join(&a), join(&b))
            }
            _ => {
                self.stats.bump("hist_op:fm");
                format!("fm {} {} {}", join(&a), join(&b), n)
            }
        }
    }

    /// Spread the steps of a case over the 4 live objects of the pool and put pool operations (clone, clone_from,
    /// default, new, mem::take) between them: several objects alive and used interleaved, objects cloned
    /// mid-history with both copies used afterwards, objects replaced by default()/new() and moved out of.
    fn poolify(&mut self, ops: Vec<String>) -> Vec<String> {
        let mut out = vec![];
        let last = ops.len() - 1;
        // the object the measured call runs on; most of the history goes to the object whose state ends up there
        let target = self.rng.below(POOL as u64) as usize;
        let mut lineage = target;
        if self.rng.chance(1, 2) {
            lineage = self.rng.below(POOL as u64) as usize;
        }
        for (i, op) in ops.into_iter().enumerate() {
            if i == last {
                if lineage != target {
                    let how = self.rng.below(3);
                    out.push(match how {
                        0 => format!("cl {} {}", lineage, target),
                        1 => format!("cf {} {}", lineage, target),
                        _ => format!("tk {} {}", lineage, target),
                    });
                    self.stats.bump(["pool:clone-into-target", "pool:clone_from-into-target", "pool:take-into-target"][how as usize]);
                    if how < 2 && self.rng.chance(1, 2) {
                        // both copies are used afterwards
                        let n = 2usize << self.rng.below(5);
                        out.push(format!("@{} u {}", lineage, n));
                    }
                }
                out.push(format!("@{} {}", target, op));
                break;
            }
            let k = if self.rng.chance(2, 3) { lineage } else { self.rng.below(POOL as u64) as usize };
            out.push(if k == 0 && self.rng.chance(1, 2) { op } else { format!("@{} {}", k, op) });
            if self.rng.chance(1, 3) {
                // a pool operation that does not destroy the lineage object's history
                let mut j = self.rng.below(POOL as u64) as usize;
                let mut d = self.rng.below(POOL as u64) as usize;
                if d == lineage {
                    d = (d + 1) % POOL;
                }
                if j == lineage && self.rng.chance(1, 2) {
                    j = (j + 1) % POOL;
                }
                let kind = self.rng.below(5);
                self.stats.bump(["pool:cl", "pool:cf", "pool:df", "pool:nw", "pool:tk"][kind as usize]);
                out.push(match kind {
                    0 => format!("cl {} {}", j, d),
                    1 => format!("cf {} {}", j, d),
                    2 => format!("df {}", d),
                    3 => format!("nw {}", d),
                    _ => {
                        // take moves the lineage along with the value
                        if j == lineage {
                            lineage = d;
                        }
                        format!("tk {} {}", j, d)
                    }
                });
            }
        }
        out
    }

    /// ops performed on the object before the measured call; `n` = transform size of the measured call
    fn history(&mut self, prec: &str, kind: &str, n: usize) -> Vec<String> {
        self.stats.bump(&format!("history:{}", kind));
        let n = n.max(2);
        match kind {
            "fresh" => vec![],
            "larger" => {
                let up = 1usize << (1 + self.rng.below(3));
                let big = (n * up).min(self.cap_hist.max(n * 2));
                vec![self.hist_op(prec, big)]
            }
            "smaller" => {
                let down = 1usize << (1 + self.rng.below(3));
                vec![self.hist_op(prec, (n / down).max(2))]
            }
            "same" => vec![self.hist_op(prec, n)],
            _ => {
                // interleaved: 3..6 calls of mixed sizes around n
                let k = 3 + self.rng.below(4) as usize;
                (0..k)
                    .map(|_| {
                        let sh = self.rng.below(7) as i32 - 3;
                        let sz = if sh >= 0 { n << sh } else { n >> (-sh) };
                        self.hist_op(prec, sz.clamp(2, self.cap_hist.max(n * 2)))
                    })
                    .collect()
            }
        }
    }

    /// destination length: relative to the number `l` of entries the call writes and to the transform size `n`
    fn dest_len(&mut self, l: usize, n: usize) -> usize {
        let k = self.rng.below(8);
        let rl = match k {
            0 => l.saturating_sub(1 + self.rng.below(3) as usize),
            1 => l + 1 + self.rng.below(3) as usize,
            2 => n + 1 + self.rng.below(n as u64) as usize,     // longer than n (up to 2n)
            3 => 2 * n + 1 + self.rng.below(5) as usize,        // longer than 2n
            4 => self.rng.below(l as u64 + 1) as usize,         // anything shorter, empty included
            _ => l,
        };
        let rl = rl.min(l + 5000); // keep lines of huge cases bounded
        self.stats.bump(if rl < l { "dest:shorter" } else if rl == l { "dest:equal" } else if rl <= n { "dest:longer" } else if rl <= 2 * n { "dest:>n" } else { "dest:>2n" });
        rl
    }

    fn dest(&mut self, rl: usize) -> Vec<i64> {
        (0..rl)
            .map(|_| {
                let r = self.rng.range_i64(-1_000_000_000_000, 1_000_000_000_000);
                if r == 0 {
                    7
                } else {
                    r
                }
            })
            .collect()
    }

    fn measured(&mut self, prec: &str, opk: &str, a: &[i32], b: &[i32]) -> (String, usize) {
        let l = a.len() + b.len() - 1;
        let mut n = 2;
        while n < l {
            n *= 2;
        }
        self.stats.bump(&format!("op:{}", opk));
        match opk {
            "m" => (format!("m {} {}", join(a), join(b)), n),
            "mi" => {
                // destination pre-filled with non-zero data; shorter / equal / longer than |a|+|b|-1,
                // also longer than the transform size n and than 2n
                // for unbalanced operands (block loop of multiply_into) half of the destinations end at / next to /
                // inside a block boundary
                let unbalanced = a.len().max(b.len()) > 2 * a.len().min(b.len());
                let rl = match self.dest_override.take() {
                    Some(rl) => {
                        self.stats.bump("dest:block-relative");
                        rl
                    }
                    None if unbalanced && self.rng.chance(1, 2) => {
                        self.stats.bump("dest:block-relative");
                        let ds = block_dests(a.len(), b.len());
                        *self.rng.pick(&ds)
                    }
                    None => self.dest_len(l, n),
                };
                let res = self.dest(rl);
                (format!("mi {} {} {}", join(a), join(b), join(&res)), n)
            }
            "fmi" => {
                let nn = if self.rng.chance(1, 4) { n * 2 } else { n };
                let rl = self.dest_len(nn, nn);
                let res = self.dest(rl);
                (format!("fmi {} {} {} {}", join(a), join(b), nn, join(&res)), nn)
            }
            _ => {
                let nn = if self.rng.chance(1, 4) { n * 2 } else { n };
                let _ = prec;
                (format!("{} {} {} {}", opk, join(a), join(b), nn), nn)
            }
        }
    }

    fn mul_case(&mut self, prec: &str, la: usize, lb: usize, pat_a: &str, pat_b: &str, opk: &str, hist: &str, stream: &str) {
        let m = env_max(prec, la, lb);
        if m == 0 {
            return;
        }
        // at the envelope for most cases, sometimes far inside
        let m = if self.rng.chance(1, 5) { 1 + self.rng.below(m as u64) as i64 } else { m };
        let a = coeffs(&mut self.rng, la, m, pat_a);
        let b = coeffs(&mut self.rng, lb, m, pat_b);
        let (last, n) = self.measured(prec, opk, &a, &b);
        let mut ops = self.history(prec, hist, n);
        ops.push(last);
        self.stats.bump(&format!("stream:{}", stream));
        self.stats.bump(&format!("prec:{}", prec));
        self.stats.bump(&format!("pattern:{}", pat_a));
        self.stats.bump(&format!("size:{}:2^{}", prec, n.trailing_zeros()));
        if opk == "m" || opk == "mi" {
            // which path of multiply_into: single transform, or the block loop (ratio of the lengths, ragged last block,
            // a ragged block so short that the recursive call splits again)
            let (sh, lg) = (la.min(lb), la.max(lb));
            if lg > 2 * sh {
                let ratio = lg / sh;
                self.stats.bump(if ratio < 8 { "blocks:ratio<8" } else if ratio < 1000 { "blocks:ratio<1000" } else { "blocks:ratio>=1000" });
                self.stats.bump(if la <= lb { "blocks:short-first" } else { "blocks:long-first" });
                let r = lg % sh;
                self.stats.bump(if r == 0 { "blocks:last-full" } else if sh > 2 * r { "blocks:last-ragged-recursive" } else { "blocks:last-ragged" });
            } else {
                self.stats.bump("blocks:none(single-transform)");
            }
        }
        // how the object is obtained: mostly new(), otherwise default() / clone of a fresh one / clone after the history
        let ctor = match self.rng.below(8) {
            0 => " default",
            1 => " clone",
            2 => " histclone",
            _ => "",
        };
        self.stats.bump(&format!("ctor:{}", if ctor.is_empty() { "new" } else { ctor.trim() }));
        // one case in six runs on a pool of live objects used interleaved
        let ops = if self.rng.chance(1, 6) {
            self.stats.bump("pool:cases");
            self.poolify(ops)
        } else {
            ops
        };
        (self.emit)(format!("fft {}{} ; {}", prec, ctor, ops.join(" ; ")));
    }

    /// non-zero small destination
    fn dest_small(&mut self, rl: usize) -> Vec<i64> {
        (0..rl)
            .map(|i| {
                let r = self.rng.range_i64(-1000, 1000);
                if r == 0 {
                    7 + i as i64
                } else {
                    r
                }
            })
            .collect()
    }

    /// Emit one degenerate-size case: constructor kinds cycle, a light history (none / larger table / tiny call /
    /// other live objects), the measured op as given.
    fn emit_degenerate(&mut self, prec: &str, idx: usize, last: String) {
        let ctor = CTORS[idx % CTORS.len()];
        let hist: Vec<String> = match (idx / 4) % 5 {
            0 => vec![],
            1 => vec!["u 16".to_string()],
            2 => vec!["m 3 4,5".to_string()],
            3 => vec!["@1 m 1,2,3 4,5,6".to_string(), "cl 1 2".to_string(), "@2 fmi 2 3 1 5".to_string()],
            _ => vec!["fmi 6 -7 1 9,9".to_string(), "ii 5 0 3,3".to_string()],
        };
        let mut ops = hist;
        ops.push(last);
        self.stats.bump("stream:degenerate");
        self.stats.bump(&format!("ctor:{}", ctor));
        (self.emit)(format!("fft {} {} ; {}", prec, ctor, ops.join(" ; ")));
    }

    /// Stream `degenerate`: EVERY entry point at transform sizes 1, 2, 4 (and the auto-size n = 0), operands of length
    /// 0..4, destinations of every length around the written prefix (0, 1, shorter, equal, longer, longer than 2n), all
    /// destinations NON-ZERO (an accumulate-into function that overwrites is visible only then).
    fn degenerate(&mut self, thorough: bool) {
        let mut idx = 0usize;
        for prec in ["f64", "f32"] {
            let m = if prec == "f64" { 1000 } else { 9 };
            // multiply_into, operands of length 1..3
            for la in 1..=3usize {
                for lb in 1..=3usize {
                    let l = la + lb - 1;
                    let mut dls = vec![0, 1, 2, l.saturating_sub(1), l, l + 1, l + 3];
                    dls.sort();
                    dls.dedup();
                    for rl in dls {
                        idx += 1;
                        let a = coeffs(&mut self.rng, la, m, "mixed");
                        let b = coeffs(&mut self.rng, lb, m, "alt");
                        let d = self.dest_small(rl);
                        self.stats.bump("degenerate:mi");
                        self.emit_degenerate(prec, idx, format!("mi {} {} {}", join(&a), join(&b), join(&d)));
                    }
                }
            }
            // forward / pointwise / inverse, every route, transform sizes 1, 2, 4, 8 and auto-size
            for la in 1..=4usize {
                for lb in 1..=4usize {
                    for n in [0usize, 1, 2, 4, 8] {
                        let nn = fft_size(la, n);
                        if nn != fft_size(lb, n) || la > nn || lb > nn {
                            continue;
                        }
                        let mm = env_max(prec, la, lb).min(m);
                        let a = coeffs(&mut self.rng, la, mm, "allmax");
                        let b = coeffs(&mut self.rng, lb, mm, "mixed");
                        idx += 1;
                        let opk = if idx % 2 == 0 { "fm" } else { "fmx" };
                        self.stats.bump(&format!("degenerate:{}:n={}", opk, n));
                        self.emit_degenerate(prec, idx, format!("{} {} {} {}", opk, join(&a), join(&b), n));
                        let mut dls = vec![0, 1, 2, nn.saturating_sub(1), nn, nn + 1, 2 * nn, 2 * nn + 1];
                        dls.sort();
                        dls.dedup();
                        for rl in dls {
                            if !thorough && nn == 8 && rl % 2 == 0 {
                                continue;
                            }
                            idx += 1;
                            let d = self.dest_small(rl);
                            self.stats.bump(&format!("degenerate:fmi:n={}", n));
                            self.emit_degenerate(prec, idx, format!("fmi {} {} {} {}", join(&a), join(&b), n, join(&d)));
                        }
                    }
                }
            }
            // fft / fft_into: lengths 0..3, sizes 0 (auto), 1, 2, 4
            for lv in 0..=3usize {
                for n in [0usize, 1, 2, 4] {
                    let nn = fft_size(lv, n);
                    if lv > nn {
                        continue;
                    }
                    let v = if lv == 0 { vec![] } else { coeffs(&mut self.rng, lv, 1000, "mixed") };
                    idx += 1;
                    self.stats.bump("degenerate:f");
                    self.emit_degenerate(prec, idx, format!("f {} {}", join(&v), n));
                    let mut dls = vec![0, 1, 2, nn, nn + 1, 2 * nn + 1];
                    dls.sort();
                    dls.dedup();
                    for rl in dls {
                        idx += 1;
                        let rx: Vec<i32> = self.dest_small(rl).iter().map(|&x| x as i32).collect();
                        let ry: Vec<i32> = self.dest_small(rl).iter().map(|&x| x as i32).collect();
                        self.stats.bump("degenerate:fi");
                        self.emit_degenerate(prec, idx, format!("fi {} {} {} {}", join(&v), n, join(&rx), join(&ry)));
                    }
                }
            }
            // fft_inv / fft_inv_into of arbitrary complex input, sizes 1, 2, 4
            for n in [1usize, 2, 4] {
                for rep in 0..3 {
                    let xs = coeffs(&mut self.rng, n, 1000, if rep == 0 { "allmax" } else { "mixed" });
                    let ys = coeffs(&mut self.rng, n, 1000, if rep == 1 { "allneg" } else { "mixed" });
                    idx += 1;
                    self.stats.bump("degenerate:inv");
                    self.emit_degenerate(prec, idx, format!("inv {} {}", join(&xs), join(&ys)));
                    let mut dls = vec![0, 1, n.saturating_sub(1), n, n + 1, 2 * n + 1];
                    dls.sort();
                    dls.dedup();
                    for rl in dls {
                        idx += 1;
                        let d = self.dest_small(rl);
                        self.stats.bump("degenerate:ii");
                        self.emit_degenerate(prec, idx, format!("ii {} {} {}", join(&xs), join(&ys), join(&d)));
                    }
                }
            }
            for n in [1usize, 2, 4] {
                idx += 1;
                self.emit_degenerate(prec, idx, format!("u {}", n));
            }
        }
    }

    /// Stream `dest-sweep` (both build profiles): EVERY destination length, one by one, for every accumulate-into entry
    /// point on small shapes - `multiply_into` on balanced shapes and on shapes that take the block loop (both operand
    /// orders, lengths 0 ..= |a|+|b|+1: every residue modulo the block length, before / at / after every block
    /// boundary, shorter than the longer operand), `fft_inv_into` after forward-pointwise (`fmi`) and on its own (`ii`),
    /// `fft_into` (`fi`) and a spectral product (`fx`) for transform sizes 1..16 (lengths 0 ..= n+2, 2n, 2n+1), with every
    /// history kind and constructor kind in turn.  A length-dependent check or branch in one of these functions (also
    /// one that exists only under `debug_assert!` / `cfg(debug_assertions)`) cannot fall between the sampled lengths.
    fn dest_sweep(&mut self, thorough: bool) {
        let shapes: [(usize, usize); 18] = [
            (1, 1), (1, 2), (2, 2), (2, 3), (3, 3), (3, 5), (4, 8), (5, 7),
            (1, 3), (1, 5), (2, 5), (2, 9), (3, 7), (3, 10), (4, 9), (4, 13), (5, 16), (6, 31),
        ];
        let mut idx = 0usize;
        for prec in ["f64", "f32"] {
            let put = |g: &mut Self, idx: usize, n: usize, kind: &str, last: String| {
                let hist = HIST[(idx / 3) % HIST.len()];
                let mut ops = g.history(prec, hist, n);
                ops.push(last);
                let ctor = CTORS[idx % CTORS.len()];
                g.stats.bump("stream:dest-sweep");
                g.stats.bump(&format!("dest-sweep:{}", kind));
                g.stats.bump(&format!("prec:{}", prec));
                g.stats.bump(&format!("ctor:{}", ctor));
                (g.emit)(format!("fft {} {} ; {}", prec, ctor, ops.join(" ; ")));
            };
            for &(la0, lb0) in &shapes {
                for order in 0..2 {
                    if order == 1 && la0 == lb0 {
                        continue;
                    }
                    let (la, lb) = if order == 0 { (la0, lb0) } else { (lb0, la0) };
                    let l = la + lb - 1;
                    let mut n = 2;
                    while n < l {
                        n *= 2;
                    }
                    let m = env_max(prec, la, lb);
                    for rl in 0..=(l + 2) {
                        // quick tier: the longest shape on every other length in f32
                        if !thorough && prec == "f32" && lb0 > 16 && rl % 2 == order {
                            continue;
                        }
                        idx += 1;
                        let a = coeffs(&mut self.rng, la, m, PATTERNS[idx % PATTERNS.len()]);
                        let b = coeffs(&mut self.rng, lb, m, "mixed");
                        let d = self.dest(rl);
                        let unbalanced = lb0 > 2 * la0;
                        let kind = if !unbalanced {
                            "mi:single-transform"
                        } else if rl >= lb0 {
                            "mi:blocks:dest>=long"
                        } else if rl % la0 == 0 {
                            "mi:blocks:dest<long,at-boundary"
                        } else {
                            "mi:blocks:dest<long,inside-block"
                        };
                        put(self, idx, n, kind, format!("mi {} {} {}", join(&a), join(&b), join(&d)));
                    }
                }
            }
            for n in [1usize, 2, 4, 8, 16] {
                let mut dls: Vec<usize> = (0..=(n + 2)).collect();
                dls.extend_from_slice(&[2 * n, 2 * n + 1]);
                dls.sort();
                dls.dedup();
                for &rl in &dls {
                    // forward, pointwise product, fft_inv_into (cyclic when the product is longer than n)
                    let la = 1 + self.rng.below(n as u64) as usize;
                    let lb = 1 + self.rng.below(n as u64) as usize;
                    let m = env_max(prec, la, lb);
                    let a = coeffs(&mut self.rng, la, m, "mixed");
                    let b = coeffs(&mut self.rng, lb, m, "allmax");
                    idx += 1;
                    let d = self.dest(rl);
                    put(self, idx, n, "fmi", format!("fmi {} {} {} {}", join(&a), join(&b), n, join(&d)));
                    // a spectral product through the operators of Complex<F>
                    idx += 1;
                    let d = self.dest(rl);
                    let form = ["0,1,*", "0,1,*=", "c0,1,*"][idx % 3];
                    put(self, idx, n, "fx", format!("fx {} {} {} {} {}", form, n, join(&d), join(&a), join(&b)));
                    // fft_inv_into of arbitrary complex input
                    let xs = coeffs(&mut self.rng, n, 1000, "mixed");
                    let ys = coeffs(&mut self.rng, n, 1000, "mixed");
                    idx += 1;
                    let d = self.dest_small(rl);
                    put(self, idx, n, "ii", format!("ii {} {} {}", join(&xs), join(&ys), join(&d)));
                    // fft_into, explicit size and auto-size
                    let lv = 1 + self.rng.below(n as u64) as usize;
                    let v = coeffs(&mut self.rng, lv, 1000, "mixed");
                    let rx: Vec<i32> = self.dest_small(rl).iter().map(|&x| x as i32).collect();
                    let ry: Vec<i32> = self.dest_small(rl).iter().map(|&x| x as i32).collect();
                    idx += 1;
                    let auto = idx % 4 == 0 && fft_size(lv, 0) == n;
                    put(self, idx, n, "fi", format!("fi {} {} {} {}", join(&v), if auto { 0 } else { n }, join(&rx), join(&ry)));
                }
            }
        }
    }

    /// Stream `aliased` (both build profiles): the two operands of multiply / multiply_into / forward-pointwise-inverse are
    /// SLICES OF ONE BUFFER (`al<o>` in front of the call, `o` = start of `b` minus start of `a`): the very same slice,
    /// one operand a prefix of the other (same start address, different lengths), a suffix, an inner sub-slice, slices
    /// that overlap partly, neighbouring parts of one allocation - both operand orders, shapes that take the single
    /// transform and shapes that take the block loop, every history / constructor kind in turn.  Expected: what the call
    /// returns for separate copies (the specification knows no addresses).
    fn aliased(&mut self, thorough: bool, lite: bool) {
        let mut shapes: Vec<(usize, usize)> = vec![];
        for l0 in 1..=6usize {
            for l1 in 1..=l0 {
                shapes.push((l0, l1));
            }
        }
        shapes.extend_from_slice(&[(8, 3), (9, 9), (13, 4), (16, 16), (17, 5), (31, 7), (33, 32), (40, 13), (64, 64), (100, 33), (129, 1), (200, 64)]);
        if !lite {
            shapes.extend_from_slice(&[(257, 100), (512, 512), (1000, 7)]);
        }
        if thorough {
            shapes.extend_from_slice(&[(1024, 1024), (2048, 300), (4096, 4096), (8192, 16), (5000, 4999), (65536, 3)]);
        }
        let pats = ["mixed", "allmax", "ramp", "pos", "alt", "mixed", "allneg"];
        let mut idx = 0usize;
        for prec in ["f64", "f32"] {
            for &(l0, l1) in &shapes {
                let m = env_max(prec, l0, l1);
                if m == 0 {
                    continue;
                }
                // start of the short slice inside the buffer of the long one
                let mut offs: Vec<(usize, &str)> = vec![(0, if l0 == l1 { "same-slice" } else { "prefix(same-start)" })];
                if l0 > l1 {
                    offs.push((l0 - l1, "suffix"));
                    if l0 - l1 >= 2 {
                        offs.push(((l0 - l1) / 2, "inner"));
                    }
                }
                if l1 >= 2 {
                    offs.push((l0 - l1 / 2, "overlap"));
                }
                offs.push((l0, "adjacent"));
                for (o, kind) in offs {
                    for swap in [false, true] {
                        if swap && o == 0 && l0 == l1 {
                            continue;
                        }
                        idx += 1;
                        let buf = coeffs(&mut self.rng, l0.max(o + l1), m, pats[idx % pats.len()]);
                        let long = &buf[..l0];
                        let short = &buf[o..o + l1];
                        let (a, b, al) = if swap { (short, long, -(o as i64)) } else { (long, short, o as i64) };
                        let mut opks = vec![["m", "mi"][(idx / 2) % 2]];
                        if idx % 3 == 0 {
                            opks.push(["fm", "fmx", "fmi"][(idx / 3) % 3]);
                        }
                        for opk in opks {
                            let (last, n) = self.measured(prec, opk, a, b);
                            let hist = HIST[(idx / 2) % HIST.len()];
                            let mut ops = self.history(prec, hist, n);
                            ops.push(format!("al{} {}", al, last));
                            let ctor = CTORS[(idx / 5) % CTORS.len()];
                            self.stats.bump("stream:aliased");
                            self.stats.bump(&format!("aliased:{}", kind));
                            self.stats.bump(&format!("aliased:op:{}", opk));
                            self.stats.bump(if swap { "aliased:short-first" } else { "aliased:long-first" });
                            if (opk == "m" || opk == "mi") && l0 > 2 * l1 {
                                self.stats.bump("aliased:block-loop");
                            }
                            self.stats.bump(&format!("prec:{}", prec));
                            self.stats.bump(&format!("ctor:{}", ctor));
                            let ops = if idx % 6 == 0 { self.poolify(ops) } else { ops };
                            (self.emit)(format!("fft {} {} ; {}", prec, ctor, ops.join(" ; ")));
                        }
                    }
                }
            }
        }
    }

    /// operand vectors of a spectral case: operands of the given lengths, magnitude `m`
    fn fx_operands(&mut self, lens: &[usize], m: i64, monomial_last: bool, n: usize) -> Vec<Vec<i32>> {
        let mut vs = vec![];
        for (i, &l) in lens.iter().enumerate() {
            if monomial_last && i + 1 == lens.len() {
                // a unit monomial +-x^j, j < n
                let j = self.rng.below(n as u64) as usize;
                let mut v = vec![0i32; j + 1];
                v[j] = if self.rng.chance(1, 2) { 1 } else { -1 };
                vs.push(v);
            } else {
                let pat = *self.rng.pick(&PATTERNS);
                vs.push(coeffs(&mut self.rng, l, m, pat));
            }
        }
        vs
    }

    /// Stream `spectral`: the PUBLIC operators of `Complex<F>` a caller can apply to spectra between the forward and the
    /// inverse transform, each in its operator form and its assign form, with Copy and `.clone()` operands, `ZERO` and
    /// `default()`: products (`*`, `*=`), sums and differences of products, negation, scaling and division by a scalar,
    /// conjugation (= index reversal), `abs2` / `abs` (= autocorrelation), division by the spectrum of a unit monomial
    /// (= cyclic shift), `ONE`, `I`.  Expected: the same expression evaluated exactly in Z[i][x]/(x^n - 1).
    fn spectral(&mut self, thorough: bool, lite: bool) {
        // (rpn, number of operands, last operand is a unit monomial)
        let templates: [(&str, usize, bool); 46] = [
            ("0,1,*", 2, false), ("0,1,*=", 2, false), ("c0,c1,*", 2, false), ("c0,1,*=", 2, false), ("1,0,*=", 2, false),
            ("Dz,0,1,*,+=", 2, false), ("Z,0,1,*,+", 2, false), ("0,1,*,Z,+=", 2, false), ("0,1,*,Dz,-", 2, false),
            ("0,1,*,2,3,*,+", 4, false), ("0,1,*=,2,3,*=,+=", 4, false), ("0,1,*,2,3,*,-", 4, false), ("0,1,*,2,3,*,-=", 4, false),
            ("0,1,*,neg", 2, false), ("Z,0,1,*,-=", 2, false), ("0,neg,1,neg,*", 2, false), ("0,1,+,2,*", 3, false), ("0,1,-=,2,*=", 3, false),
            ("0,1,*,s2", 2, false), ("0,1,*,s=-3", 2, false), ("0,s4,1,*,d4", 2, false), ("0,s=2,1,*,d=2", 2, false), ("0,1,*,s8,d=-8", 2, false),
            ("0,s-1,1,*=", 2, false), ("0,1,conj,*", 2, false), ("0,conj,1,*=", 2, false), ("0,conj,conj,1,*", 2, false), ("0,1,*,conj", 2, false),
            ("0,abs2", 1, false), ("0,absq", 1, false), ("0,0,conj,*", 1, false), ("0,abs2,1,*", 2, false),
            ("0,1,*,2,/", 3, true), ("0,1,*=,2,/=", 3, true), ("0,2,/,1,*", 3, true), ("0,1,/", 2, true), ("0,1,conj,/=", 2, true),
            ("0,I,*,I,*", 1, false), ("0,I,/,I,/=", 1, false), ("0,O,*", 1, false), ("O,0,*=", 1, false), ("0,1,*,O,/", 2, false),
            ("0,1,*,2,*", 3, false), ("0,1,*=,2,*=,3,+", 4, false), ("cf0,1,*", 2, false), ("0,cf1,*=", 2, false),
        ];
        let ks: &[u32] = if thorough { &[0, 1, 2, 3, 4, 5, 6, 7, 8, 9, 10] } else { &[0, 1, 2, 3, 5, 8] };
        let mut idx = 0usize;
        for prec in ["f64", "f32"] {
            for (ti, &(rpn, cnt, mono)) in templates.iter().enumerate() {
                for &k in ks {
                    idx += 1;
                    // larger sizes only for every third template (the exact oracles are quadratic in n)
                    if k >= 6 && (ti + k as usize) % 3 != 0 && !thorough {
                        continue;
                    }
                    // debug profile: size 256 for one template in nine
                    if lite && k >= 6 && (ti + k as usize) % 9 != 0 {
                        continue;
                    }
                    let n = 1usize << k;
                    // operand lengths: mostly no wrap-around (la + lb - 1 <= n), one case in four wraps (cyclic)
                    let wrap = idx % 4 == 3 && n >= 4;
                    let lens: Vec<usize> = (0..cnt)
                        .map(|_| {
                            let hi = if wrap { n } else { (n / 2).max(1) };
                            1 + self.rng.below(hi as u64) as usize
                        })
                        .collect();
                    // magnitude: the largest (shrinking) for which the envelope carried through the expression holds
                    let toks = parse_rpn(rpn).expect("template");
                    let mut m = env_max(prec, lens[0], *lens.get(1).unwrap_or(&lens[0])).max(1);
                    if idx % 5 == 0 {
                        m = 1 + self.rng.below(m as u64) as i64;
                    }
                    let mut vs = self.fx_operands(&lens, m, mono, n);
                    let bound = prec_bound(prec == "f32");
                    let mut tries = 0;
                    while !matches!(fx_weight(&toks, &vs, n), Some((s, _)) if s <= bound) && m > 1 && tries < 80 {
                        m = (m * 2 / 3).max(1);
                        vs = self.fx_operands(&lens, m, mono, n);
                        tries += 1;
                    }
                    let l = n;
                    let rl = match idx % 6 {
                        0 => 0,
                        1 => l.saturating_sub(1),
                        2 => l + 1 + self.rng.below(3) as usize,
                        3 => 2 * l + 1,
                        _ => l,
                    };
                    let d = if idx % 7 == 0 { vec![0i64; rl] } else { self.dest(rl) };
                    let last = format!("fx {} {} {} {}", rpn, n, join(&d), vs.iter().map(|v| join(v)).collect::<Vec<_>>().join(" "));
                    let hist = HIST[idx % HIST.len()];
                    let mut ops = self.history(prec, hist, n);
                    ops.push(last);
                    let op_probe = Op::Fx(toks.clone(), vs.clone(), n, d.clone());
                    let dom = value_in_domain(&op_probe, prec == "f32") && expected(&op_probe).is_some();
                    self.stats.bump(if dom { "fx:valued" } else { "fx:not-valued" });
                    self.stats.bump(&format!("fx:template:{}", rpn));
                    self.stats.bump("stream:spectral");
                    self.stats.bump(&format!("prec:{}", prec));
                    let ctor = match idx % 8 {
                        0 => " default",
                        1 => " clone",
                        2 => " histclone",
                        _ => "",
                    };
                    let ops = if idx % 5 == 1 { self.poolify(ops) } else { ops };
                    (self.emit)(format!("fft {}{} ; {}", prec, ctor, ops.join(" ; ")));
                }
            }
        }
    }
}

const HIST: [&str; 5] = ["fresh", "larger", "smaller", "same", "interleaved"];
const OPS: [&str; 5] = ["m", "mi", "fm", "fmx", "fmi"];

fn gen(args: &Args, emit: &mut dyn FnMut(String), stats: &mut Stats) {
    // `--profile debug` (checks/C04.py: harness_args): the SAME generator families on a reduced stream - the unoptimised
    // build with debug assertions is ~10 times slower and the Lean model answers the stream a second time.  Reduced are
    // only the SIZES (few cases above 2^9, one per size above 2^10) and the number of random cases; every entry point,
    // every history kind, every constructor kind and every destination-length class of the `*_into` functions stays
    // (stream `dest-sweep` and ALL block-relative destinations of the small unbalanced shapes are in both profiles).
    // Thorough tier: the debug profile runs the whole quick-tier stream of the release profile.
    let dbg = args.extra.get("profile").map_or(false, |p| p == "debug");
    let thorough = args.tier == "thorough" && !dbg;
    let lite = dbg && args.tier != "thorough";
    if dbg {
        stats.bump(if lite { "debug_profile_reduced_stream" } else { "debug_profile_quick_stream" });
    }
    let kmax: u32 = if thorough { 17 } else { 12 };
    let mut g = Gen { rng: SplitMix64::new(args.seed ^ 0xC04), emit, stats, cap_hist: if lite { 1 << 9 } else { 1usize << (kmax + 1) }, dest_override: None };
    let mut ctr = 0usize;
    let dense_cap: u64 = if thorough { 1 << 21 } else { 1 << 19 };

    // (i) every length pair 1..=40 (both precisions; quick: f32 on a third of the pairs)
    for la in 1..=40usize {
        for lb in 1..=40usize {
            for prec in ["f64", "f32"] {
                ctr += 1;
                if prec == "f32" && !thorough && ctr % 3 != 0 {
                    continue;
                }
                let pa = PATTERNS[ctr % PATTERNS.len()];
                let pb = PATTERNS[(ctr / PATTERNS.len()) % PATTERNS.len()];
                let opk = OPS[(la + 2 * lb + ctr / 7) % 5];
                let hist = HIST[(la * 3 + lb + ctr / 5) % HIST.len()];
                g.mul_case(prec, la, lb, pa, pb, opk, hist, "pairs<=40");
            }
        }
    }

    // (ii) lengths around powers of two, where the transform size switches
    for k in 1..=kmax {
        let p = 1usize << k;
        let mut pairs: Vec<(usize, usize)> = vec![];
        for la in [p - 1, p, p + 1] {
            if la == 0 {
                continue;
            }
            for lb in [1usize, 2, 3, 33] {
                pairs.push((la, lb));
                pairs.push((lb, la));
            }
        }
        // |a| + |b| - 1 in {p-1, p, p+1, p+2}: the size of the transform switches between p and 2p
        for l in [p - 1, p, p + 1, p + 2] {
            let tot = l + 1;
            if tot < 2 {
                continue;
            }
            let la = tot / 2;
            pairs.push((la, tot - la));
            let la = 1 + g.rng.below((tot - 1) as u64) as usize;
            pairs.push((la, tot - la));
        }
        // both operands around the power of two
        for la in [p - 1, p, p + 1] {
            for lb in [p - 1, p, p + 1] {
                if la > 0 && lb > 0 {
                    pairs.push((la, lb));
                }
            }
        }
        for (idx, (la, lb)) in pairs.into_iter().enumerate() {
            ctr += 1;
            let dense_cost = la.min(lb) as u64 * la.max(lb) as u64;
            // dense x dense with too many coefficient products would make the exact oracles (bignum `Int` in the
            // Lean spec) slow: one operand sparse
            let (pa, pb) = if dense_cost > dense_cap {
                if la <= lb { ("sparse", PATTERNS[ctr % 4]) } else { (PATTERNS[ctr % 4], "sparse") }
            } else {
                (PATTERNS[ctr % PATTERNS.len()], PATTERNS[(ctr / 3) % PATTERNS.len()])
            };
            // big sizes are expensive in the model: thin out in the thorough tier
            if k >= 14 && idx % 4 != (k as usize) % 4 {
                continue;
            }
            // debug profile: at 2^6 every other pair, at 2^7 one in four, at 2^8 and 2^9 one in eight, above one pair per size
            if lite && (k >= 10 && idx != 2 * k as usize || k == 9 && idx % 8 != 1 || k == 8 && idx % 8 != 4 || k == 7 && idx % 4 != 2 || k == 6 && idx % 2 != 0) {
                continue;
            }
            let opk = OPS[ctr % 5];
            let hist = HIST[(ctr / 3) % HIST.len()];
            g.mul_case("f64", la, lb, pa, pb, opk, hist, "pow2-boundary");
            if (k <= 10 || ctr % 4 == 0) && !(lite && k >= 10) {
                g.mul_case("f32", la, lb, pa, pb, opk, hist, "pow2-boundary");
            }
        }
    }

    // (iii) random structured
    let nrand = if lite { 80 } else if thorough { 6000 } else { 250 };
    let lmax_log = if lite { 8 } else if thorough { 13 } else { 10 };
    for _ in 0..nrand {
        let prec = if g.rng.chance(2, 3) { "f64" } else { "f32" };
        let ea = g.rng.below(lmax_log + 1);
        let la = 1 + g.rng.below(1u64 << ea) as usize;
        let eb = g.rng.below((lmax_log + 1).min(9 + (12 - ea.min(12))));
        let lb = 1 + g.rng.below(1u64 << eb) as usize;
        let (la, lb) = if g.rng.chance(1, 2) { (la, lb) } else { (lb, la) };
        let pa = *g.rng.pick(&PATTERNS);
        let pb = *g.rng.pick(&PATTERNS);
        let opk = *g.rng.pick(&OPS);
        let hist = *g.rng.pick(&HIST);
        g.mul_case(prec, la, lb, pa, pb, opk, hist, "random");
    }

    // (iv) transforms on their own: history independence of fft / fft_into / fft_inv / fft_inv_into
    let nsolo = if thorough { 1500 } else { 150 };
    for i in 0..nsolo {
        let prec = if i % 3 == 2 { "f32" } else { "f64" };
        let k = g.rng.below(if thorough { 12 } else { 9 }) as u32;
        let n = 1usize << k;
        let hist = HIST[i % HIST.len()];
        let kind = i % 4;
        let last = match kind {
            0 => {
                let len = if n == 1 { 1 } else { n / 2 + 1 + g.rng.below((n / 2) as u64) as usize };
                let v = coeffs(&mut g.rng, len, 1000, "mixed");
                g.stats.bump("op:f");
                format!("f {} {}", join(&v), if g.rng.chance(1, 2) { 0 } else { n })
            }
            1 => {
                let len = 1 + g.rng.below(n as u64) as usize;
                let v = coeffs(&mut g.rng, len, 1000, "mixed");
                let rl = g.dest_len(n, n).max(1);
                let rx = coeffs(&mut g.rng, rl, 1000, "mixed");
                let ry = coeffs(&mut g.rng, rl, 1000, "mixed");
                g.stats.bump("op:fi");
                // n = 0 asks fft_into itself for the auto-size (a branch `fft` never reaches: it normalises n first)
                let auto = g.rng.chance(1, 3);
                if auto {
                    g.stats.bump("op:fi-autosize");
                }
                format!("fi {} {} {} {}", join(&v), if auto { 0 } else { n }, join(&rx), join(&ry))
            }
            2 => {
                let xs = coeffs(&mut g.rng, n, 1000, "mixed");
                let ys = coeffs(&mut g.rng, n, 1000, "mixed");
                g.stats.bump("op:inv");
                format!("inv {} {}", join(&xs), join(&ys))
            }
            _ => {
                let xs = coeffs(&mut g.rng, n, 1000, "mixed");
                let ys = coeffs(&mut g.rng, n, 1000, "mixed");
                let rl = g.dest_len(n, n);
                let res: Vec<i64> = (0..rl).map(|_| g.rng.range_i64(-1_000_000, 1_000_000)).collect();
                g.stats.bump("op:ii");
                format!("ii {} {} {}", join(&xs), join(&ys), join(&res))
            }
        };
        let mut ops = g.history(prec, hist, n);
        ops.push(last);
        g.stats.bump("stream:solo-transforms");
        g.stats.bump(&format!("prec:{}", prec));
        (g.emit)(format!("fft {} ; {}", prec, ops.join(" ; ")));
    }

    // (iv') transform smaller than |a|+|b|-1: forward·pointwise·inverse is the CYCLIC convolution of size n
    let nwrap = if thorough { 400 } else { 60 };
    for i in 0..nwrap {
        let prec = if i % 3 == 2 { "f32" } else { "f64" };
        let k = 1 + g.rng.below(if thorough { 10 } else { 7 }) as u32;
        let n = 1usize << k;
        let la = n / 2 + 1 + g.rng.below((n / 2) as u64) as usize;
        let lb = (n - la + 2 + g.rng.below((la - 1) as u64 + 1) as usize).min(n);
        let m = env_max(prec, la, lb);
        if m == 0 {
            continue;
        }
        let pa = *g.rng.pick(&PATTERNS);
        let a = coeffs(&mut g.rng, la, m, pa);
        let b = coeffs(&mut g.rng, lb, m, "mixed");
        let last = match i % 3 {
            0 => format!("fm {} {} {}", join(&a), join(&b), n),
            1 => format!("fmx {} {} {}", join(&a), join(&b), n),
            _ => {
                let rl = g.dest_len(n, n);
                let res = g.dest(rl);
                format!("fmi {} {} {} {}", join(&a), join(&b), n, join(&res))
            }
        };
        let hist = HIST[i % HIST.len()];
        let mut ops = g.history(prec, hist, n);
        ops.push(last);
        g.stats.bump("stream:cyclic-wrap");
        g.stats.bump(&format!("prec:{}", prec));
        (g.emit)(format!("fft {} ; {}", prec, ops.join(" ; ")));
    }

    // (iv'') the very first calls on every kind of object are TINY (transform sizes 1 and 2: the 3/4-turn twiddle
    //        w[3N/4] needs a table of at least 4 entries, which only construction provides), then a second tiny call
    {
        let firsts: [&str; 16] = [
            "m 3 4,5", "m 4,5 3", "m -7 9", "m 1,2 3,-4", "mi 3 4,5 10,20,30", "mi 2,-3 5 1,1",
            "fm 3 4,5 2", "fmx 3 4,5 2", "fmi 3 4,5 2 7,7,7,7,7", "fm 6 -7 1", "fmx 6 -7 1",
            "inv 12,-3 0,0", "inv 5 0", "ii 12,-3 0,0 1,2,3,4,5", "f 1,2 2", "f 7 1",
        ];
        for prec in ["f64", "f32"] {
            for ctor in CTORS {
                for (i, first) in firsts.iter().enumerate() {
                    (g.emit)(format!("fft {} {} ; {}", prec, ctor, first));
                    let second = firsts[(i * 7 + 3) % firsts.len()];
                    (g.emit)(format!("fft {} {} ; {} ; {}", prec, ctor, first, second));
                    (g.emit)(format!("fft {} {} ; u 2 ; {} ; {}", prec, ctor, second, first));
                    g.stats.add("stream:tiny-first-calls", 3);
                    g.stats.add(&format!("ctor:{}", ctor), 3);
                }
            }
        }
    }

    // (iv-d) degenerate sizes for every entry point; the operators of Complex<F> on spectra
    g.degenerate(thorough);
    g.dest_sweep(thorough);
    g.aliased(thorough, lite);
    g.spectral(thorough, lite);

    // (v) out-of-domain (spec `any`): asserts of update_n / non-power-of-two sizes, coefficients far outside the envelope
    for n in [3usize, 5, 6, 12, 100] {
        g.stats.bump("stream:out-of-domain");
        (g.emit)(format!("fft f64 ; u {}", n));
        (g.emit)(format!("fft f32 ; m 1,2,3 4,5 ; f 1,2,3 {}", n));
    }
    for prec in ["f64", "f32"] {
        for len in [5usize, 64, 300] {
            g.stats.bump("stream:out-of-domain");
            let a = coeffs(&mut g.rng, len, i32::MAX as i64, "mixed");
            let b = coeffs(&mut g.rng, len, i32::MAX as i64, "pos");
            (g.emit)(format!("fft {} ; m {} {}", prec, join(&a), join(&b)));
        }
    }
    // update_n on its own and empty operands
    for n in [1usize, 2, 4, 8, 1024] {
        (g.emit)(format!("fft f64 ; u {}", n));
    }
    (g.emit)("fft f64 ; m - 1,2,3".to_string());
    (g.emit)("fft f64 ; m 1,2,3 -".to_string());
    (g.emit)("fft f32 ; m - -".to_string());
    (g.emit)("fft f64 ; u 64 ; mi - 1,2,3 5,6,7".to_string());
    (g.emit)("fft f64 ; mi 1,2,3 - 5,6,7".to_string());
    (g.emit)("fft f64 ; mi 1,2,3 4,5 -".to_string());
    g.stats.add("stream:edge", 11);

    // (vi) history independence far outside the envelope and, for f32, above length 1000 (where no non-zero
    //      coefficient fits the f32 envelope): the value is not constrained (`S fresh=same`), the object's tables,
    //      strides and twiddles at these sizes are
    let nbig = if lite { 10 } else if thorough { 90 } else { 36 };
    for i in 0..nbig {
        let prec = if i % 3 == 0 { "f64" } else { "f32" };
        let kk = if lite { 7 + (i as u32 % 3) } else if thorough { 10 + (i as u32 % 8) } else { 9 + (i as u32 % 4) };
        let p = 1usize << kk;
        let la = [p - 1, p, p + 1, p / 2 + 1][i % 4];
        let lb = match (i / 4) % 3 {
            0 => 2 + g.rng.below(40) as usize,
            1 => la,
            _ => 2 + g.rng.below(p as u64) as usize,
        };
        // far outside max^2*min(len) <= bound, yet small enough for the i64 accumulation (overflow-checks are on)
        let big = if prec == "f64" { 2_000_000 } else { 1000 };
        let a = coeffs(&mut g.rng, la, big, PATTERNS[i % PATTERNS.len()]);
        let b = coeffs(&mut g.rng, lb, big, "mixed");
        let opk = ["m", "mi", "fm", "fmx", "fmi"][i % 5];
        let (last, n) = g.measured(prec, opk, &a, &b);
        let hist = HIST[(i / 2) % HIST.len()];
        let mut ops = g.history(prec, hist, n);
        ops.push(last);
        g.stats.bump("stream:outside-envelope");
        g.stats.bump(&format!("prec:{}", prec));
        g.stats.bump(&format!("size:{}:2^{}", prec, n.trailing_zeros()));
        (g.emit)(format!("fft {} ; {}", prec, ops.join(" ; ")));
    }

    // (vii) very unbalanced operands AT the literal envelope max^2*min(len) = bound (the region of the former finding
    //       F11, repaired by the block loop of multiply_into): 1 x 4096, 2 x 8192, 7 x 1000, ragged last blocks, ragged
    //       blocks short enough for the recursive call to split again (7 x 1003 -> 2 against 7 -> 1 against 2; 16 x 645),
    //       lengths right at the switch `long > 2 * short`, both operand orders, multiply and multiply_into with
    //       destinations ending before / at / after / inside block boundaries, every history kind.
    {
        let mut shapes: Vec<(usize, usize)> = vec![
            (1, 2), (1, 3), (2, 4), (2, 5), (3, 6), (3, 7), (3, 8), (3, 10), (5, 11), (5, 13), (7, 15), (7, 50),
            (33, 66), (33, 67), (33, 100), (100, 200), (100, 201), (100, 299), (16, 645), (7, 1000), (7, 1003),
            (64, 4096), (63, 4095), (65, 4097), (1000, 2001), (255, 1024), (1, 4096), (2, 8192), (3, 4097), (4, 8190), (16, 8192),
        ];
        if thorough {
            shapes.extend_from_slice(&[(1, 65536), (2, 65535), (3, 65536), (4, 16384), (16, 65536), (255, 32768), (1000, 20000), (31, 100000)]);
        }
        let pats = ["ramp", "allmax", "mixed", "alt", "allneg", "pos"];
        let mut idx = 0usize;
        for prec in ["f64", "f32"] {
            for &(la0, lb0) in &shapes {
                let ds = block_dests(la0, lb0);
                let big = la0.max(lb0) > 2100;
                // every destination class of block_dests for the shapes up to 700 terms (all tiers, both profiles); for
                // the longer ones in the quick tier a rotating choice of three
                let all_dests = thorough || la0.max(lb0) <= if lite { 110 } else { 700 };
                // debug profile: three of the big shapes, in f64 only, one `multiply` and one `multiply_into` each (a 4096 /
                // 8192-term operand costs the unoptimised build and the model the most); the shapes between 110 and 2100
                // terms with one `multiply` and two destinations
                if lite && big && (prec == "f32" || ![(64, 4096), (1, 4096), (16, 8192)].contains(&(la0, lb0))) {
                    continue;
                }
                let nvar = if lite && big { 2 } else if lite && !all_dests { 3 } else if all_dests { ds.len() + 2 } else { 5 };
                for v in 0..nvar {
                    idx += 1;
                    // both operand orders
                    let (la, lb) = if idx % 2 == 0 { (la0, lb0) } else { (lb0, la0) };
                    let pl = pats[idx % pats.len()]; // pattern of the long operand
                    let ps = if la0 == 1 || idx % 3 == 0 { "allmax" } else { PATTERNS[idx % PATTERNS.len()] };
                    let (pa, pb) = if la <= lb { (ps, pl) } else { (pl, ps) };
                    let hist = HIST[idx % HIST.len()];
                    if v < 2 && !(lite && !all_dests && v == 1) {
                        g.mul_case(prec, la, lb, pa, pb, "m", hist, "unbalanced");
                    } else {
                        let d = if all_dests && v >= 2 { ds[v - 2] } else { ds[(idx * 7 + v) % ds.len()] };
                        g.dest_override = Some(d);
                        g.mul_case(prec, la, lb, pa, pb, "mi", hist, "unbalanced");
                        g.dest_override = None;
                    }
                }
            }
        }
    }
}

fn main() {
    cli(gen, run_case);
}
