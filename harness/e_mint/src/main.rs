//! Correspondence harness for engine `mint` (property C06): drives `rlib_mint::Modular<M>`
//! through its public API for a compiled-in list of moduli.
//!
//! Case lines (decimal numbers):
//!   new M v | pair M a b | un M a | pow M a d | io M v
//!   cst M 0                  ZERO, ONE, md(), ZERO == new(0), ONE == new(1)
//!   chain M v0 ; op ; op ... one accumulator, every result fed back into the next operation (ops: see `chain_step`)
//!   ios M ; t1 ; ... ; tk    k tokens read from ONE Reader, the values written through ONE Writer and read back
//!   thr <case>               the same case evaluated on a freshly spawned thread
//! Operands of `pair`/`un`/`pow` are `i64` constructor arguments (canonical residues in the
//! exhaustive part, arbitrary `i64` in the random part): the harness always builds values with
//! `Modular::<M>::new`, the only public constructor.
#[path = "../../common/mod.rs"]
mod common;
use common::*;
use rlib_io::{Reader, Writer};
use rlib_mint::Modular;

/// moduli inside the property's domain that are not in 2..=64
const BIG: [u32; 40] = [
    998244353,  // competition prime
    1000000007, // competition prime
    2147483647, // 2^31 - 1 (prime)
    2147483629, // 2^31 - 19 (prime)
    2147483646, // 2^31 - 2 (composite, adjacent to the limit)
    2147483645, // 2^31 - 3 (composite)
    65536,      // power of two
    15015,      // 3*5*7*11*13
    1073741824, // 2^30: the largest power of two in the domain
    46341,      // M^2 just above 2^31 (46341 = 3*15447)
    46340,      // M^2 just below 2^31
    46337,      // prime next to sqrt(2^31)
    65537,      // Fermat prime: (M-1)^2 = 2^32 exactly (a 32-bit product fast path is wrong for -1 * -1 only)
    65535,      // (M-1)^2 just below 2^32
    65538,      // (M-1)^2 just above 2^32
    1073741825, // 2^30 + 1: the sum of two residues can pass 2^31
    1073741823, // 2^30 - 1
    257,        // Fermat prime: (M-1)^2 = 2^16
    // wave 3: every other width / precision threshold a narrowed or floating-point fast path could use
    255,        // u8::MAX
    256,        // 2^8
    32767,      // i16::MAX
    32768,      // 2^15
    32769,      // 2^15 + 1
    16777216,   // 2^24: f32 integers end here
    16777217,   // 2^24 + 1
    94906266,   // ceil(sqrt(2^53)): (M-1)^2 is still below 2^53
    94906267,   // (M-1)^2 > 2^53 but even, every ODD product is still below 2^53: the last modulus whose residue products are all exact in f64
    94906268,   // (M-1)^2 is odd and above 2^53: the first modulus with a residue product that f64 cannot hold
    181,        // (M-1)^2 < 2^15
    182,        // (M-1)^2 = 32761: the last modulus whose residue products fit an i16
    183,        // (M-1)^2 > 2^15
    4096,       // 2^12
    4097,       // (M-1)^2 = 2^24: the last modulus whose residue products are exact in f32
    4098,       // (M-1)^2 > 2^24
    536870912,  // 2^29
    715827883,  // (2^31 + 1) / 3, prime: 3M passes 2^31
    1431655765, // floor(2^32 / 3): 3M = 2^32 - 1
    1836311903, // Fibonacci F46: with F45 the longest Euclid run and the largest coefficients an i32 inv sees
    1518500250, // ceil(2^31 / sqrt 2): M^2 passes 2^61
    2147483643, // 2^31 - 5 (= 3 * 715827881, odd composite next to the limit)
];
/// wave 5: moduli with special number-theoretic structure (a "prime modulus" fast path chosen by a compile-time
/// primality / pseudoprimality test is wrong exactly here): Carmichael numbers, Fermat / strong pseudoprimes to the
/// bases {2}, {2,3}, {2,3,5} (no composite below 2^31 passes {2,3,5,7}), prime squares and cubes (Wieferich squares included)
const SPECIAL: [u32; 24] = [
    561, 1105, 1729, 2465, 294409, // Carmichael
    56052361,   // Carmichael 211*421*631
    1299963601, // Carmichael 601*1201*1801
    341,        // Fermat pseudoprime to base 2 (not strong)
    2047, 3277, 4033, // strong pseudoprimes to base 2
    1373653, 1530787, // strong pseudoprimes to bases 2, 3
    25326001, 161304001, 960946321, 1157839381, // ALL strong pseudoprimes to bases 2, 3, 5 below 2^31
    841, 2197, 2209, // 29^2, 13^3, 47^2
    2147117569, // 46337^2: the largest prime square below 2^31
    2141700569, // 1289^3: the largest prime cube below 2^31
    1194649, 12327121, // 1093^2, 3511^2: Wieferich squares, strong pseudoprimes to base 2
];
/// moduli outside the domain (`S any`): the model mirrors the wrapping casts / overflow panics
const OOD: [u32; 4] = [1, 2147483648, 2147483649, 4294967295];

macro_rules! dispatch {
    ($m:expr, $op:expr, $args:expr; $($lit:literal)*) => {
        match $m {
            $( $lit => Some(run_m::<$lit>($op, $args)), )*
            _ => None,
        }
    };
}

fn dispatch_modulus(m: u32, op: &str, args: &[&str]) -> Option<String> {
    dispatch!(m, op, args;
        2 3 4 5 6 7 8 9 10 11 12 13 14 15 16 17 18 19 20 21 22 23 24 25 26 27 28 29 30 31 32 33
        34 35 36 37 38 39 40 41 42 43 44 45 46 47 48 49 50 51 52 53 54 55 56 57 58 59 60 61 62 63 64
        998244353 1000000007 2147483647 2147483629 2147483646 2147483645 65536 15015
        1073741824 46341 46340 46337 65537 65535 65538 1073741825 1073741823 257
        255 256 32767 32768 32769 16777216 16777217 94906266 94906267 94906268 536870912 715827883
        1431655765 1836311903 1518500250 2147483643 181 182 183 4096 4097 4098
        561 1105 1729 2465 294409 56052361 1299963601 341 2047 3277 4033 1373653 1530787 25326001 161304001 960946321 1157839381 841 2197 2209 2147117569 2141700569 1194649 12327121
        1 2147483648 2147483649 4294967295)
}

fn gcd_u128(a: u128, b: u128) -> u128 {
    let (mut a, mut b) = (a, b);
    while b != 0 {
        let t = a % b;
        a = b;
        b = t;
    }
    a
}

fn val<const M: u32>(r: &Result<Modular<M>, String>) -> String {
    match r {
        Ok(x) => x.inner().to_string(),
        Err(e) => e.clone(),
    }
}

/// result of the operator form, cross-checked against the assigning form
fn both<const M: u32>(r1: Result<Modular<M>, String>, r2: Result<Modular<M>, String>) -> Result<Modular<M>, String> {
    let (s1, s2) = (val(&r1), val(&r2));
    if s1 == s2 {
        r1
    } else {
        Err(format!("ASSIGN-MISMATCH({},{})", s1, s2))
    }
}

fn run_m<const M: u32>(op: &str, args: &[&str]) -> String {
    let p = |k: usize| -> i64 { args[k].parse::<i64>().unwrap() };
    let m = M as u128;
    match op {
        "new" => {
            let v = p(0);
            out1(&val(&catch(|| Modular::<M>::new(v))))
        }
        "pair" => {
            let (a, b) = (p(0), p(1));
            let x = catch(|| Modular::<M>::new(a));
            let y = catch(|| Modular::<M>::new(b));
            let (x, y) = match (&x, &y) {
                (Ok(x), Ok(y)) => (*x, *y),
                _ => return out1(&format!("operand:{}:{}", val(&x), val(&y))),
            };
            let add = both(catch(|| x + y), catch(|| { let mut t = x; t += y; t }));
            let sub = both(catch(|| x - y), catch(|| { let mut t = x; t -= y; t }));
            let mul = both(catch(|| x * y), catch(|| { let mut t = x; t *= y; t }));
            let div = both(catch(|| x / y), catch(|| { let mut t = x; t /= y; t }));
            let eq = x == y;
            let eq_s = if (x != y) == eq { "NE-INCONSISTENT".to_string() } else { eq.to_string() };
            // independent oracle for the quotient: 0 <= z < M and z*y = x*gcd(y, M) (mod M), in u128
            let div_view = match &div {
                Err(e) => e.clone(),
                Ok(z) => {
                    let (z, xv, yv) = (z.inner() as u128, x.inner() as u128, y.inner() as u128);
                    let g = gcd_u128(yv, m);
                    if z < m && (z * yv) % m == (xv * g) % m { "ok".into() } else { "bad".into() }
                }
            };
            // the property constrains `/` only for divisors coprime to M
            let div_view = if gcd_u128(y.inner() as u128, m) != 1 { "any".to_string() } else { div_view };
            let raw = format!("add={} sub={} mul={} div={} eq={}", val(&add), val(&sub), val(&mul), val(&div), eq_s);
            let view = format!("add={} sub={} mul={} div={} eq={}", val(&add), val(&sub), val(&mul), div_view, eq_s);
            out2(&raw, &view)
        }
        "un" => {
            let a = p(0);
            let x = match catch(|| Modular::<M>::new(a)) {
                Ok(x) => x,
                Err(e) => return out1(&format!("operand:{}", e)),
            };
            let neg = catch(|| -x);
            let inv = catch(|| x.inv());
            let inv_view = match &inv {
                Err(e) => e.clone(),
                Ok(r) => {
                    let (r, xv) = (r.inner() as u128, x.inner() as u128);
                    let g = gcd_u128(xv, m);
                    if r < m && (r * xv) % m == g % m { "ok".into() } else { "bad".into() }
                }
            };
            let inv_view = if gcd_u128(x.inner() as u128, m) != 1 { "any".to_string() } else { inv_view };
            let fmt = format!("{}/{:?}", x, x);
            out2(
                &format!("neg={} inv={} fmt={}", val(&neg), val(&inv), fmt),
                &format!("neg={} inv={} fmt={}", val(&neg), inv_view, fmt),
            )
        }
        "pow" => {
            let a = p(0);
            let d = args[1].parse::<u64>().unwrap();
            let x = match catch(|| Modular::<M>::new(a)) {
                Ok(x) => x,
                Err(e) => return out1(&format!("operand:{}", e)),
            };
            out1(&val(&catch(|| x.pow(d))))
        }
        "io" => {
            let v = p(0);
            // w: bytes of Writable; rt: those bytes (plus a newline) read back through a real Reader
            let (w, rt) = match catch(|| Modular::<M>::new(v)) {
                Err(e) => (e.clone(), e),
                Ok(x) => {
                    let mut buf: Vec<u8> = Vec::new();
                    {
                        let mut wr = Writer::new(Box::new(&mut buf));
                        wr.write(&x);
                    }
                    let w = String::from_utf8_lossy(&buf).replace(' ', "_").replace('\n', "\\n");
                    buf.push(b'\n');
                    let rt = catch(move || {
                        let mut rd = Reader::new(Box::new(&buf[..]));
                        let y: Modular<M> = rd.read();
                        y
                    });
                    (w, val(&rt))
                }
            };
            let tok = format!("{}\n", args[0]);
            let r = catch(|| {
                let mut rd = Reader::new(Box::new(tok.as_bytes()));
                let x: Modular<M> = rd.read();
                x
            });
            out1(&format!("w={} r={} rt={}", w, val(&r), rt))
        }
        "cst" => {
            let z = Modular::<M>::ZERO;
            let o = Modular::<M>::ONE;
            let md = Modular::<M>::md();
            let eqz = catch(|| z == Modular::<M>::new(0) && !(z != Modular::<M>::new(0)));
            let eqo = catch(|| o == Modular::<M>::new(1) && !(o != Modular::<M>::new(1)));
            let sb = |r: &Result<bool, String>| match r {
                Ok(b) => b.to_string(),
                Err(e) => e.clone(),
            };
            // the two public aliases name their modulus
            let alias = match M {
                998244353 => rlib_mint::Mint998::md().to_string(),
                1000000007 => rlib_mint::Mint107::md().to_string(),
                _ => "-".to_string(),
            };
            out1(&format!("zero={} one={} md={} eqz={} eqo={} alias={}", z.inner(), o.inner(), md, sb(&eqz), sb(&eqo), alias))
        }
        "ios" => {
            let k = args.len();
            // the tokens exactly as given, separated by a varying amount of white space
            let mut text = String::new();
            for (i, t) in args.iter().enumerate() {
                text.push_str(t);
                text.push_str(["\n", " ", "  ", "\t", " \n"][i % 5]);
            }
            let text = text.into_bytes();
            let show = |r: &Result<Vec<Modular<M>>, String>| match r {
                Ok(v) => format!("[{}]", v.iter().map(|x| x.inner().to_string()).collect::<Vec<_>>().join(",")),
                Err(e) => e.clone(),
            };
            let mut eof = "unknown".to_string();
            let r = {
                let t = text.clone();
                catch(move || {
                    let mut rd = Reader::new(Box::new(&t[..]));
                    let v: Vec<Modular<M>> = rd.read_vec(k);
                    (v, rd.is_eof())
                })
            };
            let r = r.map(|(v, e)| {
                eof = e.to_string();
                v
            });
            let (w, rt) = match &r {
                Err(e) => (e.clone(), e.clone()),
                Ok(v) => {
                    let mut buf: Vec<u8> = Vec::new();
                    {
                        let mut wr = Writer::new(Box::new(&mut buf));
                        wr.write(v);
                    }
                    let w = String::from_utf8_lossy(&buf).replace(' ', "_").replace('\n', "\\n");
                    buf.push(b'\n');
                    let rt = catch(move || {
                        let mut rd = Reader::new(Box::new(&buf[..]));
                        let y: Vec<Modular<M>> = rd.read_vec(k);
                        y
                    });
                    (w, show(&rt))
                }
            };
            // last: the original text once more, so that the LAST Readable call of this case is of the last given token
            let alt = {
                let t = text.clone();
                let vals: Vec<i64> = args.iter().map(|t| t.parse::<i64>().unwrap()).collect();
                catch(move || {
                    let mut rd = Reader::new(Box::new(&t[..]));
                    let mut v: Vec<Modular<M>> = Vec::new();
                    let mut i = 0;
                    while i < k {
                        if i % 4 == 2 && i + 1 < k {
                            // a tuple of two values in one call
                            let (a, b): (Modular<M>, Modular<M>) = rd.read();
                            v.push(a);
                            v.push(b);
                            i += 2;
                        } else if i % 2 == 1 {
                            // a plain i64 between two Modular values: the token must not have been touched
                            let w: i64 = rd.read();
                            if w != vals[i] {
                                panic!("I64-TOKEN-MISREAD");
                            }
                            v.push(Modular::<M>::new(w));
                            i += 1;
                        } else {
                            v.push(rd.read());
                            i += 1;
                        }
                    }
                    v
                })
            };
            out1(&format!("r={} alt={} w={} rt={} eof={}", show(&r), show(&alt), w, rt, eof))
        }
        _ => "I bad-op | V bad-op".to_string(),
    }
}

/// One step of a `chain` case on the accumulator.  Every way of spelling an operation (by value, assigning, the same
/// object on both sides) and every way of copying a value is a separate op name; the model has one step for each group.
#[allow(clippy::clone_on_copy, clippy::eq_op, clippy::misrefactored_assign_op)]
fn chain_step<const M: u32>(acc: Modular<M>, op: &str, arg: Option<&str>) -> Result<Modular<M>, String> {
    let operand = |a: Option<&str>| -> Result<Modular<M>, String> {
        let v = a.and_then(|t| t.parse::<i64>().ok()).ok_or_else(|| "INVALID".to_string())?;
        catch(|| Modular::<M>::new(v))
    };
    match op {
        "+" => { let y = operand(arg)?; catch(|| acc + y) }
        "+=" => { let y = operand(arg)?; catch(|| { let mut t = acc; t += y; t }) }
        "-" => { let y = operand(arg)?; catch(|| acc - y) }
        "-=" => { let y = operand(arg)?; catch(|| { let mut t = acc; t -= y; t }) }
        "r-" => { let y = operand(arg)?; catch(|| y - acc) }
        "*" => { let y = operand(arg)?; catch(|| acc * y) }
        "*=" => { let y = operand(arg)?; catch(|| { let mut t = acc; t *= y; t }) }
        "/" => { let y = operand(arg)?; catch(|| acc / y) }
        "/=" => { let y = operand(arg)?; catch(|| { let mut t = acc; t /= y; t }) }
        "r/" => { let y = operand(arg)?; catch(|| y / acc) }
        "neg" => catch(|| -acc),
        "inv" => catch(|| acc.inv()),
        "pow" => {
            let d = arg.and_then(|t| t.parse::<u64>().ok()).ok_or_else(|| "INVALID".to_string())?;
            catch(|| acc.pow(d))
        }
        "sq" => catch(|| acc * acc),
        "sq=" => catch(|| { let mut t = acc; t *= t; t }),
        "dbl" => catch(|| acc + acc),
        "dbl=" => catch(|| { let mut t = acc; t += t; t }),
        "ssub" => catch(|| acc - acc),
        "ssub=" => catch(|| { let mut t = acc; t -= t; t }),
        "sdiv" => catch(|| acc / acc),
        "sdiv=" => catch(|| { let mut t = acc; t /= t; t }),
        "clone" => {
            let c = catch(|| Clone::clone(&acc))?;
            if c.inner() != acc.inner() { return Err(format!("CLONE-MISMATCH({},{})", acc.inner(), c.inner())); }
            Ok(c)
        }
        "clonefrom" => {
            // into a fresh destination and into one that already has a history
            let mut fresh = Modular::<M>::ZERO;
            let mut used = catch(|| Modular::<M>::new(0x5DEECE66D) * Modular::<M>::new(-7) + Modular::<M>::ONE)?;
            catch(|| { fresh.clone_from(&acc); used.clone_from(&acc); })?;
            if fresh.inner() != acc.inner() || used.inner() != acc.inner() {
                return Err(format!("CLONEFROM-MISMATCH({},{},{})", acc.inner(), fresh.inner(), used.inner()));
            }
            Ok(used)
        }
        "copy" => {
            let c = acc;
            let arr = [c; 4];
            let t = (arr[3], 1u8);
            let b = Box::new(t.0);
            if b.inner() != acc.inner() { return Err(format!("COPY-MISMATCH({},{})", acc.inner(), b.inner())); }
            Ok(*b)
        }
        "vec" => {
            let v = vec![acc; 3];
            let w = catch(|| v.clone())?;
            let mut u = vec![Modular::<M>::ONE; 2];
            catch(|| u.clone_from(&w))?;
            let same = catch(|| v == w && !(v != w) && u[..] == v[..] && Some(acc) == Some(u[2]) && !(Some(acc) != Some(w[1])))?;
            if !same || u.len() != 3 || u[2].inner() != acc.inner() || w[0].inner() != acc.inner() {
                return Err("VEC-MISMATCH".to_string());
            }
            Ok(u[2])
        }
        "fmt" => {
            // Display, Debug, to_string and the Writable bytes of a value that came out of an operation: all the decimal text of inner()
            let want = acc.inner().to_string();
            let mut buf: Vec<u8> = Vec::new();
            let texts = catch(|| {
                { let mut wr = Writer::new(Box::new(&mut buf)); wr.write(&acc); }
                [format!("{}", acc), format!("{:?}", acc), acc.to_string(), format!("{:?}", Some(acc)), String::from_utf8_lossy(&buf).to_string()]
            })?;
            let some = format!("Some({})", want);
            let wants = [&want, &want, &want, &some, &want];
            if texts.iter().zip(wants.iter()).any(|(a, b)| a != *b) {
                return Err(format!("FMT-MISMATCH({})", texts.join("|").replace(' ', "_")));
            }
            Ok(acc)
        }
        "rt" => {
            let mut buf: Vec<u8> = Vec::new();
            catch(|| { let mut wr = Writer::new(Box::new(&mut buf)); wr.write(&acc); })?;
            buf.push(b'\n');
            catch(move || { let mut rd = Reader::new(Box::new(&buf[..])); let y: Modular<M> = rd.read(); y })
        }
        "renew" => catch(|| Modular::<M>::new(acc.inner() as i64)),
        "zero" => Ok(Modular::<M>::ZERO),
        "one" => Ok(Modular::<M>::ONE),
        "eq" => {
            let y = operand(arg)?;
            let (e1, e2, n1, n2) = catch(|| (acc == y, y == acc, acc != y, y != acc))?;
            if e1 != e2 || n1 == e1 || n2 == e2 { return Err(format!("EQ-INCONSISTENT({},{},{},{})", e1, e2, n1, n2)); }
            catch(|| acc + if e1 { Modular::<M>::ONE } else { Modular::<M>::ZERO })
        }
        _ => Err("INVALID".to_string()),
    }
}

fn run_chain<const M: u32>(v0: i64, ops: &[&str]) -> String {
    let mut acc = match catch(|| Modular::<M>::new(v0)) {
        Ok(x) => x,
        Err(e) => return out1(&format!("operand:{}", e)),
    };
    let mut outs: Vec<String> = vec![acc.inner().to_string()];
    for o in ops {
        let mut it = o.split_whitespace();
        let name = it.next().unwrap_or("");
        let arg = it.next();
        match chain_step::<M>(acc, name, arg) {
            Ok(x) => {
                acc = x;
                outs.push(x.inner().to_string());
            }
            Err(e) if e == "INVALID" => return "I INVALID | V INVALID".to_string(),
            Err(e) => {
                outs.push(e);
                break;
            }
        }
    }
    out1(&format!("[{}]", outs.join(",")))
}

macro_rules! dispatch_chain {
    ($m:expr, $v0:expr, $ops:expr; $($lit:literal)*) => {
        match $m {
            $( $lit => Some(run_chain::<$lit>($v0, $ops)), )*
            _ => None,
        }
    };
}

fn dispatch_chain_modulus(m: u32, v0: i64, ops: &[&str]) -> Option<String> {
    dispatch_chain!(m, v0, ops;
        2 3 4 5 6 7 8 9 10 11 12 13 14 15 16 17 18 19 20 21 22 23 24 25 26 27 28 29 30 31 32 33
        34 35 36 37 38 39 40 41 42 43 44 45 46 47 48 49 50 51 52 53 54 55 56 57 58 59 60 61 62 63 64
        998244353 1000000007 2147483647 2147483629 2147483646 2147483645 65536 15015
        1073741824 46341 46340 46337 65537 65535 65538 1073741825 1073741823 257
        255 256 32767 32768 32769 16777216 16777217 94906266 94906267 94906268 536870912 715827883
        1431655765 1836311903 1518500250 2147483643 181 182 183 4096 4097 4098
        561 1105 1729 2465 294409 56052361 1299963601 341 2047 3277 4033 1373653 1530787 25326001 161304001 960946321 1157839381 841 2197 2209 2147117569 2141700569 1194649 12327121)
}

fn run_case(line: &str) -> String {
    let line = line.trim();
    if let Some(rest) = line.strip_prefix("thr ") {
        // the same case on a freshly spawned thread (thread-local state starts from scratch there)
        let rest = rest.to_string();
        return match std::thread::spawn(move || run_case(&rest)).join() {
            Ok(s) => s,
            Err(_) => "I thread-died | V thread-died".to_string(),
        };
    }
    if line.starts_with("ios ") {
        // `ios M ; t1 ; t2 ...` (shrunk by deleting tokens): handled as the op `ios` with the tokens as arguments
        let parts: Vec<&str> = line.split(';').map(|p| p.trim()).collect();
        let hdr: Vec<&str> = parts[0].split_whitespace().collect();
        let toks: Vec<&str> = parts[1..].to_vec();
        let ok = hdr.len() == 2 && !toks.is_empty() && toks.iter().all(|t| !t.is_empty() && !t.contains(char::is_whitespace) && t.parse::<i64>().is_ok());
        let m = hdr.get(1).and_then(|t| t.parse::<u32>().ok());
        return match (ok, m) {
            (true, Some(m)) => match dispatch_modulus(m, "ios", &toks) {
                Some(s) => s,
                None => "I unsupported-modulus | V unsupported-modulus".to_string(),
            },
            _ => "I INVALID | V INVALID".to_string(),
        };
    }
    if line.starts_with("chain ") {
        let parts: Vec<&str> = line.split(';').map(|p| p.trim()).collect();
        let hdr: Vec<&str> = parts[0].split_whitespace().collect();
        if hdr.len() != 3 {
            return "I INVALID | V INVALID".to_string();
        }
        let (m, v0) = match (hdr[1].parse::<u32>(), hdr[2].parse::<i64>()) {
            (Ok(m), Ok(v)) => (m, v),
            _ => return "I INVALID | V INVALID".to_string(),
        };
        return match dispatch_chain_modulus(m, v0, &parts[1..]) {
            Some(s) => s,
            None => "I unsupported-modulus | V unsupported-modulus".to_string(),
        };
    }
    let toks: Vec<&str> = line.split_whitespace().collect();
    if toks.len() < 3 {
        return "I INVALID | V INVALID".to_string();
    }
    let m: u32 = match toks[1].parse() {
        Ok(m) => m,
        Err(_) => return "I INVALID | V INVALID".to_string(),
    };
    let op = toks[0];
    let args = &toks[2..];
    match dispatch_modulus(m, op, args) {
        // outside the property's domain nothing is pinned: raw is the constant `ood`, the result is only shown
        Some(s) if OOD.contains(&m) => match s.split_once(" | V ") {
            Some((raw, _)) => format!("I ood | V {}", &raw[2..]),
            None => s,
        },
        Some(s) => s,
        None => "I unsupported-modulus | V unsupported-modulus".to_string(),
    }
}

// ------------------------------------------------------------------------------------------
// generators
// ------------------------------------------------------------------------------------------

fn boundary_residues(m: u32) -> Vec<i64> {
    let m = m as i64;
    let mut v = vec![
        0, 1, 2, 3, m - 1, m - 2, m - 3, m / 2, (m + 1) / 2, m / 2 - 1, m / 2 + 1,
        1 << 15, (1 << 16) - 1, 1 << 16, (1 << 16) + 1, 46340, 46341, 1 << 30, (1 << 30) + 1, (1 << 31) - 1,
        3 * 5 * 7, 1 << 8,
        // wave 3: width / precision thresholds of the products (2^24 f32, 2^26 * 2^27 = 2^53 f64, sqrt(2^53), sqrt(2^61)),
        // i16 / u8 edges, and the Fibonacci pair that gives the longest Euclid run
        255, 257, 181, 4096, 32767, 32768, 32769, 1 << 24, (1 << 24) + 1, 1 << 26, 1 << 27, 94906265, 94906266, 94906267, 1 << 29,
        1518500249, 1518500250, 701408733, 1134903170, m - 1134903170,
    ];
    v.retain(|x| 0 <= *x && *x < m);
    v.sort();
    v.dedup();
    v
}

fn ctor_args(m: u32) -> Vec<i64> {
    let m = m as i64;
    let mut v = vec![
        i64::MIN, i64::MIN + 1, i64::MIN + 2, -m - 1, -m, -m + 1, -2 * m, -2, -1, 0, 1, m - 1, m, m + 1, 2 * m - 1, 2 * m,
        (1 << 31) - 1, 1 << 31, (1 << 31) + 1, -(1 << 31), -(1 << 31) - 1, -(1 << 31) + 1,
        (1 << 32) - 1, 1 << 32, (1 << 32) + 1, -(1 << 32), -(1i64 << 32) - 1,
        i64::MAX, i64::MAX - 1, i64::MAX / 2, i64::MIN / 2,
        (i64::MAX / m) * m, (i64::MAX / m) * m - 1, (i64::MIN / m) * m, (i64::MIN / m) * m + 1,
        m * m, m * m - 1, -(m * m), (m - 1) * (m - 1),
    ];
    v.sort();
    v.dedup();
    v
}

fn exponents(m: u32) -> Vec<u64> {
    let m = m as u64;
    let mut v = vec![
        0, 1, 2, 3, 4, 5, 7, 8, m - 1, m, m + 1, m.saturating_sub(2), 2 * m,
        (1 << 31) - 1, 1 << 31, (1 << 32) - 1, 1 << 32, (1 << 32) + 1, 3 << 32, 1 << 33, 1 << 63, (1 << 63) + 1,
        u64::MAX, u64::MAX - 1, 0xAAAA_AAAA_AAAA_AAAA, 0x5555_5555_5555_5555,
        // wave 3: narrower casts of the exponent (u8 / u16 / i32 / f64) and exponents whose low word is tiny
        255, 256, 257, 65535, 65536, 65537, (1 << 32) + 2, (1 << 32) + 39, (1 << 32) + 62, (1 << 48) + 1,
        (1 << 53) - 1, 1 << 53, (1 << 53) + 1, 1 << 62, (1 << 63) - 1, u64::MAX - (u32::MAX as u64), i64::MAX as u64 + 2,
    ];
    v.sort();
    v.dedup();
    v
}

fn rand_i64(rng: &mut SplitMix64, m: u32) -> i64 {
    let m = m as i64;
    match rng.below(8) {
        0 => rng.next_u64() as i64,
        1 => rng.range_i64(-(1 << 33), 1 << 33),
        2 => rng.range_i64(-3 * m, 3 * m),
        3 => {
            // near a multiple of M
            let k = rng.range_i64(i64::MIN / m + 1, i64::MAX / m - 1);
            k * m + rng.range_i64(-2, 2)
        }
        4 => {
            let s = rng.below(63);
            let b = 1i64 << s;
            let d = rng.range_i64(-2, 2);
            if rng.chance(1, 2) { b.wrapping_add(d) } else { (-b).wrapping_add(d) }
        }
        _ => rng.range_i64(0, m - 1),
    }
}

fn rand_residue(rng: &mut SplitMix64, m: u32, bnd: &[i64]) -> i64 {
    match rng.below(6) {
        0 => *rng.pick(bnd),
        1 => {
            // small multiples of a divisor-ish number
            let f = rng.range_i64(1, 64);
            (f * rng.range_i64(0, (m as i64 - 1) / f)).min(m as i64 - 1)
        }
        _ => rng.range_i64(0, m as i64 - 1),
    }
}

fn rand_exp(rng: &mut SplitMix64, exps: &[u64]) -> u64 {
    match rng.below(6) {
        0 => *rng.pick(exps),
        1 => rng.below(64),
        2 => rng.next_u64() >> rng.below(64),
        3 => (rng.below(1 << 20)) << 32,
        4 => ((1 + rng.below(1 << 20)) << [8u64, 16, 32, 40][rng.below(4) as usize]) + rng.below(3),
        _ => rng.next_u64(),
    }
}

fn class_of(m: u32) -> &'static str {
    if OOD.contains(&m) {
        "ood"
    } else if m <= 64 {
        "small"
    } else if SPECIAL.contains(&m) {
        "special"
    } else {
        "big"
    }
}

/// (prime factors, Euler phi, Carmichael lambda) of m, by trial division
fn factor_phi_lambda(m: u32) -> (Vec<u64>, u64, u64) {
    let (mut n, mut d) = (m as u64, 2u64);
    let (mut ps, mut phi, mut lam) = (Vec::new(), 1u64, 1u64);
    let mut put = |p: u64, e: u32, ps: &mut Vec<u64>| {
        ps.push(p);
        let f = p.pow(e - 1) * (p - 1);
        phi *= f;
        let l = if p == 2 && e >= 3 { f / 2 } else { f };
        lam = lam / gcd_u128(lam as u128, l as u128) as u64 * l;
    };
    while d * d <= n {
        let mut e = 0;
        while n % d == 0 {
            n /= d;
            e += 1;
        }
        if e > 0 {
            put(d, e, &mut ps);
        }
        d += 1;
    }
    if n > 1 {
        put(n, 1, &mut ps);
    }
    (ps, phi, lam)
}

/// exponents tied to the multiplicative structure of Z/M: around M-1, phi(M), lambda(M), their multiples (also far beyond
/// 2^32), the odd part of M-1 and its doublings (the exponents a Miller-Rabin test looks at)
fn structure_exponents(rng: &mut SplitMix64, m: u32) -> Vec<u64> {
    let (_, phi, lam) = factor_phi_lambda(m);
    let n = m as u64 - 1;
    let mut v = vec![
        0, 1, 2, n - 1, n, n + 1, n + 2, 2 * n, 2 * n + 1, 2 * n + 2, 3 * n, n / 2, n / 2 + 1, n * n, n * (n + 1), n * n + 1,
        phi - 1, phi, phi + 1, 2 * phi, phi + n, lam - 1, lam, lam + 1, 2 * lam, lam / 2, lam + n, phi * lam,
        u64::MAX, u64::MAX / n * n, u64::MAX / n * n + 1, u64::MAX / phi * phi, u64::MAX / lam * lam + 1, 1 << 32, 1 << 63,
    ];
    let mut d = n;
    while d % 2 == 0 {
        d /= 2;
        v.push(d);
    }
    for _ in 0..4 {
        let k = 1 + (rng.next_u64() >> rng.below(64)) % (u64::MAX / n - 1);
        v.push(k * n);
        v.push(k * n + rng.below(n));
        v.push(k * lam + rng.below(3));
    }
    v.sort();
    v.dedup();
    v
}

fn gcd_i(a: i64, b: i64) -> i64 {
    gcd_u128(a.unsigned_abs() as u128, b.unsigned_abs() as u128) as i64
}

struct Gen<'a> {
    emit: &'a mut dyn FnMut(String),
    st: &'a mut Stats,
}

impl<'a> Gen<'a> {
    fn pair(&mut self, m: u32, a: i64, b: i64, how: &str) {
        (self.emit)(format!("pair {} {} {}", m, a, b));
        let c = class_of(m);
        self.st.bump(&format!("pair_{}_{}", c, how));
        self.st.add("assigning_forms_evaluated(+=,-=,*=,/=)", 4);
        if c != "ood" {
            let mm = m as i128;
            let (ra, rb) = ((a as i128).rem_euclid(mm), (b as i128).rem_euclid(mm));
            if ra + rb >= mm {
                self.st.bump("branch_add_subtracts_M");
            }
            if ra + rb == mm {
                self.st.bump("branch_add_sum_eq_M");
            }
            if ra >= rb {
                self.st.bump("branch_sub_subtracts_M");
            }
            if ra * rb >= 1 << 31 {
                self.st.bump("branch_mul_product_ge_2^31");
            }
            if ra * rb >= 1 << 61 {
                self.st.bump("branch_mul_product_ge_2^61");
            }
            if ra == rb {
                self.st.bump("branch_eq_true");
            }
            // the 32-bit product boundary: floor/ceil of sqrt(2^31), both factors
            if (ra == 46340 || ra == 46341) && (rb == 46340 || rb == 46341) && mm > 46341 {
                self.st.bump("pair_both_operands_at_sqrt_2^31");
            }
            if ra == 46341 && rb == 46341 && mm > 46341 {
                self.st.bump("pair_46341_x_46341");
            }
            if gcd_i(rb as i64, m as i64) != 1 {
                self.st.bump("branch_div_noncoprime");
            }
            if a < 0 || a >= mm as i64 || b < 0 || b >= mm as i64 {
                self.st.bump("pair_noncanonical_ctor_arg");
            }
        }
    }
    fn un(&mut self, m: u32, a: i64, how: &str) {
        (self.emit)(format!("un {} {}", m, a));
        let c = class_of(m);
        self.st.bump(&format!("un_{}_{}", c, how));
        if c != "ood" {
            let ra = (a as i128).rem_euclid(m as i128) as i64;
            if ra == 0 {
                self.st.bump("branch_neg_inv_zero");
            } else if gcd_i(ra, m as i64) == 1 {
                self.st.bump("branch_inv_coprime");
            } else {
                self.st.bump("branch_inv_noncoprime");
            }
        }
    }
    fn pow(&mut self, m: u32, a: i64, d: u64, how: &str) {
        (self.emit)(format!("pow {} {} {}", m, a, d));
        self.st.bump(&format!("pow_{}_{}", class_of(m), how));
        if d >= 1 << 32 {
            self.st.bump("pow_exponent_ge_2^32");
        }
        if d == u64::MAX {
            self.st.bump("pow_exponent_u64_max");
        }
        if d == 0 {
            self.st.bump("pow_exponent_zero");
        }
    }
    fn new(&mut self, m: u32, v: i64, how: &str) {
        (self.emit)(format!("new {} {}", m, v));
        self.st.bump(&format!("new_{}_{}", class_of(m), how));
        if v < 0 {
            self.st.bump("new_negative_arg");
        }
        if v >= 1 << 31 || v < -(1 << 31) {
            self.st.bump("new_arg_outside_i32");
        }
        if v == i64::MIN || v == i64::MAX {
            self.st.bump("new_arg_i64_extreme");
        }
    }
    fn cst(&mut self, m: u32) {
        (self.emit)(format!("cst {} 0", m));
        self.st.bump(&format!("cst_{}", class_of(m)));
    }
    fn ios(&mut self, m: u32, toks: &[String], how: &str) {
        (self.emit)(format!("ios {} ; {}", m, toks.join(" ; ")));
        self.st.bump(&format!("ios_{}_{}", class_of(m), how));
        self.st.add("ios_tokens", toks.len() as u64);
        if toks.iter().any(|t| t.starts_with("-0") || (t.starts_with('0') && t.len() > 1)) {
            self.st.bump("ios_with_minus_zero_or_leading_zeros");
        }
        if toks.len() >= 1000 {
            self.st.bump("ios_ge_1000_tokens");
        }
    }
    /// A history on one accumulator: every result is fed back.  The generator follows the value (in u128 arithmetic) only
    /// to keep inverses inside the property's domain (operand coprime to M); it is not an oracle.
    fn chain(&mut self, rng: &mut SplitMix64, m: u32, len: usize, bnd: &[i64], exps: &[u64], how: &str) {
        let mm = m as i128;
        let v0 = if rng.chance(1, 2) { rand_i64(rng, m) } else { rand_residue(rng, m, bnd) };
        let mut acc: i128 = (v0 as i128).rem_euclid(mm);
        let mut line = format!("chain {} {}", m, v0);
        let unit = |x: i128| gcd_u128(x as u128, mm as u128) == 1;
        let inv = |x: i128| -> i128 {
            // Bezout in i128 (x coprime to m)
            let (mut a, mut b, mut u, mut w) = (x.rem_euclid(mm), mm, 1i128, 0i128);
            while a != 0 {
                let q = b / a;
                b -= q * a;
                w -= q * u;
                std::mem::swap(&mut a, &mut b);
                std::mem::swap(&mut u, &mut w);
            }
            w.rem_euclid(mm)
        };
        for _ in 0..len {
            let v = match rng.below(5) {
                0 => rand_i64(rng, m),
                1 => *rng.pick(bnd),
                2 => rng.range_i64(-3, 3),
                3 => acc as i64, // the value itself as the constructor argument of the other operand
                _ => rand_residue(rng, m, bnd),
            };
            let vr = (v as i128).rem_euclid(mm);
            let k = rng.below(36);
            let (name, arg): (&str, Option<String>) = match k {
                0 => ("+", Some(v.to_string())),
                1 => ("+=", Some(v.to_string())),
                2 => ("-", Some(v.to_string())),
                3 => ("-=", Some(v.to_string())),
                4 => ("r-", Some(v.to_string())),
                5 => ("*", Some(v.to_string())),
                6 | 7 => ("*=", Some(v.to_string())),
                8 | 9 if unit(vr) => (if k == 8 { "/" } else { "/=" }, Some(v.to_string())),
                10 if unit(acc) => ("r/", Some(v.to_string())),
                11 => ("neg", None),
                12 | 13 if unit(acc) => ("inv", None),
                14 | 15 => ("pow", Some(rand_exp(rng, exps).to_string())),
                16 => ("sq", None),
                17 => ("sq=", None),
                18 => ("dbl", None),
                19 => ("dbl=", None),
                20 => (if rng.chance(1, 2) { "ssub" } else { "ssub=" }, None),
                21 if unit(acc) => (if rng.chance(1, 2) { "sdiv" } else { "sdiv=" }, None),
                22 => ("clone", None),
                23 => ("clonefrom", None),
                24 => ("copy", None),
                25 => ("vec", None),
                26 => (if rng.chance(1, 2) { "rt" } else { "fmt" }, None),
                27 => ("renew", None),
                28 => (if rng.chance(1, 2) { "zero" } else { "one" }, None),
                29 | 30 => ("eq", Some((if rng.chance(1, 2) { acc as i64 + rng.range_i64(-1, 1) * (m as i64) } else { v }).to_string())),
                _ => ("+", Some(v.to_string())),
            };
            let a: i128 = arg.as_ref().map(|t| t.parse::<i128>().unwrap()).unwrap_or(0);
            let ar = a.rem_euclid(mm);
            acc = match name {
                "+" | "+=" => (acc + ar) % mm,
                "-" | "-=" => (acc - ar).rem_euclid(mm),
                "r-" => (ar - acc).rem_euclid(mm),
                "*" | "*=" => acc * ar % mm,
                "/" | "/=" => acc * inv(ar) % mm,
                "r/" => ar * inv(acc) % mm,
                "neg" => (-acc).rem_euclid(mm),
                "inv" => inv(acc),
                "pow" => {
                    let (mut r, mut b, mut d) = (1i128 % mm, acc, a as u128);
                    while d != 0 {
                        if d & 1 == 1 {
                            r = r * b % mm;
                        }
                        b = b * b % mm;
                        d >>= 1;
                    }
                    r
                }
                "sq" | "sq=" => acc * acc % mm,
                "dbl" | "dbl=" => (acc + acc) % mm,
                "ssub" | "ssub=" => 0,
                "sdiv" | "sdiv=" => 1 % mm,
                "zero" => 0,
                "one" => 1 % mm,
                "eq" => (acc + if ar == acc { 1 } else { 0 }) % mm,
                _ => acc,
            };
            line.push_str(" ; ");
            line.push_str(name);
            if let Some(t) = &arg {
                line.push(' ');
                line.push_str(t);
            }
            self.st.bump(&format!("chain_op_{}", name));
            if acc == 46341 {
                self.st.bump("chain_accumulator_passes_46341");
            }
        }
        (self.emit)(line);
        self.st.bump(&format!("chain_{}_{}", class_of(m), how));
        self.st.add("chain_ops_total", len as u64);
        if len >= 500 {
            self.st.bump("chain_ge_500_ops");
        }
    }
    fn io(&mut self, m: u32, v: i64, how: &str) {
        (self.emit)(format!("io {} {}", m, v));
        self.st.bump(&format!("io_{}_{}", class_of(m), how));
        if v >= 1 << 31 || v < -(1 << 31) {
            self.st.bump("io_token_outside_i32");
        }
        if v < 0 {
            self.st.bump("io_token_negative");
        }
    }
}

fn gen(args: &Args, emit: &mut dyn FnMut(String), st: &mut Stats) {
    // the debug build profile (debug_assert!, cfg(debug_assertions) paths) runs a lighter version of every stream:
    // in the thorough tier its random parts are 5 times the quick ones, the exhaustive parts stay those of the quick tier
    let lite = args.extra.get("profile").map(|p| p == "debug").unwrap_or(false);
    let thorough = args.tier == "thorough" && !lite;
    let lt: u64 = if lite && args.tier == "thorough" { 5 } else { 1 };
    let mut rng = SplitMix64::new(args.seed ^ 0xC06);
    let mut g = Gen { emit, st };
    if lite {
        g.st.bump("lite_stream_for_debug_profile");
    }

    // (1) exhaustive small scope: every modulus 2..=64, every operand pair, every operation
    for m in 2u32..=64 {
        let mi = m as i64;
        if lite && !(m <= 12 || m == 16 || m == 32) {
            continue;
        }
        for a in 0..mi {
            for b in 0..mi {
                g.pair(m, a, b, "exhaustive");
            }
            g.un(m, a, "exhaustive");
            // exponents: a window (covers several full periods in the thorough tier) + the boundary list
            let win = if thorough { 2 * m as u64 + 2 } else { 6 };
            for d in 0..=win {
                g.pow(m, a, d, "exhaustive");
            }
            // boundary exponents: every base in the thorough tier and for m <= 16, the extreme bases otherwise
            if thorough || m <= 16 || a <= 2 || a >= mi - 2 || a == mi / 2 {
                for (j, d) in exponents(m).into_iter().enumerate() {
                    // quick tier, m > 16: a rotating half of the boundary exponents per base
                    if d > win && (thorough || m <= 16 || (j + a as usize + m as usize) % 2 == 0) {
                        g.pow(m, a, d, "boundary");
                    }
                }
            }
            if thorough {
                for _ in 0..8 {
                    let d = rng.next_u64() >> rng.below(64);
                    g.pow(m, a, d, "random");
                }
            }
        }
        // constructor: a window around 0 and the boundary list
        let w = if thorough { 4 * mi } else { 2 * mi };
        for v in -w..=w {
            g.new(m, v, "exhaustive");
        }
        for v in ctor_args(m) {
            g.new(m, v, "boundary");
            g.io(m, v, "boundary");
        }
        let n = if thorough { 400 } else if lite { 10 * lt } else { 40 };
        for _ in 0..n {
            let v = rand_i64(&mut rng, m);
            g.new(m, v, "random");
            let v = rand_i64(&mut rng, m);
            g.io(m, v, "random");
            // non-canonical constructor arguments as operands
            let (a, b) = (rand_i64(&mut rng, m), rand_i64(&mut rng, m));
            g.pair(m, a, b, "random");
        }
    }

    // (2) the large moduli: boundary operands in all combinations, then random ones
    for &m in BIG.iter() {
        let bnd = boundary_residues(m);
        let exps = exponents(m);
        // quick tier: the full cross products for the core values (and every value with itself), a rotating half / third
        // of the remaining combinations (a different part for every modulus); thorough tier: everything
        let mi = m as i64;
        let core = |x: i64| x <= 3 || x >= mi - 3 || x == mi / 2 || x == 46340 || x == 46341 || x == 1 << 16;
        let rot = (m % 6) as usize;
        for (i, &a) in bnd.iter().enumerate() {
            for (j, &b) in bnd.iter().enumerate() {
                let keep = if lite { i == j || (core(a) && core(b)) || (i + j + rot) % 8 == 0 } else { i == j || core(a) || core(b) || (i + j + rot) % 2 == 0 };
                if thorough || keep {
                    g.pair(m, a, b, "boundary");
                }
            }
            g.un(m, a, "boundary");
            for (j, &d) in exps.iter().enumerate() {
                let keep = if lite { (core(a) && (i + j) % 2 == 0) || (i + j + rot) % 9 == 0 } else { core(a) || (i + j + rot) % 3 == 0 };
                if thorough || keep {
                    g.pow(m, a, d, "boundary");
                }
            }
        }
        for v in ctor_args(m) {
            g.new(m, v, "boundary");
            g.io(m, v, "boundary");
            g.un(m, v, "boundary");
        }
        // small residues exhaustively (inverse of everything up to 300, every pair up to 40)
        let (nu, np) = if thorough { (300, 40) } else if lite { (40, 8) } else { (200, 28) };
        for a in 0..nu.min(m as i64) {
            g.un(m, a, "exhaustive");
        }
        for a in 0..np.min(m as i64) {
            for b in 0..np.min(m as i64) {
                g.pair(m, m as i64 - 1 - a, b, "exhaustive");
            }
        }
        let n = if thorough { 20_000 } else if lite { 60 * lt } else { 300 };
        for _ in 0..n {
            let (a, b) = (rand_residue(&mut rng, m, &bnd), rand_residue(&mut rng, m, &bnd));
            // complementary residues (a + b = M, M ± 1) one time in eight
            let b = if rng.chance(1, 8) { (m as i64 - a + rng.range_i64(-1, 1)).clamp(0, m as i64 - 1) } else { b };
            g.pair(m, a, b, "random");
            let a = rand_residue(&mut rng, m, &bnd);
            g.un(m, a, "random");
            let (a, d) = (rand_residue(&mut rng, m, &bnd), rand_exp(&mut rng, &exps));
            g.pow(m, a, d, "random");
            let v = rand_i64(&mut rng, m);
            g.new(m, v, "random");
            if rng.chance(1, 4) {
                let v = rand_i64(&mut rng, m);
                g.io(m, v, "random");
                let (a, b) = (rand_i64(&mut rng, m), rand_i64(&mut rng, m));
                g.pair(m, a, b, "random");
            }
        }
    }

    // (2a) wave 5: moduli with special number-theoretic structure.  pow for bases {2,3,5,7,11,13,17,19, M-1, M-2, (M+1)/2, the prime
    //      factors p of M, p+1, M/p, p*(random), random residues, two non-canonical arguments} x the structure exponents; inv of every
    //      base; all quotients of the first bases; constants, constructor arguments, a few histories whose pow steps use these exponents
    for &m in SPECIAL.iter() {
        let mi = m as i64;
        let (ps, _, _) = factor_phi_lambda(m);
        let exps = structure_exponents(&mut rng, m);
        let mut bases: Vec<i64> = vec![2, 3, 5, 7, 11, 13, 17, 19, mi - 1, mi - 2, (mi + 1) / 2, 0, 1];
        for &p in &ps {
            let p = p as i64;
            bases.extend([p, p + 1, mi / p, (p * rng.range_i64(1, mi / p - 1)) % mi]);
        }
        for _ in 0..3 {
            bases.push(rng.range_i64(2, mi - 2));
        }
        bases.sort();
        bases.dedup();
        bases.push(7 + mi * rng.range_i64(1, 1 << 30));
        bases.push(-11);
        let rot = (m % 3) as usize;
        for (i, &a) in bases.iter().enumerate() {
            let prime_base = (2..=19).contains(&a);
            for (j, &d) in exps.iter().enumerate() {
                // every exponent for the small prime bases; a rotating third (debug profile: of everything) otherwise
                let keep = if lite { (i + j + rot) % 3 == 0 } else { prime_base || (i + j + rot) % 3 == 0 };
                if thorough || keep {
                    g.pow(m, a, d, "structure");
                    g.st.bump("pow_special_modulus_structure_exponent");
                    if d >= m as u64 - 1 && gcd_i(a.rem_euclid(mi), mi) == 1 {
                        g.st.bump("pow_special_modulus_unit_base_exponent_ge_M-1");
                    }
                }
            }
            g.un(m, a, "structure");
            for &b in bases.iter().take(if lite { 2 } else { 5 }) {
                g.pair(m, a, b, "structure");
            }
        }
        g.cst(m);
        for v in ctor_args(m) {
            g.new(m, v, "boundary");
        }
        let bnd = boundary_residues(m);
        for _ in 0..(if thorough { 40 } else if lite { 2 } else { 6 }) {
            let len = 6 + rng.below(8) as usize;
            g.chain(&mut rng, m, len, &bnd, &exps, "structure");
        }
    }

    // (2b) interleaving: all cases run in ONE process, so state kept between calls (a cache shared by all
    //      `Modular<M>` instantiations, a "last answer" cell) shows only when the same operand is used under
    //      different moduli back to back, or twice in a row under one modulus.  For every ordered pair of moduli
    //      (small -> large and large -> small) and operands coprime to both: inv, div, mul, pow under M1 then
    //      immediately under M2, then the same op twice under M2.
    let inter: [u32; 14] = [2, 3, 5, 7, 8, 9, 64, 15015, 46337, 65536, 998244353, 1000000007, 1073741824, 2147483647];
    for &m1 in inter.iter() {
        for &m2 in inter.iter() {
            if m1 == m2 {
                continue;
            }
            let lim = m1.min(m2) as i64;
            // operands that are canonical residues of both moduli and coprime to both
            let mut vs: Vec<i64> = vec![1, 2, 3, 4, 5, 6, lim - 1, lim - 2, lim / 2, 46341, 65537, 1 << 20];
            let nrand = if thorough { 12 } else { 3 };
            for _ in 0..nrand {
                vs.push(rng.range_i64(1, lim - 1));
            }
            vs.retain(|v| 0 < *v && *v < lim && gcd_i(*v, m1 as i64) == 1 && gcd_i(*v, m2 as i64) == 1);
            vs.sort();
            vs.dedup();
            for &v in &vs {
                let a = rng.range_i64(1, lim - 1);
                let d = *rng.pick(&[2u64, 3, 5, u64::MAX, 1 << 32]);
                // inverse of the same value under M1, then M2, then M2 again
                g.un(m1, v, "interleaved");
                g.un(m2, v, "interleaved");
                g.un(m2, v, "interleaved");
                // the same pair (a / v, a * v) under M1, then M2, twice
                g.pair(m1, a, v, "interleaved");
                g.pair(m2, a, v, "interleaved");
                g.pair(m2, a, v, "interleaved");
                // the same power
                g.pow(m1, v, d, "interleaved");
                g.pow(m2, v, d, "interleaved");
                g.pow(m2, v, d, "interleaved");
                g.st.bump(if m1 < m2 { "interleave_small_to_large_modulus" } else { "interleave_large_to_small_modulus" });
                g.st.bump("interleave_same_op_twice_in_a_row");
                if lite {
                    break;
                }
            }
            // wave 3: (i) state keyed by the ARGUMENT of `new` / `Readable` / `+ - *` (not only by a residue below both
            // moduli): the same non-canonical i64 under M1, M2, M2; (ii) the second modulus on a freshly spawned
            // thread and back on the main thread; (iii) the same history (results fed back) under M1 then M2
            let big = (m1 as i64) * (m2 as i64);
            let ws = [
                rng.next_u64() as i64,
                -(rng.below(1 << 40) as i64) - (m1.max(m2) as i64),
                big.wrapping_add(rng.range_i64(1, 5)),
                i64::MIN + rng.range_i64(0, 3),
            ];
            let w = *rng.pick(&ws);
            let w2 = rand_i64(&mut rng, m2);
            // grouped by operation: the LAST call of one case and the FIRST call of the next are the same function with the same argument
            for &m in &[m1, m2, m2] {
                g.new(m, w, "interleaved");
            }
            for &m in &[m1, m2, m2] {
                g.pair(m, w, w2, "interleaved");
            }
            for &m in &[m1, m2, m2] {
                g.io(m, w, "interleaved");
            }
            // one token, read several times in a row under M1 then under M2: a non-canonical one, and one that is a residue of the
            // larger modulus only
            let (lo, hi) = (m1.min(m2) as i64, m1.max(m2) as i64);
            let wc = rng.range_i64(lo, hi - 1);
            for t in [w, wc] {
                for &m in &[m1, m2, m2] {
                    g.ios(m, &[t.to_string()], "interleaved");
                }
            }
            if !vs.is_empty() {
                let v = vs[rng.below(vs.len() as u64) as usize];
                g.un(m1, v, "interleaved");
                (g.emit)(format!("thr un {} {}", m2, v));
                g.un(m2, v, "interleaved");
                (g.emit)(format!("thr pair {} {} {}", m1, w, v));
                (g.emit)(format!("thr pow {} {} {}", m2, v, u64::MAX));
                g.st.add("interleave_fresh_thread_cases", 3);
                let hist = format!("inv ; sq ; * {} ; inv ; r/ {} ; + {} ; neg ; pow 5 ; eq 1 ; rt ; /= {}", v, w | 1, w, v);
                for &m in &[m1, m2, m2] {
                    (g.emit)(format!("chain {} {} ; {}", m, v, hist));
                    g.st.bump("chain_interleaved");
                }
            }
        }
    }

    // (2c) wave 3: constants, token sequences, histories that feed results back - for EVERY compiled-in modulus of the domain
    let all_moduli: Vec<u32> = (2u32..=64).chain(BIG.iter().copied()).collect();
    for &m in &all_moduli {
        let bnd = boundary_residues(m);
        let exps = exponents(m);
        let small = m <= 64;
        g.cst(m);
        // token sequences: boundary constructor arguments, -0 / leading zeros, random i64
        let mut toks: Vec<String> = vec!["-0".into(), "0".into(), "007".into(), "-007".into(), "-00".into(), format!("-{}", m), format!("-0{}", 2 * m as u64)];
        for v in ctor_args(m) {
            toks.push(v.to_string());
        }
        g.ios(m, &toks, "boundary");
        let nseq = if thorough { 40 } else if lite { 2 * lt } else if small { 2 } else { 8 };
        for _ in 0..nseq {
            let k = 1 + rng.below(12) as usize;
            let toks: Vec<String> = (0..k).map(|_| {
                let v = rand_i64(&mut rng, m);
                if rng.chance(1, 10) { format!("{}{:04}", if v < 0 { "-" } else { "" }, v.unsigned_abs() % 1000) } else { v.to_string() }
            }).collect();
            g.ios(m, &toks, "random");
        }
        // every way of copying / printing / re-reading / comparing a value, on EVERY boundary residue (every residue of a small modulus)
        let vals: Vec<i64> = if small { (0..m as i64).collect() } else { bnd.clone() };
        for (i, &a) in vals.iter().enumerate() {
            if lite && i % 3 != 0 {
                continue;
            }
            (g.emit)(format!("chain {} {} ; clone ; clonefrom ; copy ; vec ; fmt ; rt ; renew ; eq {} ; eq {}", m, a, a, a + 1));
            g.st.bump("chain_copy_group_on_boundary_value");
        }
        let nch = if thorough { 300 } else if lite { 4 * lt } else if small { 6 } else { 60 };
        for i in 0..nch {
            let len = if i % 4 == 0 { 4 } else { 8 + rng.below(16) as usize };
            g.chain(&mut rng, m, len, &bnd, &exps, "random");
        }
    }
    // a few long ones (sizes beyond small scope): a history of ~1500 steps, a token sequence that passes the Reader's buffer
    let long_moduli: &[u32] = if thorough { &BIG } else { &[998244353, 2147483647, 46341, 7] };
    for &m in long_moduli {
        let (bnd, exps) = (boundary_residues(m), exponents(m));
        g.chain(&mut rng, m, if thorough { 6000 } else { 1500 }, &bnd, &exps, "long");
        let k = if thorough { 20_000 } else { 5_000 };
        let toks: Vec<String> = (0..k).map(|_| rand_i64(&mut rng, m).to_string()).collect();
        g.ios(m, &toks, "long");
    }

    // (3) moduli outside the domain (documentation of the guard; the model mirrors casts and panics)
    for &m in OOD.iter() {
        let mm = m as i64;
        for v in [i64::MIN, -mm - 1, -mm, -2, -1, 0, 1, 2, mm - 1, mm, mm + 1, (1 << 31) - 1, 1 << 31, (1 << 31) + 1, (1 << 32) - 1, 1 << 32, i64::MAX] {
            g.new(m, v, "boundary");
            g.un(m, v, "boundary");
            g.io(m, v, "boundary");
            g.pow(m, v, 0, "boundary");
            g.pow(m, v, 3, "boundary");
            for w in [0, 1, 2, mm - 1, mm / 2, 1 << 31] {
                g.pair(m, v, w, "boundary");
            }
        }
        let n = if thorough { 3000 } else { 150 };
        for _ in 0..n {
            let (a, b) = (rand_i64(&mut rng, m.max(2)), rand_i64(&mut rng, m.max(2)));
            g.pair(m, a, b, "random");
            g.un(m, a, "random");
            g.new(m, b, "random");
            g.pow(m, a, rng.below(40), "random");
        }
    }
}

fn main() {
    cli(gen, run_case);
}
