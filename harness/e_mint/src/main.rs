//! Correspondence harness for engine `mint` (property C06): drives `rlib_mint::Modular<M>`
//! through its public API for a compiled-in list of moduli.
//!
//! Case lines (decimal numbers):
//!   new M v | pair M a b | un M a | pow M a d | io M v
//! Operands of `pair`/`un`/`pow` are `i64` constructor arguments (canonical residues in the
//! exhaustive part, arbitrary `i64` in the random part): the harness always builds values with
//! `Modular::<M>::new`, the only public constructor.
#[path = "../../common/mod.rs"]
mod common;
use common::*;
use rlib_io::{Reader, Writer};
use rlib_mint::Modular;

/// moduli inside the property's domain that are not in 2..=64
const BIG: [u32; 18] = [
    998244353,  // competition prime
    1000000007, // competition prime
    2147483647, // 2^31 - 1 (prime)
    2147483629, // 2^31 - 19 (prime)
    2147483646, // 2^31 - 2 (composite, adjacent to the limit)
    2147483645, // 2^31 - 3 (composite)
    65536,      // power of two
    15015,      // 3*5*7*11*13
    1073741824, // 2^30: the largest power of two in the domain
    46341,      // M^2 just above 2^31 (46341 = 3*15447)
    46340,      // M^2 just below 2^31
    46337,      // prime next to sqrt(2^31)
    65537,      // Fermat prime: (M-1)^2 = 2^32 exactly (a 32-bit product fast path is wrong for -1 * -1 only)
    65535,      // (M-1)^2 just below 2^32
    65538,      // (M-1)^2 just above 2^32
    1073741825, // 2^30 + 1: the sum of two residues can pass 2^31
    1073741823, // 2^30 - 1
    257,        // Fermat prime: (M-1)^2 = 2^16
];
/// moduli outside the domain (`S any`): the model mirrors the wrapping casts / overflow panics
const OOD: [u32; 4] = [1, 2147483648, 2147483649, 4294967295];

macro_rules! dispatch {
    ($m:expr, $op:expr, $args:expr; $($lit:literal)*) => {
        match $m {
            $( $lit => Some(run_m::<$lit>($op, $args)), )*
            _ => None,
        }
    };
}

fn dispatch_modulus(m: u32, op: &str, args: &[&str]) -> Option<String> {
    dispatch!(m, op, args;
        2 3 4 5 6 7 8 9 10 11 12 13 14 15 16 17 18 19 20 21 22 23 24 25 26 27 28 29 30 31 32 33
        34 35 36 37 38 39 40 41 42 43 44 45 46 47 48 49 50 51 52 53 54 55 56 57 58 59 60 61 62 63 64
        998244353 1000000007 2147483647 2147483629 2147483646 2147483645 65536 15015
        1073741824 46341 46340 46337 65537 65535 65538 1073741825 1073741823 257
        1 2147483648 2147483649 4294967295)
}

fn gcd_u128(a: u128, b: u128) -> u128 {
    let (mut a, mut b) = (a, b);
    while b != 0 {
        let t = a % b;
        a = b;
        b = t;
    }
    a
}

fn val<const M: u32>(r: &Result<Modular<M>, String>) -> String {
    match r {
        Ok(x) => x.inner().to_string(),
        Err(e) => e.clone(),
    }
}

/// result of the operator form, cross-checked against the assigning form
fn both<const M: u32>(r1: Result<Modular<M>, String>, r2: Result<Modular<M>, String>) -> Result<Modular<M>, String> {
    let (s1, s2) = (val(&r1), val(&r2));
    if s1 == s2 {
        r1
    } else {
        Err(format!("ASSIGN-MISMATCH({},{})", s1, s2))
    }
}

fn run_m<const M: u32>(op: &str, args: &[&str]) -> String {
    let p = |k: usize| -> i64 { args[k].parse::<i64>().unwrap() };
    let m = M as u128;
    match op {
        "new" => {
            let v = p(0);
            out1(&val(&catch(|| Modular::<M>::new(v))))
        }
        "pair" => {
            let (a, b) = (p(0), p(1));
            let x = catch(|| Modular::<M>::new(a));
            let y = catch(|| Modular::<M>::new(b));
            let (x, y) = match (&x, &y) {
                (Ok(x), Ok(y)) => (*x, *y),
                _ => return out1(&format!("operand:{}:{}", val(&x), val(&y))),
            };
            let add = both(catch(|| x + y), catch(|| { let mut t = x; t += y; t }));
            let sub = both(catch(|| x - y), catch(|| { let mut t = x; t -= y; t }));
            let mul = both(catch(|| x * y), catch(|| { let mut t = x; t *= y; t }));
            let div = both(catch(|| x / y), catch(|| { let mut t = x; t /= y; t }));
            let eq = x == y;
            let eq_s = if (x != y) == eq { "NE-INCONSISTENT".to_string() } else { eq.to_string() };
            // independent oracle for the quotient: 0 <= z < M and z*y = x*gcd(y, M) (mod M), in u128
            let div_view = match &div {
                Err(e) => e.clone(),
                Ok(z) => {
                    let (z, xv, yv) = (z.inner() as u128, x.inner() as u128, y.inner() as u128);
                    let g = gcd_u128(yv, m);
                    if z < m && (z * yv) % m == (xv * g) % m { "ok".into() } else { "bad".into() }
                }
            };
            // the property constrains `/` only for divisors coprime to M
            let div_view = if gcd_u128(y.inner() as u128, m) != 1 { "any".to_string() } else { div_view };
            let raw = format!("add={} sub={} mul={} div={} eq={}", val(&add), val(&sub), val(&mul), val(&div), eq_s);
            let view = format!("add={} sub={} mul={} div={} eq={}", val(&add), val(&sub), val(&mul), div_view, eq_s);
            out2(&raw, &view)
        }
        "un" => {
            let a = p(0);
            let x = match catch(|| Modular::<M>::new(a)) {
                Ok(x) => x,
                Err(e) => return out1(&format!("operand:{}", e)),
            };
            let neg = catch(|| -x);
            let inv = catch(|| x.inv());
            let inv_view = match &inv {
                Err(e) => e.clone(),
                Ok(r) => {
                    let (r, xv) = (r.inner() as u128, x.inner() as u128);
                    let g = gcd_u128(xv, m);
                    if r < m && (r * xv) % m == g % m { "ok".into() } else { "bad".into() }
                }
            };
            let inv_view = if gcd_u128(x.inner() as u128, m) != 1 { "any".to_string() } else { inv_view };
            let fmt = format!("{}/{:?}", x, x);
            out2(
                &format!("neg={} inv={} fmt={}", val(&neg), val(&inv), fmt),
                &format!("neg={} inv={} fmt={}", val(&neg), inv_view, fmt),
            )
        }
        "pow" => {
            let a = p(0);
            let d = args[1].parse::<u64>().unwrap();
            let x = match catch(|| Modular::<M>::new(a)) {
                Ok(x) => x,
                Err(e) => return out1(&format!("operand:{}", e)),
            };
            out1(&val(&catch(|| x.pow(d))))
        }
        "io" => {
            let v = p(0);
            // w: bytes of Writable; rt: those bytes (plus a newline) read back through a real Reader
            let (w, rt) = match catch(|| Modular::<M>::new(v)) {
                Err(e) => (e.clone(), e),
                Ok(x) => {
                    let mut buf: Vec<u8> = Vec::new();
                    {
                        let mut wr = Writer::new(Box::new(&mut buf));
                        wr.write(&x);
                    }
                    let w = String::from_utf8_lossy(&buf).replace(' ', "_").replace('\n', "\\n");
                    buf.push(b'\n');
                    let rt = catch(move || {
                        let mut rd = Reader::new(Box::new(&buf[..]));
                        let y: Modular<M> = rd.read();
                        y
                    });
                    (w, val(&rt))
                }
            };
            let tok = format!("{}\n", args[0]);
            let r = catch(|| {
                let mut rd = Reader::new(Box::new(tok.as_bytes()));
                let x: Modular<M> = rd.read();
                x
            });
            out1(&format!("w={} r={} rt={}", w, val(&r), rt))
        }
        _ => "I bad-op | V bad-op".to_string(),
    }
}

fn run_case(line: &str) -> String {
    let toks: Vec<&str> = line.split_whitespace().collect();
    if toks.len() < 3 {
        return "I INVALID | V INVALID".to_string();
    }
    let m: u32 = match toks[1].parse() {
        Ok(m) => m,
        Err(_) => return "I INVALID | V INVALID".to_string(),
    };
    let op = toks[0];
    let args = &toks[2..];
    match dispatch_modulus(m, op, args) {
        // outside the property's domain nothing is pinned: raw is the constant `ood`, the result is only shown
        Some(s) if OOD.contains(&m) => match s.split_once(" | V ") {
            Some((raw, _)) => format!("I ood | V {}", &raw[2..]),
            None => s,
        },
        Some(s) => s,
        None => "I unsupported-modulus | V unsupported-modulus".to_string(),
    }
}

// ------------------------------------------------------------------------------------------
// generators
// ------------------------------------------------------------------------------------------

fn boundary_residues(m: u32) -> Vec<i64> {
    let m = m as i64;
    let mut v = vec![
        0, 1, 2, 3, m - 1, m - 2, m - 3, m / 2, (m + 1) / 2, m / 2 - 1, m / 2 + 1,
        1 << 15, (1 << 16) - 1, 1 << 16, (1 << 16) + 1, 46340, 46341, 1 << 30, (1 << 30) + 1, (1 << 31) - 1,
        3 * 5 * 7, 1 << 8,
    ];
    v.retain(|x| 0 <= *x && *x < m);
    v.sort();
    v.dedup();
    v
}

fn ctor_args(m: u32) -> Vec<i64> {
    let m = m as i64;
    let mut v = vec![
        i64::MIN, i64::MIN + 1, i64::MIN + 2, -m - 1, -m, -m + 1, -2 * m, -2, -1, 0, 1, m - 1, m, m + 1, 2 * m - 1, 2 * m,
        (1 << 31) - 1, 1 << 31, (1 << 31) + 1, -(1 << 31), -(1 << 31) - 1, -(1 << 31) + 1,
        (1 << 32) - 1, 1 << 32, (1 << 32) + 1, -(1 << 32), -(1i64 << 32) - 1,
        i64::MAX, i64::MAX - 1, i64::MAX / 2, i64::MIN / 2,
        (i64::MAX / m) * m, (i64::MAX / m) * m - 1, (i64::MIN / m) * m, (i64::MIN / m) * m + 1,
        m * m, m * m - 1, -(m * m), (m - 1) * (m - 1),
    ];
    v.sort();
    v.dedup();
    v
}

fn exponents(m: u32) -> Vec<u64> {
    let m = m as u64;
    let mut v = vec![
        0, 1, 2, 3, 4, 5, 7, 8, m - 1, m, m + 1, m.saturating_sub(2), 2 * m,
        (1 << 31) - 1, 1 << 31, (1 << 32) - 1, 1 << 32, (1 << 32) + 1, 3 << 32, 1 << 33, 1 << 63, (1 << 63) + 1,
        u64::MAX, u64::MAX - 1, 0xAAAA_AAAA_AAAA_AAAA, 0x5555_5555_5555_5555,
    ];
    v.sort();
    v.dedup();
    v
}

fn rand_i64(rng: &mut SplitMix64, m: u32) -> i64 {
    let m = m as i64;
    match rng.below(8) {
        0 => rng.next_u64() as i64,
        1 => rng.range_i64(-(1 << 33), 1 << 33),
        2 => rng.range_i64(-3 * m, 3 * m),
        3 => {
            // near a multiple of M
            let k = rng.range_i64(i64::MIN / m + 1, i64::MAX / m - 1);
            k * m + rng.range_i64(-2, 2)
        }
        4 => {
            let s = rng.below(63);
            let b = 1i64 << s;
            let d = rng.range_i64(-2, 2);
            if rng.chance(1, 2) { b.wrapping_add(d) } else { (-b).wrapping_add(d) }
        }
        _ => rng.range_i64(0, m - 1),
    }
}

fn rand_residue(rng: &mut SplitMix64, m: u32, bnd: &[i64]) -> i64 {
    match rng.below(6) {
        0 => *rng.pick(bnd),
        1 => {
            // small multiples of a divisor-ish number
            let f = rng.range_i64(1, 64);
            (f * rng.range_i64(0, (m as i64 - 1) / f)).min(m as i64 - 1)
        }
        _ => rng.range_i64(0, m as i64 - 1),
    }
}

fn rand_exp(rng: &mut SplitMix64, exps: &[u64]) -> u64 {
    match rng.below(5) {
        0 => *rng.pick(exps),
        1 => rng.below(64),
        2 => rng.next_u64() >> rng.below(64),
        3 => (rng.below(1 << 20)) << 32,
        _ => rng.next_u64(),
    }
}

fn class_of(m: u32) -> &'static str {
    if OOD.contains(&m) {
        "ood"
    } else if m <= 64 {
        "small"
    } else {
        "big"
    }
}

fn gcd_i(a: i64, b: i64) -> i64 {
    gcd_u128(a.unsigned_abs() as u128, b.unsigned_abs() as u128) as i64
}

struct Gen<'a> {
    emit: &'a mut dyn FnMut(String),
    st: &'a mut Stats,
}

impl<'a> Gen<'a> {
    fn pair(&mut self, m: u32, a: i64, b: i64, how: &str) {
        (self.emit)(format!("pair {} {} {}", m, a, b));
        let c = class_of(m);
        self.st.bump(&format!("pair_{}_{}", c, how));
        self.st.add("assigning_forms_evaluated(+=,-=,*=,/=)", 4);
        if c != "ood" {
            let mm = m as i128;
            let (ra, rb) = ((a as i128).rem_euclid(mm), (b as i128).rem_euclid(mm));
            if ra + rb >= mm {
                self.st.bump("branch_add_subtracts_M");
            }
            if ra + rb == mm {
                self.st.bump("branch_add_sum_eq_M");
            }
            if ra >= rb {
                self.st.bump("branch_sub_subtracts_M");
            }
            if ra * rb >= 1 << 31 {
                self.st.bump("branch_mul_product_ge_2^31");
            }
            if ra * rb >= 1 << 61 {
                self.st.bump("branch_mul_product_ge_2^61");
            }
            if ra == rb {
                self.st.bump("branch_eq_true");
            }
            // the 32-bit product boundary: floor/ceil of sqrt(2^31), both factors
            if (ra == 46340 || ra == 46341) && (rb == 46340 || rb == 46341) && mm > 46341 {
                self.st.bump("pair_both_operands_at_sqrt_2^31");
            }
            if ra == 46341 && rb == 46341 && mm > 46341 {
                self.st.bump("pair_46341_x_46341");
            }
            if gcd_i(rb as i64, m as i64) != 1 {
                self.st.bump("branch_div_noncoprime");
            }
            if a < 0 || a >= mm as i64 || b < 0 || b >= mm as i64 {
                self.st.bump("pair_noncanonical_ctor_arg");
            }
        }
    }
    fn un(&mut self, m: u32, a: i64, how: &str) {
        (self.emit)(format!("un {} {}", m, a));
        let c = class_of(m);
        self.st.bump(&format!("un_{}_{}", c, how));
        if c != "ood" {
            let ra = (a as i128).rem_euclid(m as i128) as i64;
            if ra == 0 {
                self.st.bump("branch_neg_inv_zero");
            } else if gcd_i(ra, m as i64) == 1 {
                self.st.bump("branch_inv_coprime");
            } else {
                self.st.bump("branch_inv_noncoprime");
            }
        }
    }
    fn pow(&mut self, m: u32, a: i64, d: u64, how: &str) {
        (self.emit)(format!("pow {} {} {}", m, a, d));
        self.st.bump(&format!("pow_{}_{}", class_of(m), how));
        if d >= 1 << 32 {
            self.st.bump("pow_exponent_ge_2^32");
        }
        if d == u64::MAX {
            self.st.bump("pow_exponent_u64_max");
        }
        if d == 0 {
            self.st.bump("pow_exponent_zero");
        }
    }
    fn new(&mut self, m: u32, v: i64, how: &str) {
        (self.emit)(format!("new {} {}", m, v));
        self.st.bump(&format!("new_{}_{}", class_of(m), how));
        if v < 0 {
            self.st.bump("new_negative_arg");
        }
        if v >= 1 << 31 || v < -(1 << 31) {
            self.st.bump("new_arg_outside_i32");
        }
        if v == i64::MIN || v == i64::MAX {
            self.st.bump("new_arg_i64_extreme");
        }
    }
    fn io(&mut self, m: u32, v: i64, how: &str) {
        (self.emit)(format!("io {} {}", m, v));
        self.st.bump(&format!("io_{}_{}", class_of(m), how));
        if v >= 1 << 31 || v < -(1 << 31) {
            self.st.bump("io_token_outside_i32");
        }
        if v < 0 {
            self.st.bump("io_token_negative");
        }
    }
}

fn gen(args: &Args, emit: &mut dyn FnMut(String), st: &mut Stats) {
    let thorough = args.tier == "thorough";
    let mut rng = SplitMix64::new(args.seed ^ 0xC06);
    let mut g = Gen { emit, st };

    // (1) exhaustive small scope: every modulus 2..=64, every operand pair, every operation
    for m in 2u32..=64 {
        let mi = m as i64;
        for a in 0..mi {
            for b in 0..mi {
                g.pair(m, a, b, "exhaustive");
            }
            g.un(m, a, "exhaustive");
            // exponents: a window (covers several full periods in the thorough tier) + the boundary list
            let win = if thorough { 2 * m as u64 + 2 } else { 6 };
            for d in 0..=win {
                g.pow(m, a, d, "exhaustive");
            }
            // boundary exponents: every base in the thorough tier and for m <= 16, the extreme bases otherwise
            if thorough || m <= 16 || a <= 2 || a >= mi - 2 || a == mi / 2 {
                for d in exponents(m) {
                    if d > win {
                        g.pow(m, a, d, "boundary");
                    }
                }
            }
            if thorough {
                for _ in 0..8 {
                    let d = rng.next_u64() >> rng.below(64);
                    g.pow(m, a, d, "random");
                }
            }
        }
        // constructor: a window around 0 and the boundary list
        let w = if thorough { 4 * mi } else { 2 * mi };
        for v in -w..=w {
            g.new(m, v, "exhaustive");
        }
        for v in ctor_args(m) {
            g.new(m, v, "boundary");
            g.io(m, v, "boundary");
        }
        let n = if thorough { 400 } else { 40 };
        for _ in 0..n {
            let v = rand_i64(&mut rng, m);
            g.new(m, v, "random");
            let v = rand_i64(&mut rng, m);
            g.io(m, v, "random");
            // non-canonical constructor arguments as operands
            let (a, b) = (rand_i64(&mut rng, m), rand_i64(&mut rng, m));
            g.pair(m, a, b, "random");
        }
    }

    // (2) the large moduli: boundary operands in all combinations, then random ones
    for &m in BIG.iter() {
        let bnd = boundary_residues(m);
        let exps = exponents(m);
        for &a in &bnd {
            for &b in &bnd {
                g.pair(m, a, b, "boundary");
            }
            g.un(m, a, "boundary");
            for &d in &exps {
                g.pow(m, a, d, "boundary");
            }
        }
        for v in ctor_args(m) {
            g.new(m, v, "boundary");
            g.io(m, v, "boundary");
            g.un(m, v, "boundary");
        }
        // small residues exhaustively (inverse of everything up to 300, every pair up to 40)
        for a in 0..300.min(m as i64) {
            g.un(m, a, "exhaustive");
        }
        for a in 0..40.min(m as i64) {
            for b in 0..40.min(m as i64) {
                g.pair(m, m as i64 - 1 - a, b, "exhaustive");
            }
        }
        let n = if thorough { 70_000 } else { 1_000 };
        for _ in 0..n {
            let (a, b) = (rand_residue(&mut rng, m, &bnd), rand_residue(&mut rng, m, &bnd));
            // complementary residues (a + b = M, M ± 1) one time in eight
            let b = if rng.chance(1, 8) { (m as i64 - a + rng.range_i64(-1, 1)).clamp(0, m as i64 - 1) } else { b };
            g.pair(m, a, b, "random");
            let a = rand_residue(&mut rng, m, &bnd);
            g.un(m, a, "random");
            let (a, d) = (rand_residue(&mut rng, m, &bnd), rand_exp(&mut rng, &exps));
            g.pow(m, a, d, "random");
            let v = rand_i64(&mut rng, m);
            g.new(m, v, "random");
            if rng.chance(1, 4) {
                let v = rand_i64(&mut rng, m);
                g.io(m, v, "random");
                let (a, b) = (rand_i64(&mut rng, m), rand_i64(&mut rng, m));
                g.pair(m, a, b, "random");
            }
        }
    }

    // (2b) interleaving: all cases run in ONE process, so state kept between calls (a cache shared by all
    //      `Modular<M>` instantiations, a "last answer" cell) shows only when the same operand is used under
    //      different moduli back to back, or twice in a row under one modulus.  For every ordered pair of moduli
    //      (small -> large and large -> small) and operands coprime to both: inv, div, mul, pow under M1 then
    //      immediately under M2, then the same op twice under M2.
    let inter: [u32; 14] = [2, 3, 5, 7, 8, 9, 64, 15015, 46337, 65536, 998244353, 1000000007, 1073741824, 2147483647];
    for &m1 in inter.iter() {
        for &m2 in inter.iter() {
            if m1 == m2 {
                continue;
            }
            let lim = m1.min(m2) as i64;
            // operands that are canonical residues of both moduli and coprime to both
            let mut vs: Vec<i64> = vec![1, 2, 3, 4, 5, 6, lim - 1, lim - 2, lim / 2, 46341, 65537, 1 << 20];
            let nrand = if thorough { 12 } else { 3 };
            for _ in 0..nrand {
                vs.push(rng.range_i64(1, lim - 1));
            }
            vs.retain(|v| 0 < *v && *v < lim && gcd_i(*v, m1 as i64) == 1 && gcd_i(*v, m2 as i64) == 1);
            vs.sort();
            vs.dedup();
            for &v in &vs {
                let a = rng.range_i64(1, lim - 1);
                let d = *rng.pick(&[2u64, 3, 5, u64::MAX, 1 << 32]);
                // inverse of the same value under M1, then M2, then M2 again
                g.un(m1, v, "interleaved");
                g.un(m2, v, "interleaved");
                g.un(m2, v, "interleaved");
                // the same pair (a / v, a * v) under M1, then M2, twice
                g.pair(m1, a, v, "interleaved");
                g.pair(m2, a, v, "interleaved");
                g.pair(m2, a, v, "interleaved");
                // the same power
                g.pow(m1, v, d, "interleaved");
                g.pow(m2, v, d, "interleaved");
                g.pow(m2, v, d, "interleaved");
                g.st.bump(if m1 < m2 { "interleave_small_to_large_modulus" } else { "interleave_large_to_small_modulus" });
                g.st.bump("interleave_same_op_twice_in_a_row");
            }
        }
    }

    // (3) moduli outside the domain (documentation of the guard; the model mirrors casts and panics)
    for &m in OOD.iter() {
        let mm = m as i64;
        for v in [i64::MIN, -mm - 1, -mm, -2, -1, 0, 1, 2, mm - 1, mm, mm + 1, (1 << 31) - 1, 1 << 31, (1 << 31) + 1, (1 << 32) - 1, 1 << 32, i64::MAX] {
            g.new(m, v, "boundary");
            g.un(m, v, "boundary");
            g.io(m, v, "boundary");
            g.pow(m, v, 0, "boundary");
            g.pow(m, v, 3, "boundary");
            for w in [0, 1, 2, mm - 1, mm / 2, 1 << 31] {
                g.pair(m, v, w, "boundary");
            }
        }
        let n = if thorough { 3000 } else { 150 };
        for _ in 0..n {
            let (a, b) = (rand_i64(&mut rng, m.max(2)), rand_i64(&mut rng, m.max(2)));
            g.pair(m, a, b, "random");
            g.un(m, a, "random");
            g.new(m, b, "random");
            g.pow(m, a, rng.below(40), "random");
        }
    }
}

fn main() {
    cli(gen, run_case);
}
