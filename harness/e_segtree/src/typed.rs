//! The six built-in items and two `Combinator` nestings at **unsigned and narrow element types** (`min:u8`, `minadd:u64`,
//! `mm:i32`, ...), with elements, modifiers and search thresholds at the type's extreme values.
//!
//! * `Prim` is the harness's own description of an element type: its bounds come from the standard library's inherent
//!   constants (`<u8>::MAX` ...), **not** from `rlib_num_traits::MinMax`, so the shadow vector's empty-range identity
//!   (`o_dflt`) is independent of the trait constants the items under test use for `Default`.
//! * Observable values are `i128`, so the plain re-implementation of the algebra never overflows.
//! * Machine overflow inside the real items is outside the property's domain (the harness is built with
//!   `overflow-checks = true`, an overflowing `+=` panics).  `gen_typed` therefore keeps every history inside the type
//!   with a conservative bookkeeping that does not look at the tree (`Budget`), while still placing elements exactly at
//!   `T::MIN` / `T::MAX` and moving them inward; the Lean driver decides independently (overflow guard of the model)
//!   whether a history is inside the domain and answers `S any` if not.
use super::*;
use rlib_num_traits::{MinMax, ZeroOne};
use std::fmt::Display;
use std::ops::{Add, AddAssign, Mul};

pub trait Prim:
    Copy
    + Debug
    + Display
    + PartialOrd
    + Default
    + AddAssign
    + Add<Output = Self>
    + Mul<Output = Self>
    + MinMax
    + ZeroOne
    + 'static
{
    const LO: i128;
    const HI: i128;
    fn to(self) -> i128;
    fn of(x: i128) -> Option<Self>;
}

macro_rules! prim {
    ($($t:ty),*) => {
        $(impl Prim for $t {
            // the standard library's inherent constants, not the crate's `MinMax`
            const LO: i128 = <$t>::MIN as i128;
            const HI: i128 = <$t>::MAX as i128;
            fn to(self) -> i128 {
                self as i128
            }
            fn of(x: i128) -> Option<Self> {
                <$t>::try_from(x).ok()
            }
        })*
    };
}
prim!(i8, u8, i16, u16, i32, u32, u64, isize, usize);

pub const TYPES: [&str; 9] = ["i8", "u8", "i16", "u16", "i32", "u32", "u64", "isize", "usize"];
pub const BASES: [&str; 8] = ["min", "max", "sum", "minadd", "maxadd", "sumadd", "mm", "smm"];

/// `<T as MinMax>::MIN MAX <T as ZeroOne>::ZERO ONE` — the trait constants the items' `Default` / `new` are built from
pub fn consts<T: MinMax + ZeroOne + Display>() -> String {
    out1(&format!("{} {} {} {}", T::MIN, T::MAX, T::ZERO, T::ONE))
}

pub fn const_line(ty: &str) -> Option<String> {
    Some(match ty {
        "i8" => consts::<i8>(),
        "u8" => consts::<u8>(),
        "i16" => consts::<i16>(),
        "u16" => consts::<u16>(),
        "i32" => consts::<i32>(),
        "u32" => consts::<u32>(),
        "i64" => consts::<i64>(),
        "u64" => consts::<u64>(),
        "i128" => consts::<i128>(),
        "u128" => consts::<u128>(),
        "isize" => consts::<isize>(),
        "usize" => consts::<usize>(),
        // floats: as bit patterns
        "f64" => fconsts::<f64>(),
        "f32" => fconsts::<f32>(),
        _ => return None,
    })
}
pub const CONST_TYPES: [&str; 14] =
    ["i8", "u8", "i16", "u16", "i32", "u32", "i64", "u64", "i128", "u128", "isize", "usize", "f64", "f32"];

// ---- tokens ----

fn p128(t: &str) -> Option<i128> {
    t.parse::<i128>().ok()
}

/// `v` (through the item's own `From<T>`) or `v@md` (struct literal)
fn tval<T: Prim, I>(tok: &str, plain: impl Fn(T) -> I, lazy: Option<&dyn Fn(T, T) -> I>) -> Option<I> {
    match tok.split_once('@') {
        None => Some(plain(T::of(p128(tok)?)?)),
        Some((v, m)) => Some(lazy?(T::of(p128(v)?)?, T::of(p128(m)?)?)),
    }
}

fn tmod<T: Prim>(toks: &[&str]) -> Option<T> {
    if toks.len() == 1 {
        T::of(p128(toks[0])?)
    } else {
        None
    }
}

fn tok128(toks: &[&str], name: &str) -> Option<i128> {
    if toks.len() == 2 && toks[0] == name {
        p128(toks[1])
    } else {
        None
    }
}

/// thresholds next to an actual aggregate, or at the type's extreme values / the signed-unsigned boundary
fn threshold(rng: &mut SplitMix64, x: i128, lo: i128, hi: i128) -> i128 {
    match rng.below(10) {
        0 => hi,
        1 => hi - 1,
        2 => lo,
        3 => lo + 1,
        4 => {
            if lo == 0 {
                hi / 2 + rng.below(3) as i128 // iN::MAX, iN::MAX + 1, ... seen as uN
            } else {
                rng.below(3) as i128 - 1
            }
        }
        _ => x + rng.below(3) as i128 - 1,
    }
}

fn g_lt(rng: &mut SplitMix64, aggs: &[i128], lo: i128, hi: i128) -> String {
    pick_const(rng).unwrap_or_else(|| {
        let x = *rng.pick(aggs);
        format!("lt {}", threshold(rng, x, lo, hi) + 1)
    })
}
fn g_gt(rng: &mut SplitMix64, aggs: &[i128], lo: i128, hi: i128) -> String {
    pick_const(rng).unwrap_or_else(|| {
        let x = *rng.pick(aggs);
        format!("gt {}", threshold(rng, x, lo, hi) - 1)
    })
}
fn g_ge(rng: &mut SplitMix64, aggs: &[i128], lo: i128, hi: i128) -> String {
    pick_const(rng).unwrap_or_else(|| {
        let x = *rng.pick(aggs);
        format!("ge {}", threshold(rng, x, lo, hi))
    })
}

fn p_lt(toks: &[&str]) -> Option<Pred<i128>> {
    if let Some(c) = tok128(toks, "lt") {
        return Some(Box::new(move |x: &i128| *x < c));
    }
    pred_const(toks)
}
fn p_gt(toks: &[&str]) -> Option<Pred<i128>> {
    if let Some(c) = tok128(toks, "gt") {
        return Some(Box::new(move |x: &i128| *x > c));
    }
    pred_const(toks)
}

macro_rules! unit_m {
    () => {
        type M = ();
        fn parse_mod(toks: &[&str]) -> Option<()> {
            if toks == ["u"] {
                Some(())
            } else {
                None
            }
        }
        fn gen_mod(_rng: &mut SplitMix64, _st: &Style) -> String {
            "u".into()
        }
        fn mod_identity(_m: &()) -> bool {
            true
        }
        fn gen_val(_rng: &mut SplitMix64, _st: &Style) -> String {
            "0".into()
        }
    };
}
macro_rules! prim_m {
    () => {
        type M = T;
        fn parse_mod(toks: &[&str]) -> Option<T> {
            tmod::<T>(toks)
        }
        fn gen_mod(_rng: &mut SplitMix64, _st: &Style) -> String {
            "0".into()
        }
        fn mod_identity(m: &T) -> bool {
            m.to() == 0
        }
        fn gen_val(_rng: &mut SplitMix64, _st: &Style) -> String {
            "0".into()
        }
    };
}

impl<T: Prim> HItem for Min<T> {
    unit_m!();
    type O = i128;
    fn parse_val(tok: &str) -> Option<Self> {
        tval::<T, _>(tok, Min::from, None)
    }
    fn obs(&self) -> i128 {
        self.v.to()
    }
    fn o_dflt() -> i128 {
        T::HI
    }
    fn o_op(a: &i128, b: &i128) -> i128 {
        *a.min(b)
    }
    fn o_act(_m: &(), a: &i128) -> i128 {
        *a
    }
    fn o_view(o: &i128) -> String {
        o.to_string()
    }
    fn parse_pred(toks: &[&str]) -> Option<Pred<i128>> {
        p_lt(toks)
    }
    fn gen_pred(rng: &mut SplitMix64, aggs: &[i128], _e: &[i128], _rev: bool) -> String {
        g_lt(rng, aggs, T::LO, T::HI)
    }
}

impl<T: Prim> HItem for Max<T> {
    unit_m!();
    type O = i128;
    fn parse_val(tok: &str) -> Option<Self> {
        tval::<T, _>(tok, Max::from, None)
    }
    fn obs(&self) -> i128 {
        self.v.to()
    }
    fn o_dflt() -> i128 {
        T::LO
    }
    fn o_op(a: &i128, b: &i128) -> i128 {
        *a.max(b)
    }
    fn o_act(_m: &(), a: &i128) -> i128 {
        *a
    }
    fn o_view(o: &i128) -> String {
        o.to_string()
    }
    fn parse_pred(toks: &[&str]) -> Option<Pred<i128>> {
        p_gt(toks)
    }
    fn gen_pred(rng: &mut SplitMix64, aggs: &[i128], _e: &[i128], _rev: bool) -> String {
        g_gt(rng, aggs, T::LO, T::HI)
    }
}

impl<T: Prim> HItem for Sum<T> {
    unit_m!();
    type O = i128;
    fn parse_val(tok: &str) -> Option<Self> {
        tval::<T, _>(tok, Sum::from, None)
    }
    fn obs(&self) -> i128 {
        self.v.to()
    }
    fn o_dflt() -> i128 {
        0
    }
    fn o_op(a: &i128, b: &i128) -> i128 {
        a + b
    }
    fn o_act(_m: &(), a: &i128) -> i128 {
        *a
    }
    fn o_view(o: &i128) -> String {
        o.to_string()
    }
    fn parse_pred(toks: &[&str]) -> Option<Pred<i128>> {
        if let Some(c) = tok128(toks, "ge") {
            return Some(Box::new(move |x: &i128| *x >= c));
        }
        pred_const(toks)
    }
    fn gen_pred(rng: &mut SplitMix64, aggs: &[i128], _e: &[i128], _rev: bool) -> String {
        g_ge(rng, aggs, T::LO, T::HI)
    }
}

impl<T: Prim> HItem for MinAdd<T> {
    prim_m!();
    type O = i128;
    fn parse_val(tok: &str) -> Option<Self> {
        tval::<T, _>(tok, MinAdd::from, Some(&|v, md| MinAdd { v, md }))
    }
    fn obs(&self) -> i128 {
        self.v.to()
    }
    fn o_dflt() -> i128 {
        T::HI
    }
    fn o_op(a: &i128, b: &i128) -> i128 {
        *a.min(b)
    }
    fn o_act(m: &T, a: &i128) -> i128 {
        a + m.to()
    }
    fn o_view(o: &i128) -> String {
        o.to_string()
    }
    fn parse_pred(toks: &[&str]) -> Option<Pred<i128>> {
        p_lt(toks)
    }
    fn gen_pred(rng: &mut SplitMix64, aggs: &[i128], _e: &[i128], _rev: bool) -> String {
        g_lt(rng, aggs, T::LO, T::HI)
    }
}

impl<T: Prim> HItem for MaxAdd<T> {
    prim_m!();
    type O = i128;
    fn parse_val(tok: &str) -> Option<Self> {
        tval::<T, _>(tok, MaxAdd::from, Some(&|v, md| MaxAdd { v, md }))
    }
    fn obs(&self) -> i128 {
        self.v.to()
    }
    fn o_dflt() -> i128 {
        T::LO
    }
    fn o_op(a: &i128, b: &i128) -> i128 {
        *a.max(b)
    }
    fn o_act(m: &T, a: &i128) -> i128 {
        a + m.to()
    }
    fn o_view(o: &i128) -> String {
        o.to_string()
    }
    fn parse_pred(toks: &[&str]) -> Option<Pred<i128>> {
        p_gt(toks)
    }
    fn gen_pred(rng: &mut SplitMix64, aggs: &[i128], _e: &[i128], _rev: bool) -> String {
        g_gt(rng, aggs, T::LO, T::HI)
    }
}

impl<T: Prim> HItem for SumAdd<T> {
    prim_m!();
    /// (sum, number of elements)
    type O = (i128, i128);
    fn parse_val(tok: &str) -> Option<Self> {
        // `len: T::of(1)`: the harness's own 1, not `ZeroOne::ONE`
        tval::<T, _>(tok, SumAdd::from, Some(&|v, md| SumAdd { v, len: T::of(1).unwrap(), md }))
    }
    fn obs(&self) -> (i128, i128) {
        (self.v.to(), self.len.to())
    }
    fn o_dflt() -> (i128, i128) {
        (0, 0)
    }
    fn o_op(a: &(i128, i128), b: &(i128, i128)) -> (i128, i128) {
        (a.0 + b.0, a.1 + b.1)
    }
    fn o_act(m: &T, a: &(i128, i128)) -> (i128, i128) {
        (a.0 + m.to() * a.1, a.1)
    }
    fn o_view(o: &(i128, i128)) -> String {
        format!("({},{})", o.0, o.1)
    }
    fn parse_pred(toks: &[&str]) -> Option<Pred<(i128, i128)>> {
        if let Some(c) = tok128(toks, "ge") {
            return Some(Box::new(move |x: &(i128, i128)| x.0 >= c));
        }
        if let Some(c) = tok128(toks, "len") {
            return Some(Box::new(move |x: &(i128, i128)| x.1 >= c));
        }
        pred_const(toks)
    }
    fn gen_pred(rng: &mut SplitMix64, aggs: &[(i128, i128)], _e: &[(i128, i128)], _rev: bool) -> String {
        if rng.chance(1, 4) {
            return format!("len {}", rng.range_i64(1, aggs.len() as i64 + 1));
        }
        let s: Vec<i128> = aggs.iter().map(|a| a.0).collect();
        g_ge(rng, &s, T::LO, T::HI)
    }
}

pub type TMM<T> = Combinator<MinAdd<T>, MaxAdd<T>>;
pub type TSMM<T> = Combinator<Combinator<SumAdd<T>, MinAdd<T>>, MaxAdd<T>>;

impl<T: Prim> HItem for TMM<T> {
    prim_m!();
    /// (min, max)
    type O = (i128, i128);
    fn parse_val(tok: &str) -> Option<Self> {
        tval::<T, _>(tok, <TMM<T>>::from, Some(&|v, md| Combinator(MinAdd { v, md }, MaxAdd { v, md })))
    }
    fn obs(&self) -> (i128, i128) {
        (self.0.v.to(), self.1.v.to())
    }
    fn o_dflt() -> (i128, i128) {
        (T::HI, T::LO)
    }
    fn o_op(a: &(i128, i128), b: &(i128, i128)) -> (i128, i128) {
        (a.0.min(b.0), a.1.max(b.1))
    }
    fn o_act(m: &T, a: &(i128, i128)) -> (i128, i128) {
        (a.0 + m.to(), a.1 + m.to())
    }
    fn o_view(o: &(i128, i128)) -> String {
        format!("({},{})", o.0, o.1)
    }
    fn parse_pred(toks: &[&str]) -> Option<Pred<(i128, i128)>> {
        if let Some(c) = tok128(toks, "lt") {
            return Some(Box::new(move |x: &(i128, i128)| x.0 < c));
        }
        if let Some(c) = tok128(toks, "gt") {
            return Some(Box::new(move |x: &(i128, i128)| x.1 > c));
        }
        if let Some(c) = tok128(toks, "spread") {
            return Some(Box::new(move |x: &(i128, i128)| x.1 - x.0 >= c));
        }
        pred_const(toks)
    }
    fn gen_pred(rng: &mut SplitMix64, aggs: &[(i128, i128)], _e: &[(i128, i128)], _rev: bool) -> String {
        match rng.below(3) {
            0 => g_lt(rng, &aggs.iter().map(|a| a.0).collect::<Vec<_>>(), T::LO, T::HI),
            1 => g_gt(rng, &aggs.iter().map(|a| a.1).collect::<Vec<_>>(), T::LO, T::HI),
            _ => pick_const(rng).unwrap_or_else(|| {
                let a = *rng.pick(aggs);
                // the spread of the empty range (default) is LO - HI: far below every threshold used here
                format!("spread {}", a.1 - a.0 + rng.below(3) as i128 - 1)
            }),
        }
    }
}

impl<T: Prim> HItem for TSMM<T> {
    prim_m!();
    /// (sum, number of elements, min, max)
    type O = (i128, i128, i128, i128);
    fn parse_val(tok: &str) -> Option<Self> {
        tval::<T, _>(
            tok,
            <TSMM<T>>::from,
            Some(&|v, md| {
                Combinator(Combinator(SumAdd { v, len: T::of(1).unwrap(), md }, MinAdd { v, md }), MaxAdd { v, md })
            }),
        )
    }
    fn obs(&self) -> Self::O {
        (self.0 .0.v.to(), self.0 .0.len.to(), self.0 .1.v.to(), self.1.v.to())
    }
    fn o_dflt() -> Self::O {
        (0, 0, T::HI, T::LO)
    }
    fn o_op(a: &Self::O, b: &Self::O) -> Self::O {
        (a.0 + b.0, a.1 + b.1, a.2.min(b.2), a.3.max(b.3))
    }
    fn o_act(m: &T, a: &Self::O) -> Self::O {
        (a.0 + m.to() * a.1, a.1, a.2 + m.to(), a.3 + m.to())
    }
    fn o_view(o: &Self::O) -> String {
        format!("((({},{}),{}),{})", o.0, o.1, o.2, o.3)
    }
    fn parse_pred(toks: &[&str]) -> Option<Pred<Self::O>> {
        if let Some(c) = tok128(toks, "ge") {
            return Some(Box::new(move |x: &Self::O| x.0 >= c));
        }
        if let Some(c) = tok128(toks, "len") {
            return Some(Box::new(move |x: &Self::O| x.1 >= c));
        }
        if let Some(c) = tok128(toks, "lt") {
            return Some(Box::new(move |x: &Self::O| x.2 < c));
        }
        if let Some(c) = tok128(toks, "gt") {
            return Some(Box::new(move |x: &Self::O| x.3 > c));
        }
        pred_const(toks)
    }
    fn gen_pred(rng: &mut SplitMix64, aggs: &[Self::O], _e: &[Self::O], _rev: bool) -> String {
        match rng.below(4) {
            0 => g_ge(rng, &aggs.iter().map(|a| a.0).collect::<Vec<_>>(), T::LO, T::HI),
            1 => format!("len {}", rng.range_i64(1, aggs.len() as i64 + 1)),
            2 => g_lt(rng, &aggs.iter().map(|a| a.2).collect::<Vec<_>>(), T::LO, T::HI),
            _ => g_gt(rng, &aggs.iter().map(|a| a.3).collect::<Vec<_>>(), T::LO, T::HI),
        }
    }
}

// ------------------------------------------------------------------------------------------------------
// generation
// ------------------------------------------------------------------------------------------------------

/// what `gen_typed` has to know about an `<item>:<type>` pair
#[derive(Clone, Copy)]
pub struct TSpec {
    pub lo: i128,
    pub hi: i128,
    /// the modifier type is the element type (`MinAdd`, `MaxAdd`, `SumAdd`, the combinators), not `()`
    pub modk: bool,
    /// a component adds elements up (`Sum`, `SumAdd`, `smm`)
    pub sums: bool,
}

pub fn tspec(base: &str, ty: &str) -> Option<TSpec> {
    let (lo, hi) = match ty {
        "i8" => (<i8 as Prim>::LO, <i8 as Prim>::HI),
        "u8" => (<u8 as Prim>::LO, <u8 as Prim>::HI),
        "i16" => (<i16 as Prim>::LO, <i16 as Prim>::HI),
        "u16" => (<u16 as Prim>::LO, <u16 as Prim>::HI),
        "i32" => (<i32 as Prim>::LO, <i32 as Prim>::HI),
        "u32" => (<u32 as Prim>::LO, <u32 as Prim>::HI),
        "u64" => (<u64 as Prim>::LO, <u64 as Prim>::HI),
        "isize" => (<isize as Prim>::LO, <isize as Prim>::HI),
        "usize" => (<usize as Prim>::LO, <usize as Prim>::HI),
        _ => return None,
    };
    let (modk, sums) = match base {
        "min" | "max" => (false, false),
        "sum" => (false, true),
        "minadd" | "maxadd" | "mm" => (true, false),
        "sumadd" | "smm" => (true, true),
        _ => return None,
    };
    Some(TSpec { lo, hi, modk, sums })
}

/// Conservative, tree-independent bookkeeping that keeps a history inside the element type.  Per position: the
/// current value, the pending-modifier field a leaf holds (`md0` + all modifiers since the last `set`) and the
/// extreme sums over contiguous windows of the modifiers applied since the last `set` (every `md` stored anywhere in
/// the tree is such a window sum: a node's pending tag collects consecutive modifications that covered all of its
/// elements, and a `set` pushes all tags above its position first).  Every `v` stored in the tree is the aggregate of
/// element values at one earlier point in time, so for min / max it is enough that every element stays inside the
/// type at all times; for sums the sum of absolute values is kept below `budget` at all times.
struct Budget {
    sp: TSpec,
    cur: Vec<i128>,
    md: Vec<i128>,
    wmax: Vec<i128>,
    wmin: Vec<i128>,
    budget: i128,
}

impl Budget {
    fn abs_sum(&self) -> i128 {
        self.cur.iter().map(|x| x.abs()).sum()
    }
    /// interval of modifiers that may be applied to `[l, r]`
    fn allowed(&self, l: usize, r: usize) -> (i128, i128) {
        let (lo, hi) = (self.sp.lo, self.sp.hi);
        let (mut a, mut b) = (lo, hi);
        for i in l..=r {
            a = a.max(lo - self.cur[i]).max(lo - self.md[i]).max(lo - self.wmin[i]);
            b = b.min(hi - self.cur[i]).min(hi - self.md[i]).min(hi - self.wmax[i]);
        }
        (a, b)
    }
    fn fits_sum_after(&self, l: usize, r: usize, m: i128) -> bool {
        if !self.sp.sums {
            return true;
        }
        let mut s = 0i128;
        for (i, x) in self.cur.iter().enumerate() {
            s += if l <= i && i <= r { (x + m).abs() } else { x.abs() };
        }
        s <= self.budget
    }
    fn apply(&mut self, l: usize, r: usize, m: i128) {
        for i in l..=r {
            self.cur[i] += m;
            self.md[i] += m;
            self.wmax[i] = (self.wmax[i] + m).max(0);
            self.wmin[i] = (self.wmin[i] + m).min(0);
        }
    }
    fn set(&mut self, i: usize, v: i128, md0: i128) {
        self.cur[i] = v;
        self.md[i] = md0;
        self.wmax[i] = 0;
        self.wmin[i] = 0;
    }
}

fn uniform(rng: &mut SplitMix64, lo: i128, hi: i128) -> i128 {
    let span = (hi - lo + 1) as u128; // <= 2^64
    lo + ((rng.next_u64() as u128).wrapping_mul(span) >> 64) as i128
}

fn small(rng: &mut SplitMix64) -> i128 {
    match rng.below(6) {
        0 | 1 => 0,
        2 => 1,
        3 => 2,
        _ => rng.below(20) as i128,
    }
}

/// element value for history mode `mode`: 0 = at the type's maximum, 1 = at its minimum, 2 = both ends / anywhere,
/// 3 = around the signed-unsigned boundary (`iN::MAX` seen as `uN`; 0 for signed types), 4 = small
fn pick_value(rng: &mut SplitMix64, sp: &TSpec, mode: usize) -> i128 {
    let (lo, hi) = (sp.lo, sp.hi);
    let mid = if lo == 0 { hi / 2 } else { 0 };
    let d = small(rng);
    let v = match mode {
        0 => hi - d,
        1 => lo + d,
        2 => match rng.below(5) {
            0 => hi - d,
            1 => lo + d,
            2 => mid + d,
            3 => mid - d,
            _ => uniform(rng, lo, hi),
        },
        3 => {
            if rng.chance(1, 2) {
                mid + d + 1
            } else {
                mid - d
            }
        }
        _ => {
            if lo == 0 {
                rng.below(21) as i128
            } else {
                rng.below(21) as i128 - 10
            }
        }
    };
    v.clamp(lo, hi)
}

/// value for an item that adds elements up: `cap` = what the budget still allows for this element
fn pick_sum_value(rng: &mut SplitMix64, sp: &TSpec, cap: i128, share: i128) -> i128 {
    let cap = cap.max(0);
    let neg = sp.lo < 0 && rng.chance(1, 3);
    let mag = match rng.below(6) {
        0 => cap, // the whole remaining budget: the total reaches the type's maximum exactly
        1 => 0,
        2 => cap.min(1),
        _ => uniform(rng, 0, cap.min(share.max(1))),
    };
    if neg {
        -mag
    } else {
        mag
    }
}

fn val_token(v: i128, md0: i128, lazy: bool) -> String {
    if lazy {
        format!("{}@{}", v, md0)
    } else {
        v.to_string()
    }
}

pub fn gen_typed<T: HItem>(
    name: &str,
    sp: TSpec,
    mode: usize,
    rng: &mut SplitMix64,
    focus: &str,
    st: &mut Stats,
    big: bool,
) -> String {
    let signed = sp.lo < 0;
    // `SumAdd::len` is a `T`: the number of elements must be representable
    let n = if big {
        let ok: Vec<usize> =
            SIZES_BIG.iter().cloned().filter(|&k| !(sp.sums && sp.modk) || (k as i128) <= sp.hi).collect();
        *rng.pick(&ok)
    } else {
        1 + rng.below(17) as usize
    };
    let budget = if !sp.sums {
        i128::MAX
    } else if sp.modk && signed {
        sp.hi / 2
    } else {
        sp.hi
    };
    let share = if sp.sums { budget / n as i128 } else { 0 };
    let ctor = *rng.pick(&["new", "slice", "iter", "new", "slice", "iter", "iterp", "iterr"]);
    st.bump(&format!("ctor_{}", ctor));
    st.bump(&format!("item_{}", name));
    st.bump("typed_histories");
    st.bump(&format!("typed_mode_{}", ["at_max", "at_min", "both_ends", "sign_boundary", "small"][mode]));
    let mut bud = Budget { sp, cur: vec![0; n], md: vec![0; n], wmax: vec![0; n], wmin: vec![0; n], budget };
    // one element in six carries a pending modifier of its own (small, inside the type)
    let own_md = |rng: &mut SplitMix64| -> (i128, bool) {
        if sp.modk && rng.chance(1, 6) {
            (uniform(rng, (-3i128).max(sp.lo), 3i128.min(sp.hi)), true)
        } else {
            (0, false)
        }
    };
    let empty_slots = name.starts_with("sumadd:");
    let mut vals: Vec<String> = Vec::new();
    if ctor == "new" {
        let v = if sp.sums { pick_sum_value(rng, &sp, share, share) } else { pick_value(rng, &sp, mode) };
        let (md0, lazy) = own_md(rng);
        for i in 0..n {
            bud.set(i, v, md0);
        }
        vals.push(val_token(v, md0, lazy));
    } else {
        for i in 0..n {
            // `SumAdd::default()` (sum 0, length 0) as an element: an empty slot (wave 4)
            if empty_slots && rng.chance(1, 8) {
                bud.set(i, 0, 0);
                vals.push("_".into());
                continue;
            }
            let v = if sp.sums {
                let cap = budget - bud.abs_sum();
                pick_sum_value(rng, &sp, cap, share)
            } else {
                pick_value(rng, &sp, mode)
            };
            let (md0, lazy) = own_md(rng);
            bud.set(i, v, md0);
            vals.push(val_token(v, md0, lazy));
        }
    }
    if vals.iter().any(|v| v.contains('@')) {
        st.bump("constructor_values_with_own_pending_modifier");
    }
    if vals.iter().any(|v| v == "_") {
        st.bump("constructor_values_with_empty_slot");
    }
    let obs_of = |tok: &str| -> T::O {
        parse_elem::<T>(tok).unwrap_or_else(|| panic!("generated value does not parse: {} {}", name, tok)).obs()
    };
    let mut shadow: Vec<T::O> =
        if ctor == "new" { vec![obs_of(&vals[0]); n] } else { vals.iter().map(|v| obs_of(v)).collect() };
    let mut tags = Tags::new(n);
    let nops = if big { 6 + rng.below(24) } else { 4 + rng.below(36) } as usize;
    let w = weights(focus, n);
    let total: u64 = w.iter().sum();
    let mut line = format!("{} {} {} {}", name, ctor, n, vals.join(" "));
    for _ in 0..nops {
        let mut x = rng.below(total);
        let mut k = 0;
        while x >= w[k] {
            x -= w[k];
            k += 1;
        }
        tags.crossed = 0;
        match k {
            0 => {
                let i = rng.below(n as u64) as usize;
                let v = if sp.sums {
                    let cap = budget - (bud.abs_sum() - bud.cur[i].abs());
                    pick_sum_value(rng, &sp, cap, share)
                } else {
                    pick_value(rng, &sp, mode)
                };
                let (md0, lazy) = own_md(rng);
                let empty = empty_slots && rng.chance(1, 8);
                let (v, md0) = if empty { (0, 0) } else { (v, md0) };
                bud.set(i, v, md0);
                let tok = if empty { "_".to_string() } else { val_token(v, md0, lazy) };
                shadow[i] = obs_of(&tok);
                tags.set(i, 0, 0, n - 1);
                st.bump("op_set");
                if tags.crossed > 0 {
                    st.bump("set_pushed_pending_tag");
                }
                line.push_str(&format!(" ; set {} {}", i, tok));
            }
            1 => {
                let (l, r) = pick_range(rng, n);
                let mt = if !sp.modk {
                    "u".to_string()
                } else {
                    let (a, b) = bud.allowed(l, r);
                    let mut m = match rng.below(10) {
                        0 => 0,
                        1 | 2 => b, // as far up as the type allows: some element reaches the maximum exactly
                        3 | 4 => a,
                        5 => b - small(rng).min(b),
                        6 => a + small(rng).min(-a),
                        _ => (rng.below(41) as i128 - 20).clamp(a, b),
                    };
                    while !bud.fits_sum_after(l, r, m) {
                        m /= 2;
                    }
                    if m != 0 {
                        if (l..=r).any(|i| bud.cur[i] == sp.lo) {
                            st.bump("typed_nonzero_modify_covers_element_at_type_min");
                        }
                        if (l..=r).any(|i| bud.cur[i] == sp.hi) {
                            st.bump("typed_nonzero_modify_covers_element_at_type_max");
                        }
                    }
                    bud.apply(l, r, m);
                    if (l..=r).any(|i| bud.cur[i] == sp.lo || bud.cur[i] == sp.hi) {
                        st.bump("typed_modify_leaves_element_at_type_extreme");
                    }
                    m.to_string()
                };
                let m = T::parse_mod(&[mt.as_str()])
                    .unwrap_or_else(|| panic!("generated modifier does not parse: {} {}", name, mt));
                for e in shadow[l..=r].iter_mut() {
                    *e = T::o_act(&m, e);
                }
                tags.range(l, r, Some(!T::mod_identity(&m)), 0, 0, n - 1);
                st.bump("op_modify");
                if tags.crossed > 0 {
                    st.bump("modify_pushed_pending_tag");
                }
                line.push_str(&format!(" ; mod {} {} {}", l, r, mt));
            }
            2 => {
                let (l, r) = pick_range(rng, n);
                tags.range(l, r, None, 0, 0, n - 1);
                st.bump("op_ask");
                if tags.crossed > 0 {
                    st.bump("ask_pushed_pending_tag");
                }
                line.push_str(&format!(" ; ask {} {}", l, r));
            }
            3 | 4 => {
                let rev = k == 4;
                let pos = rng.below(n as u64) as usize;
                let (aggs, elems) = dir_aggs::<T>(&shadow, pos, rev);
                let pt = T::gen_pred(rng, &aggs, &elems, rev);
                let toks: Vec<&str> = pt.split_whitespace().collect();
                let pred = T::parse_pred(&toks).unwrap_or_else(|| panic!("generated predicate does not parse: {}", pt));
                let flags: Vec<bool> = aggs.iter().map(|a| pred(a)).collect();
                let found =
                    if rev { tags.lbr(&flags, pos, pos, 0, 0, n - 1) } else { tags.lb(&flags, pos, pos, 0, 0, n - 1) };
                let nm = if rev { "lbr" } else { "lb" };
                st.bump(&format!("op_{}", nm));
                st.bump(&format!("pred_{}", toks[0]));
                if toks.len() == 2 {
                    if let Some(c) = p128(toks[1]) {
                        if (c - sp.hi).abs() <= 1 || (c - sp.lo).abs() <= 1 {
                            st.bump("typed_search_threshold_at_type_extreme");
                        }
                    }
                }
                if tags.crossed > 0 {
                    st.bump(&format!("{}_pushed_pending_tag", nm));
                }
                if !monotone(&flags) {
                    st.bump("search_predicate_not_monotone_here");
                } else {
                    st.bump(if found { "search_answer_some" } else { "search_answer_none" });
                }
                line.push_str(&format!(" ; {} {} {}", nm, pos, pt));
            }
            5 => {
                for i in 0..n {
                    tags.range(i, i, None, 0, 0, n - 1);
                }
                st.bump("op_dbg");
                line.push_str(" ; dbg");
            }
            _ => {
                // (transfers are left to the untyped streams: a copied aggregate would need its own overflow budget)
                st.bump("op_dfl");
                line.push_str(" ; dfl");
            }
        }
    }
    if rng.chance(1, 2) {
        let i = rng.below(n as u64) as usize;
        line.push_str(&format!(" ; ask {} {}", i, i));
        st.bump("op_ask");
    }
    line
}
