//! The two exotic lawful items of the segtree correspondence (defined here *and* in
//! `lean/RlibModel/Model/SegtreeItems.lean`, with law proofs in `Lemmas/SegtreeItems.lean`).
use rlib_segtree::SegtreeItem;

pub const P: i64 = 1_000_000_007;
pub const B: i64 = 131;

/// Polynomial hash of the concatenation (merge is not commutative); the modifier `(a, b)` replaces every
/// element `x` by `a*x + b` (assignment and addition are both instances, and they do not commute).
/// `h` = sum x_i B^(k-i), `pw` = B^k, `s` = sum_{j<k} B^j (all mod P), `md` = pending affine map.
#[derive(Clone, Debug)]
pub struct AffHash {
    pub h: i64,
    pub pw: i64,
    pub s: i64,
    pub md: Option<(i64, i64)>,
}

impl Default for AffHash {
    fn default() -> Self {
        AffHash { h: 0, pw: 1, s: 0, md: None }
    }
}

impl From<i64> for AffHash {
    fn from(x: i64) -> Self {
        AffHash { h: x.rem_euclid(P), pw: B, s: 1, md: None }
    }
}

impl SegtreeItem<(i64, i64)> for AffHash {
    fn merge(l: &Self, r: &Self) -> Self {
        AffHash {
            h: (l.h * r.pw + r.h) % P,
            pw: (l.pw * r.pw) % P,
            s: (l.s * r.pw + r.s) % P,
            md: None,
        }
    }
    fn modify(&mut self, m: &(i64, i64)) {
        self.h = (m.0 * self.h + m.1 * self.s) % P;
        self.md = Some(match self.md {
            None => *m,
            Some(o) => ((m.0 * o.0) % P, (m.0 * o.1 + m.1) % P),
        });
    }
    fn push(&mut self, l: &mut Self, r: &mut Self) {
        if let Some(m) = self.md.take() {
            l.modify(&m);
            r.modify(&m);
        }
    }
}

/// Concatenation of lower-case strings; modifier `(0, k)` shifts every letter by `k` (mod 26),
/// `(k, c)` with `k != 0` overwrites every letter with letter number `c`.
#[derive(Clone, Debug, Default)]
pub struct StrCat {
    pub s: String,
    pub md: Option<(u64, u64)>,
}

pub fn ch_apply(m: &(u64, u64), c: u64) -> u64 {
    if m.0 == 0 {
        (c + m.1) % 26
    } else {
        m.1 % 26
    }
}

impl SegtreeItem<(u64, u64)> for StrCat {
    fn merge(l: &Self, r: &Self) -> Self {
        StrCat { s: format!("{}{}", l.s, r.s), md: None }
    }
    fn modify(&mut self, m: &(u64, u64)) {
        self.s = self.s.bytes().map(|c| (ch_apply(m, (c - b'a') as u64) as u8 + b'a') as char).collect();
        self.md = Some(match self.md {
            None => *m,
            Some(o) => {
                if m.0 == 0 {
                    if o.0 == 0 {
                        (0, (o.1 + m.1) % 26)
                    } else {
                        (1, (o.1 % 26 + m.1) % 26)
                    }
                } else {
                    (1, m.1 % 26)
                }
            }
        });
    }
    fn push(&mut self, l: &mut Self, r: &mut Self) {
        if let Some(m) = self.md.take() {
            l.modify(&m);
            r.modify(&m);
        }
    }
}

/// Flip-a-range / count-ones: value = (ones, len), the modifier flips every bit of the range (non-idempotent,
/// self-inverse), `fl` = pending flip for the children.  Two items with the same algebra and different modifier
/// types: `FlipZ` is lazy with the **zero-sized** modifier `()`, `FlipB` takes a one-byte modifier (odd = flip).
macro_rules! flip_item {
    ($name:ident, $m:ty, $is_flip:expr) => {
        #[derive(Clone, Debug, Default)]
        pub struct $name {
            pub ones: i64,
            pub len: i64,
            pub fl: bool,
        }
        impl From<i64> for $name {
            fn from(x: i64) -> Self {
                $name { ones: x & 1, len: 1, fl: false }
            }
        }
        impl $name {
            fn flip(&mut self) {
                self.ones = self.len - self.ones;
                self.fl = !self.fl;
            }
        }
        impl SegtreeItem<$m> for $name {
            fn merge(l: &Self, r: &Self) -> Self {
                $name { ones: l.ones + r.ones, len: l.len + r.len, fl: false }
            }
            fn modify(&mut self, m: &$m) {
                let is_flip: fn(&$m) -> bool = $is_flip;
                if is_flip(m) {
                    self.flip();
                }
            }
            fn push(&mut self, l: &mut Self, r: &mut Self) {
                if self.fl {
                    l.flip();
                    r.flip();
                    self.fl = false;
                }
            }
        }
    };
}
flip_item!(FlipZ, (), |_| true);
flip_item!(FlipB, u8, |m| m & 1 == 1);

/// Range sum with "add an arithmetic progression to a range" (wave 4): a lawful lazy item whose `push` does NOT treat its
/// two children alike.  An element knows its position; a node keeps the sum, the number of elements, the sum of their
/// positions (`ps`) and the position of its first element (`lo`; `None` for the empty aggregate).  The pending tag
/// `(ta, td)` is relative to the node's own first element: the element at position `q` still has to receive
/// `ta + td * (q - lo)`.  The modifier `(from, a, d)` adds `a + d * (q - from)` to the element at position `q`.
/// Lean: `apItem` (`Model/SegtreeItems.lean`); its `push` re-bases the tag by `child.lo - lo`, which is this `push`
/// whenever the left child starts where the node starts and the right child `left.len` later (`C01.ap_push_is_code_push`).
#[derive(Clone, Debug, Default)]
pub struct Ap {
    pub sum: i64,
    pub len: i64,
    pub ps: i64,
    pub lo: Option<i64>,
    pub ta: i64,
    pub td: i64,
}

impl Ap {
    /// the element with value `v` at position `q`
    pub fn leaf(q: i64, v: i64) -> Self {
        Ap { sum: v, len: 1, ps: q, lo: Some(q), ta: 0, td: 0 }
    }
    /// the progression has the value `a` at this node's first element, step `d`
    fn apply(&mut self, a: i64, d: i64) {
        self.sum += a * self.len + d * (self.ps - self.lo.unwrap_or(0) * self.len);
        self.ta += a;
        self.td += d;
    }
}

impl SegtreeItem<(i64, i64, i64)> for Ap {
    fn merge(l: &Self, r: &Self) -> Self {
        Ap { sum: l.sum + r.sum, len: l.len + r.len, ps: l.ps + r.ps, lo: l.lo.or(r.lo), ta: 0, td: 0 }
    }
    fn modify(&mut self, m: &(i64, i64, i64)) {
        let (from, a, d) = *m;
        self.apply(a + d * (self.lo.unwrap_or(0) - from), d);
    }
    fn push(&mut self, l: &mut Self, r: &mut Self) {
        // the left child starts where this node starts, the right child `l.len` elements later
        l.apply(self.ta, self.td);
        r.apply(self.ta + self.td * l.len, self.td);
        self.ta = 0;
        self.td = 0;
    }
}
