//! Element types whose order ignores part of the value — equal-comparing values that are nevertheless distinguishable:
//!
//! * `Rec { key, tag, pad }`: a record ordered by `key` only (`PartialEq` / `PartialOrd` look at nothing else), `Clone` but
//!   not `Copy` (the `String` field makes `clone` / `clone_from` do real work).  Instantiates `Min Max MinAdd MaxAdd` and
//!   `Combinator<MinAdd, MaxAdd>` (item tokens `min:rec`, ..., `mm:rec`; value token `key/tag`, `key/tag@key/tag` for an
//!   element with a pending modifier of its own).  `+=` adds `key` and `tag`.
//! * `f64`, `f32`: `+0.0 == -0.0`.  Under `Min` / `Max` (no arithmetic) any non-NaN value (value token = the bit pattern,
//!   decimal); under `Sum MinAdd MaxAdd SumAdd` and `Combinator<MinAdd, MaxAdd>` integer-valued floats small enough for
//!   every `+` / `*` to be exact (value token = the integer).  NaN is outside every law (`PartialOrd`).
//!
//! Which of two equal-comparing values a query returns is observable here (the tag; the sign of a zero), and the
//! property fixes it: the answer is the left-to-right `merge` fold, and `Min::merge` / `Max::merge` return their LEFT
//! argument only when it is strictly smaller / greater — so the fold yields the LAST minimal / maximal element.  The
//! shadow algebra below (`o_op`) implements exactly that rule on plain values, with the standard library's comparison;
//! all float results are compared as bit patterns.  The shadow identities (`o_dflt`) are the standard library's
//! `f64::MAX` / `f64::MIN` (`f32`), not the crate's `MinMax` constants.
use super::*;
use rlib_num_traits::{MinMax, ZeroOne};
use std::cmp::Ordering;
use std::fmt;
use std::ops::{Add, AddAssign, Mul};

// ------------------------------------------------------------------------------------------------------
// the record
// ------------------------------------------------------------------------------------------------------

#[derive(Clone, Default)]
pub struct Rec {
    pub key: i64,
    pub tag: i64,
    /// heap payload the order ignores as well (never printed): makes the type `Clone`-only
    #[allow(dead_code)]
    pub pad: String,
}

impl Rec {
    pub fn new(key: i64, tag: i64) -> Self {
        Rec { key, tag, pad: format!("#{}", tag) }
    }
}

impl fmt::Debug for Rec {
    fn fmt(&self, f: &mut fmt::Formatter<'_>) -> fmt::Result {
        write!(f, "{}/{}", self.key, self.tag)
    }
}

impl PartialEq for Rec {
    fn eq(&self, o: &Self) -> bool {
        self.key == o.key
    }
}

impl PartialOrd for Rec {
    fn partial_cmp(&self, o: &Self) -> Option<Ordering> {
        self.key.partial_cmp(&o.key)
    }
}

impl AddAssign for Rec {
    fn add_assign(&mut self, o: Self) {
        self.key += o.key;
        self.tag += o.tag;
    }
}

impl MinMax for Rec {
    const MIN: Rec = Rec { key: i64::MIN, tag: 0, pad: String::new() };
    const MAX: Rec = Rec { key: i64::MAX, tag: 0, pad: String::new() };
}

/// plain observable value of a record: `(key, tag)`
type RO = (i64, i64);

fn rec_tok(t: &str) -> Option<Rec> {
    let (k, g) = t.split_once('/')?;
    Some(Rec::new(k.parse().ok()?, g.parse().ok()?))
}

/// `key/tag` or `key/tag@key/tag`
fn rec_lazy(t: &str) -> Option<(Rec, Option<Rec>)> {
    match t.split_once('@') {
        None => Some((rec_tok(t)?, None)),
        Some((v, m)) => Some((rec_tok(v)?, Some(rec_tok(m)?))),
    }
}

fn ro(r: &Rec) -> RO {
    (r.key, r.tag)
}
fn ro_view(o: &RO) -> String {
    format!("({},{})", o.0, o.1)
}
/// `Min::merge`'s tie rule on plain values: the left operand only if strictly smaller
fn ro_min(a: &RO, b: &RO) -> RO {
    if a.0 < b.0 {
        *a
    } else {
        *b
    }
}
fn ro_max(a: &RO, b: &RO) -> RO {
    if a.0 > b.0 {
        *a
    } else {
        *b
    }
}
fn ro_add(m: &Rec, a: &RO) -> RO {
    (a.0 + m.key, a.1 + m.tag)
}

fn gen_rec_key(rng: &mut SplitMix64, st: &Style) -> i64 {
    // half of the histories' values come from a three-key range: duplicated minima / maxima everywhere
    if rng.chance(1, 2) {
        rng.range_i64(0, 2)
    } else {
        rng.range_i64(st.vlo.max(-1_000_000), st.vhi.min(1_000_000))
    }
}
fn gen_rec_val(rng: &mut SplitMix64, st: &Style, lazy: bool) -> String {
    // without arithmetic (`Min` / `Max`) now and then a key at the end of `i64`: a tie with the `Default`, payload differing
    let key = if !lazy && rng.chance(1, 16) { *rng.pick(&[i64::MIN, i64::MAX]) } else { gen_rec_key(rng, st) };
    let v = format!("{}/{}", key, rng.below(100));
    if lazy && rng.chance(1, 6) {
        format!("{}@{}/{}", v, rng.range_i64(st.mlo.max(-1000), st.mhi.min(1000)), rng.below(3))
    } else {
        v
    }
}
fn gen_rec_mod(rng: &mut SplitMix64, st: &Style) -> String {
    let k = if rng.chance(1, 3) { rng.range_i64(-1, 1) } else { rng.range_i64(st.mlo.max(-1000), st.mhi.min(1000)) };
    let t = if rng.chance(3, 4) { 0 } else { rng.range_i64(-2, 2) };
    format!("{}/{}", k, t)
}
fn rec_mod(toks: &[&str]) -> Option<Rec> {
    if toks.len() == 1 {
        rec_tok(toks[0])
    } else {
        None
    }
}
fn pred_ro_lt(toks: &[&str]) -> Option<Pred<RO>> {
    if let Some(c) = int_tok(toks, "lt") {
        return Some(Box::new(move |x: &RO| x.0 < c));
    }
    pred_const(toks)
}
fn pred_ro_gt(toks: &[&str]) -> Option<Pred<RO>> {
    if let Some(c) = int_tok(toks, "gt") {
        return Some(Box::new(move |x: &RO| x.0 > c));
    }
    pred_const(toks)
}
fn gen_ro_lt(rng: &mut SplitMix64, aggs: &[RO]) -> String {
    pick_const(rng).unwrap_or_else(|| {
        let x = rng.pick(aggs).0;
        format!("lt {}", around(rng, x) + 1)
    })
}
fn gen_ro_gt(rng: &mut SplitMix64, aggs: &[RO]) -> String {
    pick_const(rng).unwrap_or_else(|| {
        let x = rng.pick(aggs).0;
        format!("gt {}", around(rng, x) - 1)
    })
}

macro_rules! rec_unit_item {
    ($item:ident, $op:ident, $dflt:expr, $pp:ident, $gp:ident) => {
        impl HItem for $item<Rec> {
            type M = ();
            type O = RO;
            fn parse_val(tok: &str) -> Option<Self> {
                if tok.contains('@') {
                    return None;
                }
                Some($item::from(rec_tok(tok)?))
            }
            fn parse_mod(toks: &[&str]) -> Option<()> {
                if toks == ["u"] {
                    Some(())
                } else {
                    None
                }
            }
            fn obs(&self) -> RO {
                ro(&self.v)
            }
            fn o_dflt() -> RO {
                ($dflt, 0)
            }
            fn o_op(a: &RO, b: &RO) -> RO {
                $op(a, b)
            }
            fn o_act(_m: &(), a: &RO) -> RO {
                *a
            }
            fn o_view(o: &RO) -> String {
                ro_view(o)
            }
            fn parse_pred(toks: &[&str]) -> Option<Pred<RO>> {
                $pp(toks)
            }
            fn gen_val(rng: &mut SplitMix64, st: &Style) -> String {
                gen_rec_val(rng, st, false)
            }
            fn gen_mod(_rng: &mut SplitMix64, _st: &Style) -> String {
                "u".into()
            }
            fn mod_identity(_m: &()) -> bool {
                true
            }
            fn gen_pred(rng: &mut SplitMix64, aggs: &[RO], _e: &[RO], _rev: bool) -> String {
                $gp(rng, aggs)
            }
        }
    };
}
rec_unit_item!(Min, ro_min, i64::MAX, pred_ro_lt, gen_ro_lt);
rec_unit_item!(Max, ro_max, i64::MIN, pred_ro_gt, gen_ro_gt);

macro_rules! rec_add_item {
    ($item:ident, $op:ident, $dflt:expr, $pp:ident, $gp:ident) => {
        impl HItem for $item<Rec> {
            type M = Rec;
            type O = RO;
            fn parse_val(tok: &str) -> Option<Self> {
                let (v, md) = rec_lazy(tok)?;
                Some(match md {
                    None => $item::from(v),
                    Some(md) => $item { v, md },
                })
            }
            fn parse_mod(toks: &[&str]) -> Option<Rec> {
                rec_mod(toks)
            }
            fn obs(&self) -> RO {
                ro(&self.v)
            }
            fn o_dflt() -> RO {
                ($dflt, 0)
            }
            fn o_op(a: &RO, b: &RO) -> RO {
                $op(a, b)
            }
            fn o_act(m: &Rec, a: &RO) -> RO {
                ro_add(m, a)
            }
            fn o_view(o: &RO) -> String {
                ro_view(o)
            }
            fn parse_pred(toks: &[&str]) -> Option<Pred<RO>> {
                $pp(toks)
            }
            fn gen_val(rng: &mut SplitMix64, st: &Style) -> String {
                gen_rec_val(rng, st, true)
            }
            fn gen_mod(rng: &mut SplitMix64, st: &Style) -> String {
                gen_rec_mod(rng, st)
            }
            fn mod_identity(m: &Rec) -> bool {
                m.key == 0 && m.tag == 0
            }
            fn gen_pred(rng: &mut SplitMix64, aggs: &[RO], _e: &[RO], _rev: bool) -> String {
                $gp(rng, aggs)
            }
        }
    };
}
rec_add_item!(MinAdd, ro_min, i64::MAX, pred_ro_lt, gen_ro_lt);
rec_add_item!(MaxAdd, ro_max, i64::MIN, pred_ro_gt, gen_ro_gt);

pub type RMM = Combinator<MinAdd<Rec>, MaxAdd<Rec>>;

impl HItem for RMM {
    type M = Rec;
    /// (last minimal element, last maximal element)
    type O = (RO, RO);
    fn parse_val(tok: &str) -> Option<Self> {
        // `Combinator: From<T>` needs `T: Copy`; the record is `Clone` only, so the components are built one by one
        let (v, md) = rec_lazy(tok)?;
        Some(match md {
            None => Combinator(MinAdd::from(v.clone()), MaxAdd::from(v)),
            Some(md) => Combinator(MinAdd { v: v.clone(), md: md.clone() }, MaxAdd { v, md }),
        })
    }
    fn parse_mod(toks: &[&str]) -> Option<Rec> {
        rec_mod(toks)
    }
    fn obs(&self) -> Self::O {
        (ro(&self.0.v), ro(&self.1.v))
    }
    fn o_dflt() -> Self::O {
        ((i64::MAX, 0), (i64::MIN, 0))
    }
    fn o_op(a: &Self::O, b: &Self::O) -> Self::O {
        (ro_min(&a.0, &b.0), ro_max(&a.1, &b.1))
    }
    fn o_act(m: &Rec, a: &Self::O) -> Self::O {
        (ro_add(m, &a.0), ro_add(m, &a.1))
    }
    fn o_view(o: &Self::O) -> String {
        format!("({},{})", ro_view(&o.0), ro_view(&o.1))
    }
    fn parse_pred(toks: &[&str]) -> Option<Pred<Self::O>> {
        if let Some(c) = int_tok(toks, "lt") {
            return Some(Box::new(move |x: &Self::O| x.0 .0 < c));
        }
        if let Some(c) = int_tok(toks, "gt") {
            return Some(Box::new(move |x: &Self::O| x.1 .0 > c));
        }
        if let Some(c) = int_tok(toks, "spread") {
            return Some(Box::new(move |x: &Self::O| x.1 .0 as i128 - x.0 .0 as i128 >= c as i128));
        }
        pred_const(toks)
    }
    fn gen_val(rng: &mut SplitMix64, st: &Style) -> String {
        gen_rec_val(rng, st, true)
    }
    fn gen_mod(rng: &mut SplitMix64, st: &Style) -> String {
        gen_rec_mod(rng, st)
    }
    fn mod_identity(m: &Rec) -> bool {
        m.key == 0 && m.tag == 0
    }
    fn gen_pred(rng: &mut SplitMix64, aggs: &[Self::O], _e: &[Self::O], _rev: bool) -> String {
        pick_const(rng).unwrap_or_else(|| {
            let a = *rng.pick(aggs);
            match rng.below(3) {
                0 => format!("lt {}", around(rng, a.0 .0) + 1),
                1 => format!("gt {}", around(rng, a.1 .0) - 1),
                _ => format!(
                    "spread {}",
                    around(rng, (a.1 .0 as i128 - a.0 .0 as i128).clamp(-(1 << 42), 1 << 42) as i64)
                ),
            }
        })
    }
}

// ------------------------------------------------------------------------------------------------------
// `Sum<T>` over a `+` that is associative but not commutative
// ------------------------------------------------------------------------------------------------------

/// a word; `+` is concatenation
#[derive(Clone, Default, PartialEq)]
pub struct Cat(pub String);

impl fmt::Debug for Cat {
    fn fmt(&self, f: &mut fmt::Formatter<'_>) -> fmt::Result {
        write!(f, "{:?}", self.0)
    }
}

impl Add for Cat {
    type Output = Cat;
    fn add(self, o: Cat) -> Cat {
        Cat(self.0 + &o.0)
    }
}

impl HItem for Sum<Cat> {
    type M = ();
    type O = String;
    fn parse_val(tok: &str) -> Option<Self> {
        if !tok.is_empty() && tok.bytes().all(|c| c.is_ascii_lowercase()) {
            Some(Sum::from(Cat(tok.to_string())))
        } else {
            None
        }
    }
    fn parse_mod(toks: &[&str]) -> Option<()> {
        if toks == ["u"] {
            Some(())
        } else {
            None
        }
    }
    fn obs(&self) -> String {
        self.v.0.clone()
    }
    fn o_dflt() -> String {
        String::new()
    }
    fn o_op(a: &String, b: &String) -> String {
        let mut s = a.clone();
        s.push_str(b);
        s
    }
    fn o_act(_m: &(), a: &String) -> String {
        a.clone()
    }
    fn o_view(o: &String) -> String {
        format!("\"{}\"", o)
    }
    fn parse_pred(toks: &[&str]) -> Option<Pred<String>> {
        str_pred(toks)
    }
    fn gen_val(rng: &mut SplitMix64, _st: &Style) -> String {
        let len = 1 + rng.below(2);
        (0..len).map(|_| (b'a' + rng.below(4) as u8) as char).collect()
    }
    fn gen_mod(_rng: &mut SplitMix64, _st: &Style) -> String {
        "u".into()
    }
    fn mod_identity(_m: &()) -> bool {
        true
    }
    fn gen_pred(rng: &mut SplitMix64, aggs: &[String], elems: &[String], rev: bool) -> String {
        gen_str_pred(rng, aggs, elems, rev)
    }
}

// ------------------------------------------------------------------------------------------------------
// floats
// ------------------------------------------------------------------------------------------------------

pub trait Fl:
    Copy
    + fmt::Debug
    + PartialOrd
    + Default
    + AddAssign
    + Add<Output = Self>
    + Mul<Output = Self>
    + MinMax
    + ZeroOne
    + 'static
{
    /// the standard library's constants (not the crate's `MinMax`)
    const FMAX: Self;
    const FMIN: Self;
    const INF: Self;
    const MIN_POS: Self;
    /// integers of magnitude below `2^EXACT` are exact, and so are their sums / products below that bound
    const EXACT: u32;
    fn bits(self) -> u64;
    /// `None` for NaN / a pattern wider than the type
    fn of_bits(b: u64) -> Option<Self>;
    fn of_i64(x: i64) -> Self;
}

impl Fl for f64 {
    const FMAX: f64 = f64::MAX;
    const FMIN: f64 = f64::MIN;
    const INF: f64 = f64::INFINITY;
    const MIN_POS: f64 = f64::MIN_POSITIVE;
    const EXACT: u32 = 53;
    fn bits(self) -> u64 {
        self.to_bits()
    }
    fn of_bits(b: u64) -> Option<f64> {
        let x = f64::from_bits(b);
        if x.is_nan() {
            None
        } else {
            Some(x)
        }
    }
    fn of_i64(x: i64) -> f64 {
        x as f64
    }
}

impl Fl for f32 {
    const FMAX: f32 = f32::MAX;
    const FMIN: f32 = f32::MIN;
    const INF: f32 = f32::INFINITY;
    const MIN_POS: f32 = f32::MIN_POSITIVE;
    const EXACT: u32 = 24;
    fn bits(self) -> u64 {
        self.to_bits() as u64
    }
    fn of_bits(b: u64) -> Option<f32> {
        let x = f32::from_bits(u32::try_from(b).ok()?);
        if x.is_nan() {
            None
        } else {
            Some(x)
        }
    }
    fn of_i64(x: i64) -> f32 {
        x as f32
    }
}

/// `<F as MinMax>::MIN MAX <F as ZeroOne>::ZERO ONE` as bit patterns
pub fn fconsts<F: Fl>() -> String {
    out1(&format!(
        "{} {} {} {}",
        <F as MinMax>::MIN.bits(),
        <F as MinMax>::MAX.bits(),
        <F as ZeroOne>::ZERO.bits(),
        <F as ZeroOne>::ONE.bits()
    ))
}

fn fb<F: Fl>(b: &u64) -> F {
    F::of_bits(*b).expect("shadow value is not a float of the type")
}

/// plain min / max on bit patterns with `merge`'s tie rule (left operand only when strictly smaller / greater)
fn fo_min<F: Fl>(a: &u64, b: &u64) -> u64 {
    if fb::<F>(a) < fb::<F>(b) {
        *a
    } else {
        *b
    }
}
fn fo_max<F: Fl>(a: &u64, b: &u64) -> u64 {
    if fb::<F>(a) > fb::<F>(b) {
        *a
    } else {
        *b
    }
}

fn bits_tok<F: Fl>(t: &str) -> Option<F> {
    F::of_bits(t.parse::<u64>().ok()?)
}

fn exact<F: Fl>(x: i64) -> bool {
    x.unsigned_abs() < 1u64 << F::EXACT
}

/// integer token of an integer-valued float inside the exact range
fn int_f<F: Fl>(t: &str) -> Option<F> {
    let x = t.parse::<i64>().ok()?;
    if exact::<F>(x) {
        Some(F::of_i64(x))
    } else {
        None
    }
}

/// `v` or `v@md`
fn int_f_lazy<F: Fl>(t: &str) -> Option<(F, Option<F>)> {
    match t.split_once('@') {
        None => Some((int_f::<F>(t)?, None)),
        Some((v, m)) => Some((int_f::<F>(v)?, Some(int_f::<F>(m)?))),
    }
}

fn f_mod<F: Fl>(toks: &[&str]) -> Option<F> {
    if toks.len() == 1 {
        int_f::<F>(toks[0])
    } else {
        None
    }
}

/// value pool of the `Min` / `Max` float trees: both zeros, ties, tiny / huge magnitudes, the lawful infinity
fn gen_float<F: Fl>(rng: &mut SplitMix64, inf: F) -> F {
    let sign = |rng: &mut SplitMix64, x: F| if rng.chance(1, 2) { x } else { F::of_i64(-1) * x };
    match rng.below(16) {
        0 | 1 => F::of_i64(0),
        2 | 3 => F::of_i64(-1) * F::of_i64(0), // -0.0
        4 | 5 => F::of_i64(rng.range_i64(-3, 3)),
        6 => sign(rng, F::of_bits(F::of_i64(1).bits() + (1 << (F::EXACT - 2))).unwrap()), // +-1.5
        7 => sign(rng, F::MIN_POS),
        8 => {
            let sub = F::of_bits(1 + rng.below(3)).unwrap(); // subnormals
            sign(rng, sub)
        }
        9 => sign(rng, F::FMAX),
        10 => inf,
        11 | 12 | 13 => {
            // quarters in [-2, 2]: many ties, values <= 0 as often as positive ones
            let q = F::of_bits(F::of_i64(1).bits() - (2 << (F::EXACT - 1))).unwrap(); // 0.25
            F::of_i64(rng.range_i64(-8, 8)) * q
        }
        _ => loop {
            // any finite bit pattern
            let b = if F::EXACT == 24 { rng.next_u64() >> 32 } else { rng.next_u64() };
            if let Some(x) = F::of_bits(b) {
                if x != F::INF && x != F::of_i64(-1) * F::INF {
                    break x;
                }
            }
        },
    }
}

/// threshold next to an actual aggregate: the value itself, its neighbours, either zero
fn gen_float_threshold<F: Fl>(rng: &mut SplitMix64, aggs: &[u64]) -> u64 {
    let x = *rng.pick(aggs);
    let mag_mask = (1u64 << (if F::EXACT == 24 { 31 } else { 63 })) - 1;
    match rng.below(8) {
        0 => F::of_i64(0).bits(),
        1 => (F::of_i64(-1) * F::of_i64(0)).bits(),
        2 | 3 => {
            // a neighbouring bit pattern (still not a NaN)
            let y = if rng.chance(1, 2) { x.wrapping_add(1) } else { x.wrapping_sub(1) };
            if x & mag_mask != 0 && F::of_bits(y).is_some() {
                y
            } else {
                x
            }
        }
        _ => x,
    }
}

macro_rules! float_unit_item {
    ($item:ident, $name:expr, $op:ident, $dflt:expr, $inf:expr, $cmp:tt, $pt:expr) => {
        impl HItem for $item<F> {
            type M = ();
            /// bit pattern
            type O = u64;
            const CUSTOM_RAW: bool = true;
            fn raw(&self) -> String {
                format!("{} {{ v: {} }}", $name, self.v.bits())
            }
            fn parse_val(tok: &str) -> Option<Self> {
                Some($item::from(bits_tok::<F>(tok)?))
            }
            fn parse_mod(toks: &[&str]) -> Option<()> {
                if toks == ["u"] {
                    Some(())
                } else {
                    None
                }
            }
            fn obs(&self) -> u64 {
                self.v.bits()
            }
            fn o_dflt() -> u64 {
                let d: F = $dflt;
                d.bits()
            }
            fn o_op(a: &u64, b: &u64) -> u64 {
                $op::<F>(a, b)
            }
            fn o_act(_m: &(), a: &u64) -> u64 {
                *a
            }
            fn o_view(o: &u64) -> String {
                o.to_string()
            }
            fn parse_pred(toks: &[&str]) -> Option<Pred<u64>> {
                if toks.len() == 2 && toks[0] == $pt {
                    let c = bits_tok::<F>(toks[1])?;
                    return Some(Box::new(move |x: &u64| fb::<F>(x) $cmp c));
                }
                pred_const(toks)
            }
            fn gen_val(rng: &mut SplitMix64, _st: &Style) -> String {
                let inf: F = $inf;
                gen_float::<F>(rng, inf).bits().to_string()
            }
            fn gen_mod(_rng: &mut SplitMix64, _st: &Style) -> String {
                "u".into()
            }
            fn mod_identity(_m: &()) -> bool {
                true
            }
            fn gen_pred(rng: &mut SplitMix64, aggs: &[u64], _e: &[u64], _rev: bool) -> String {
                pick_const(rng).unwrap_or_else(|| format!("{} {}", $pt, gen_float_threshold::<F>(rng, aggs)))
            }
        }
    };
}
/// magnitudes of the integer-valued floats: far inside the exact range of the narrower type
fn gen_int_f(rng: &mut SplitMix64, st: &Style, lazy: bool) -> String {
    let v = rng.range_i64(st.vlo.max(-50), st.vhi.min(50));
    if lazy && rng.chance(1, 6) {
        format!("{}@{}", v, rng.range_i64(st.mlo.max(-20), st.mhi.min(20)))
    } else {
        v.to_string()
    }
}
fn gen_int_f_mod(rng: &mut SplitMix64, st: &Style) -> String {
    rng.range_i64(st.mlo.max(-20), st.mhi.min(20)).to_string()
}
fn f_int_pred<F: Fl>(toks: &[&str], name: &str) -> Option<F> {
    if toks.len() == 2 && toks[0] == name {
        int_f::<F>(toks[1])
    } else {
        None
    }
}
/// the integer an (integer-valued) bit pattern stands for
fn f_as_i64<F: Fl>(b: &u64) -> i64 {
    let x = fb::<F>(b);
    let mut lo = -(1i64 << F::EXACT);
    let mut hi = 1i64 << F::EXACT;
    // binary search with the standard comparison (no float -> int cast involved)
    while lo < hi {
        let mid = lo + (hi - lo) / 2;
        if F::of_i64(mid) < x {
            lo = mid + 1;
        } else {
            hi = mid;
        }
    }
    lo
}

macro_rules! float_add_item {
    ($item:ident, $name:expr, $op:ident, $dflt:expr, $cmp:tt, $pt:expr, $off:expr) => {
        impl HItem for $item<F> {
            type M = F;
            type O = u64;
            const CUSTOM_RAW: bool = true;
            fn raw(&self) -> String {
                format!("{} {{ v: {}, md: {} }}", $name, self.v.bits(), self.md.bits())
            }
            fn parse_val(tok: &str) -> Option<Self> {
                let (v, md) = int_f_lazy::<F>(tok)?;
                Some(match md {
                    None => $item::from(v),
                    Some(md) => $item { v, md },
                })
            }
            fn parse_mod(toks: &[&str]) -> Option<F> {
                f_mod::<F>(toks)
            }
            fn obs(&self) -> u64 {
                self.v.bits()
            }
            fn o_dflt() -> u64 {
                let d: F = $dflt;
                d.bits()
            }
            fn o_op(a: &u64, b: &u64) -> u64 {
                $op::<F>(a, b)
            }
            fn o_act(m: &F, a: &u64) -> u64 {
                (fb::<F>(a) + *m).bits()
            }
            fn o_view(o: &u64) -> String {
                o.to_string()
            }
            fn parse_pred(toks: &[&str]) -> Option<Pred<u64>> {
                if let Some(c) = f_int_pred::<F>(toks, $pt) {
                    return Some(Box::new(move |x: &u64| fb::<F>(x) $cmp c));
                }
                pred_const(toks)
            }
            fn gen_val(rng: &mut SplitMix64, st: &Style) -> String {
                gen_int_f(rng, st, true)
            }
            fn gen_mod(rng: &mut SplitMix64, st: &Style) -> String {
                gen_int_f_mod(rng, st)
            }
            fn mod_identity(m: &F) -> bool {
                *m == F::of_i64(0)
            }
            fn gen_pred(rng: &mut SplitMix64, aggs: &[u64], _e: &[u64], _rev: bool) -> String {
                pick_const(rng)
                    .unwrap_or_else(|| format!("{} {}", $pt, f_as_i64::<F>(rng.pick(aggs)) + rng.range_i64(-1, 1) + $off))
            }
        }
    };
}
pub type FMM<X> = Combinator<MinAdd<X>, MaxAdd<X>>;

/// all float instantiations for one concrete type (two blanket impls over `Prim` and `Fl` would overlap)
macro_rules! float_impls {
    ($m:ident, $t:ty) => {
        pub mod $m {
            use super::*;
            type F = $t;
// `-inf` is a lawful element of `Min` (its `Default`, the type's MAX, stays an identity), `+inf` of `Max`
float_unit_item!(Min, "Min", fo_min, F::FMAX, F::of_i64(-1) * F::INF, <, "lt");
float_unit_item!(Max, "Max", fo_max, F::FMIN, F::INF, >, "gt");

impl HItem for Sum<F> {
    type M = ();
    type O = u64;
    const CUSTOM_RAW: bool = true;
    fn raw(&self) -> String {
        format!("Sum {{ v: {} }}", self.v.bits())
    }
    fn parse_val(tok: &str) -> Option<Self> {
        if tok.contains('@') {
            return None;
        }
        Some(Sum::from(int_f::<F>(tok)?))
    }
    fn parse_mod(toks: &[&str]) -> Option<()> {
        if toks == ["u"] {
            Some(())
        } else {
            None
        }
    }
    fn obs(&self) -> u64 {
        self.v.bits()
    }
    fn o_dflt() -> u64 {
        F::of_i64(0).bits()
    }
    fn o_op(a: &u64, b: &u64) -> u64 {
        (fb::<F>(a) + fb::<F>(b)).bits()
    }
    fn o_act(_m: &(), a: &u64) -> u64 {
        *a
    }
    fn o_view(o: &u64) -> String {
        o.to_string()
    }
    fn parse_pred(toks: &[&str]) -> Option<Pred<u64>> {
        if let Some(c) = f_int_pred::<F>(toks, "ge") {
            return Some(Box::new(move |x: &u64| fb::<F>(x) >= c));
        }
        pred_const(toks)
    }
    fn gen_val(rng: &mut SplitMix64, st: &Style) -> String {
        gen_int_f(rng, st, false)
    }
    fn gen_mod(_rng: &mut SplitMix64, _st: &Style) -> String {
        "u".into()
    }
    fn mod_identity(_m: &()) -> bool {
        true
    }
    fn gen_pred(rng: &mut SplitMix64, aggs: &[u64], _e: &[u64], _rev: bool) -> String {
        pick_const(rng).unwrap_or_else(|| format!("ge {}", f_as_i64::<F>(rng.pick(aggs)) + rng.range_i64(-1, 1)))
    }
}

float_add_item!(MinAdd, "MinAdd", fo_min, F::FMAX, <, "lt", 1);
float_add_item!(MaxAdd, "MaxAdd", fo_max, F::FMIN, >, "gt", -1);

impl HItem for SumAdd<F> {
    type M = F;
    /// (sum, number of elements) as bit patterns
    type O = (u64, u64);
    const CUSTOM_RAW: bool = true;
    fn raw(&self) -> String {
        format!("SumAdd {{ v: {}, len: {}, md: {} }}", self.v.bits(), self.len.bits(), self.md.bits())
    }
    fn parse_val(tok: &str) -> Option<Self> {
        let (v, md) = int_f_lazy::<F>(tok)?;
        Some(match md {
            None => SumAdd::from(v),
            // `len`: the harness's own 1.0, not `ZeroOne::ONE`
            Some(md) => SumAdd { v, len: F::of_i64(1), md },
        })
    }
    fn parse_mod(toks: &[&str]) -> Option<F> {
        f_mod::<F>(toks)
    }
    fn obs(&self) -> (u64, u64) {
        (self.v.bits(), self.len.bits())
    }
    fn o_dflt() -> (u64, u64) {
        (F::of_i64(0).bits(), F::of_i64(0).bits())
    }
    fn o_op(a: &(u64, u64), b: &(u64, u64)) -> (u64, u64) {
        ((fb::<F>(&a.0) + fb::<F>(&b.0)).bits(), (fb::<F>(&a.1) + fb::<F>(&b.1)).bits())
    }
    fn o_act(m: &F, a: &(u64, u64)) -> (u64, u64) {
        ((fb::<F>(&a.0) + *m * fb::<F>(&a.1)).bits(), a.1)
    }
    fn o_view(o: &(u64, u64)) -> String {
        format!("({},{})", o.0, o.1)
    }
    fn parse_pred(toks: &[&str]) -> Option<Pred<(u64, u64)>> {
        if let Some(c) = f_int_pred::<F>(toks, "ge") {
            return Some(Box::new(move |x: &(u64, u64)| fb::<F>(&x.0) >= c));
        }
        if let Some(c) = f_int_pred::<F>(toks, "len") {
            return Some(Box::new(move |x: &(u64, u64)| fb::<F>(&x.1) >= c));
        }
        pred_const(toks)
    }
    fn gen_val(rng: &mut SplitMix64, st: &Style) -> String {
        gen_int_f(rng, st, true)
    }
    fn gen_mod(rng: &mut SplitMix64, st: &Style) -> String {
        gen_int_f_mod(rng, st)
    }
    fn mod_identity(m: &F) -> bool {
        *m == F::of_i64(0)
    }
    fn gen_pred(rng: &mut SplitMix64, aggs: &[(u64, u64)], _e: &[(u64, u64)], _rev: bool) -> String {
        pick_const(rng).unwrap_or_else(|| {
            if rng.chance(1, 4) {
                format!("len {}", rng.range_i64(1, aggs.len() as i64 + 1))
            } else {
                format!("ge {}", f_as_i64::<F>(&rng.pick(aggs).0) + rng.range_i64(-1, 1))
            }
        })
    }
}

impl HItem for FMM<F> {
    type M = F;
    /// (min, max) as bit patterns
    type O = (u64, u64);
    const CUSTOM_RAW: bool = true;
    fn raw(&self) -> String {
        format!("Combinator({}, {})", self.0.raw(), self.1.raw())
    }
    fn parse_val(tok: &str) -> Option<Self> {
        let (v, md) = int_f_lazy::<F>(tok)?;
        Some(match md {
            None => <FMM<F>>::from(v),
            Some(md) => Combinator(MinAdd { v, md }, MaxAdd { v, md }),
        })
    }
    fn parse_mod(toks: &[&str]) -> Option<F> {
        f_mod::<F>(toks)
    }
    fn obs(&self) -> (u64, u64) {
        (self.0.v.bits(), self.1.v.bits())
    }
    fn o_dflt() -> (u64, u64) {
        (F::FMAX.bits(), F::FMIN.bits())
    }
    fn o_op(a: &(u64, u64), b: &(u64, u64)) -> (u64, u64) {
        (fo_min::<F>(&a.0, &b.0), fo_max::<F>(&a.1, &b.1))
    }
    fn o_act(m: &F, a: &(u64, u64)) -> (u64, u64) {
        ((fb::<F>(&a.0) + *m).bits(), (fb::<F>(&a.1) + *m).bits())
    }
    fn o_view(o: &(u64, u64)) -> String {
        format!("({},{})", o.0, o.1)
    }
    fn parse_pred(toks: &[&str]) -> Option<Pred<(u64, u64)>> {
        if let Some(c) = f_int_pred::<F>(toks, "lt") {
            return Some(Box::new(move |x: &(u64, u64)| fb::<F>(&x.0) < c));
        }
        if let Some(c) = f_int_pred::<F>(toks, "gt") {
            return Some(Box::new(move |x: &(u64, u64)| fb::<F>(&x.1) > c));
        }
        if let Some(c) = f_int_pred::<F>(toks, "spread") {
            // the spread of the empty range is MIN - MAX = -inf: below every threshold
            return Some(Box::new(move |x: &(u64, u64)| fb::<F>(&x.1) + F::of_i64(-1) * fb::<F>(&x.0) >= c));
        }
        pred_const(toks)
    }
    fn gen_val(rng: &mut SplitMix64, st: &Style) -> String {
        gen_int_f(rng, st, true)
    }
    fn gen_mod(rng: &mut SplitMix64, st: &Style) -> String {
        gen_int_f_mod(rng, st)
    }
    fn mod_identity(m: &F) -> bool {
        *m == F::of_i64(0)
    }
    fn gen_pred(rng: &mut SplitMix64, aggs: &[(u64, u64)], _e: &[(u64, u64)], _rev: bool) -> String {
        pick_const(rng).unwrap_or_else(|| {
            let a = *rng.pick(aggs);
            let (lo, hi) = (f_as_i64::<F>(&a.0), f_as_i64::<F>(&a.1));
            match rng.below(3) {
                0 => format!("lt {}", lo + rng.range_i64(-1, 1) + 1),
                1 => format!("gt {}", hi + rng.range_i64(-1, 1) - 1),
                _ => format!("spread {}", hi - lo + rng.range_i64(-1, 1)),
            }
        })
    }
}

        }
    };
}
float_impls!(impl_f64, f64);
float_impls!(impl_f32, f32);

pub const KEYED_ITEMS: [&str; 20] = [
    "sum:cat",
    "min:rec",
    "max:rec",
    "minadd:rec",
    "maxadd:rec",
    "mm:rec",
    "min:f64",
    "max:f64",
    "sum:f64",
    "minadd:f64",
    "maxadd:f64",
    "sumadd:f64",
    "mm:f64",
    "min:f32",
    "max:f32",
    "sum:f32",
    "minadd:f32",
    "maxadd:f32",
    "sumadd:f32",
    "mm:f32",
];
