//! Correspondence harness for engine `segtree` (properties C01, C02): drives the real
//! `rlib_segtree::Segtree` with the six built-in items at `i64`, two `Combinator` nestings and the two exotic
//! lawful items of `items.rs`, on operation histories `item ctor n v.. ; op ; op ; ...`.
//!
//! raw  = `{:?}` of every returned item / answer + probe log of every search / the `debug()` string
//! view = observable value (`.v`, `(.v,.len)`, ...) / answer + `P` when every probe equals the aggregate of a
//!        range of the plain shadow vector starting at `l` (ending at `r`), `nm` when the predicate is not
//!        monotone on the shadow vector (outside C02's domain).
#[path = "../../common/mod.rs"]
mod common;
mod items;
use common::*;
use items::*;
use rlib_segtree::segtree_items::{Combinator, Max, MaxAdd, Min, MinAdd, Sum, SumAdd};
use rlib_segtree::{Segtree, SegtreeItem};
use std::cell::RefCell;
use std::fmt::Debug;

type Pred<T> = Box<dyn Fn(&T) -> bool>;
type MM = Combinator<MinAdd<i64>, MaxAdd<i64>>;
type SMM = Combinator<Combinator<SumAdd<i64>, MinAdd<i64>>, MaxAdd<i64>>;
/// a `Combinator` whose components both have a non-commutative merge
type AA = Combinator<AffHash, AffHash>;

/// value / modifier magnitudes of one generated history
#[derive(Clone)]
struct Style {
    vlo: i64,
    vhi: i64,
    mlo: i64,
    mhi: i64,
}

trait HItem: SegtreeItem<Self::M> + Clone + Default + Debug + 'static {
    type M: Debug + Clone;
    /// `v` or `v@md`: an element may carry a (meaningless, for a leaf) pending modifier of its own, e.g. when it is a
    /// snapshot taken with `ask(i, i)` from another tree
    fn parse_val(tok: &str) -> Option<Self>;
    fn parse_mod(toks: &[&str]) -> Option<Self::M>;
    fn parse_pred(toks: &[&str]) -> Option<Pred<Self>>;
    fn view(&self) -> String;
    fn gen_val(rng: &mut SplitMix64, st: &Style) -> String;
    fn gen_mod(rng: &mut SplitMix64, st: &Style) -> String;
    fn mod_identity(m: &Self::M) -> bool;
    /// `elems[k]` = k-th element in search direction, `aggs[k]` = aggregate after k+1 elements
    fn gen_pred(rng: &mut SplitMix64, aggs: &[Self], elems: &[Self], rev: bool) -> String;
}

fn pred_const<T: 'static>(toks: &[&str]) -> Option<Pred<T>> {
    match toks {
        ["T"] => Some(Box::new(|_| true)),
        ["F"] => Some(Box::new(|_| false)),
        _ => None,
    }
}

fn int_tok(toks: &[&str], name: &str) -> Option<i64> {
    if toks.len() == 2 && toks[0] == name {
        toks[1].parse::<i64>().ok()
    } else {
        None
    }
}

fn around(rng: &mut SplitMix64, x: i64) -> i64 {
    x + rng.range_i64(-1, 1)
}

fn pick_const(rng: &mut SplitMix64) -> Option<String> {
    match rng.below(12) {
        0 => Some("T".into()),
        1 => Some("F".into()),
        _ => None,
    }
}

macro_rules! unit_mod {
    () => {
        type M = ();
        fn parse_mod(toks: &[&str]) -> Option<()> {
            if toks == ["u"] {
                Some(())
            } else {
                None
            }
        }
        fn gen_mod(_rng: &mut SplitMix64, _st: &Style) -> String {
            "u".into()
        }
        fn mod_identity(_m: &()) -> bool {
            true
        }
    };
}

macro_rules! int_mod {
    () => {
        type M = i64;
        fn parse_mod(toks: &[&str]) -> Option<i64> {
            if toks.len() == 1 {
                toks[0].parse::<i64>().ok()
            } else {
                None
            }
        }
        fn gen_mod(rng: &mut SplitMix64, st: &Style) -> String {
            rng.range_i64(st.mlo, st.mhi).to_string()
        }
        fn mod_identity(m: &i64) -> bool {
            *m == 0
        }
    };
}

macro_rules! int_val {
    ($lazy:expr, $mk:expr) => {
        fn parse_val(tok: &str) -> Option<Self> {
            let mk: fn(i64, Option<i64>) -> Option<Self> = $mk;
            match tok.split_once('@') {
                None => mk(tok.parse::<i64>().ok()?, None),
                Some((v, m)) => mk(v.parse::<i64>().ok()?, Some(m.parse::<i64>().ok()?)),
            }
        }
        fn gen_val(rng: &mut SplitMix64, st: &Style) -> String {
            let v = rng.range_i64(st.vlo, st.vhi);
            if $lazy && rng.chance(1, 6) {
                format!("{}@{}", v, rng.range_i64(st.mlo, st.mhi))
            } else {
                v.to_string()
            }
        }
    };
}

fn no_md<T: From<i64>>(v: i64, md: Option<i64>) -> Option<T> {
    if md.is_some() {
        None
    } else {
        Some(T::from(v))
    }
}
fn mk_minadd(v: i64, md: Option<i64>) -> Option<MinAdd<i64>> {
    Some(MinAdd { v, md: md.unwrap_or(0) })
}
fn mk_maxadd(v: i64, md: Option<i64>) -> Option<MaxAdd<i64>> {
    Some(MaxAdd { v, md: md.unwrap_or(0) })
}
fn mk_sumadd(v: i64, md: Option<i64>) -> Option<SumAdd<i64>> {
    Some(SumAdd { v, len: 1, md: md.unwrap_or(0) })
}
fn mk_aff(x: i64, md: Option<(i64, i64)>) -> AffHash {
    AffHash { h: x.rem_euclid(P), pw: B, s: 1, md }
}

impl HItem for Min<i64> {
    unit_mod!();
    int_val!(false, no_md::<Self>);
    fn parse_pred(toks: &[&str]) -> Option<Pred<Self>> {
        if let Some(c) = int_tok(toks, "lt") {
            return Some(Box::new(move |x: &Self| x.v < c));
        }
        pred_const(toks)
    }
    fn view(&self) -> String {
        self.v.to_string()
    }
    fn gen_pred(rng: &mut SplitMix64, aggs: &[Self], _e: &[Self], _rev: bool) -> String {
        pick_const(rng).unwrap_or_else(|| format!("lt {}", { let x0 = rng.pick(aggs).v.min(1 << 40); around(rng, x0) } + 1))
    }
}

impl HItem for Max<i64> {
    unit_mod!();
    int_val!(false, no_md::<Self>);
    fn parse_pred(toks: &[&str]) -> Option<Pred<Self>> {
        if let Some(c) = int_tok(toks, "gt") {
            return Some(Box::new(move |x: &Self| x.v > c));
        }
        pred_const(toks)
    }
    fn view(&self) -> String {
        self.v.to_string()
    }
    fn gen_pred(rng: &mut SplitMix64, aggs: &[Self], _e: &[Self], _rev: bool) -> String {
        pick_const(rng).unwrap_or_else(|| format!("gt {}", { let x0 = rng.pick(aggs).v.max(-(1 << 40)); around(rng, x0) } - 1))
    }
}

impl HItem for Sum<i64> {
    unit_mod!();
    int_val!(false, no_md::<Self>);
    fn parse_pred(toks: &[&str]) -> Option<Pred<Self>> {
        if let Some(c) = int_tok(toks, "ge") {
            return Some(Box::new(move |x: &Self| x.v >= c));
        }
        pred_const(toks)
    }
    fn view(&self) -> String {
        self.v.to_string()
    }
    fn gen_pred(rng: &mut SplitMix64, aggs: &[Self], _e: &[Self], _rev: bool) -> String {
        pick_const(rng).unwrap_or_else(|| format!("ge {}", { let x0 = rng.pick(aggs).v; around(rng, x0) }))
    }
}

impl HItem for MinAdd<i64> {
    int_mod!();
    int_val!(true, mk_minadd);
    fn parse_pred(toks: &[&str]) -> Option<Pred<Self>> {
        if let Some(c) = int_tok(toks, "lt") {
            return Some(Box::new(move |x: &Self| x.v < c));
        }
        pred_const(toks)
    }
    fn view(&self) -> String {
        self.v.to_string()
    }
    fn gen_pred(rng: &mut SplitMix64, aggs: &[Self], _e: &[Self], _rev: bool) -> String {
        pick_const(rng).unwrap_or_else(|| format!("lt {}", { let x0 = rng.pick(aggs).v.min(1 << 40); around(rng, x0) } + 1))
    }
}

impl HItem for MaxAdd<i64> {
    int_mod!();
    int_val!(true, mk_maxadd);
    fn parse_pred(toks: &[&str]) -> Option<Pred<Self>> {
        if let Some(c) = int_tok(toks, "gt") {
            return Some(Box::new(move |x: &Self| x.v > c));
        }
        pred_const(toks)
    }
    fn view(&self) -> String {
        self.v.to_string()
    }
    fn gen_pred(rng: &mut SplitMix64, aggs: &[Self], _e: &[Self], _rev: bool) -> String {
        pick_const(rng).unwrap_or_else(|| format!("gt {}", { let x0 = rng.pick(aggs).v.max(-(1 << 40)); around(rng, x0) } - 1))
    }
}

impl HItem for SumAdd<i64> {
    int_mod!();
    int_val!(true, mk_sumadd);
    fn parse_pred(toks: &[&str]) -> Option<Pred<Self>> {
        if let Some(c) = int_tok(toks, "ge") {
            return Some(Box::new(move |x: &Self| x.v >= c));
        }
        if let Some(c) = int_tok(toks, "len") {
            return Some(Box::new(move |x: &Self| x.len >= c));
        }
        pred_const(toks)
    }
    fn view(&self) -> String {
        format!("({},{})", self.v, self.len)
    }
    fn gen_pred(rng: &mut SplitMix64, aggs: &[Self], _e: &[Self], _rev: bool) -> String {
        pick_const(rng).unwrap_or_else(|| {
            if rng.chance(1, 4) {
                format!("len {}", rng.range_i64(1, aggs.len() as i64 + 1))
            } else {
                format!("ge {}", { let x0 = rng.pick(aggs).v; around(rng, x0) })
            }
        })
    }
}

impl HItem for MM {
    int_mod!();
    int_val!(true, |v, md| Some(Combinator(mk_minadd(v, md)?, mk_maxadd(v, md)?)));
    fn parse_pred(toks: &[&str]) -> Option<Pred<Self>> {
        if let Some(c) = int_tok(toks, "lt") {
            return Some(Box::new(move |x: &Self| x.0.v < c));
        }
        if let Some(c) = int_tok(toks, "gt") {
            return Some(Box::new(move |x: &Self| x.1.v > c));
        }
        if let Some(c) = int_tok(toks, "spread") {
            return Some(Box::new(move |x: &Self| x.1.v - x.0.v >= c));
        }
        pred_const(toks)
    }
    fn view(&self) -> String {
        format!("({},{})", self.0.v, self.1.v)
    }
    fn gen_pred(rng: &mut SplitMix64, aggs: &[Self], _e: &[Self], _rev: bool) -> String {
        pick_const(rng).unwrap_or_else(|| {
            let a = rng.pick(aggs).clone();
            match rng.below(3) {
                0 => format!("lt {}", around(rng, a.0.v.min(1 << 40)) + 1),
                1 => format!("gt {}", around(rng, a.1.v.max(-(1 << 40))) - 1),
                _ => format!("spread {}", around(rng, (a.1.v as i128 - a.0.v as i128).clamp(-(1 << 40), 1 << 40) as i64)),
            }
        })
    }
}

impl HItem for SMM {
    int_mod!();
    int_val!(true, |v, md| Some(Combinator(Combinator(mk_sumadd(v, md)?, mk_minadd(v, md)?), mk_maxadd(v, md)?)));
    fn parse_pred(toks: &[&str]) -> Option<Pred<Self>> {
        if let Some(c) = int_tok(toks, "ge") {
            return Some(Box::new(move |x: &Self| x.0 .0.v >= c));
        }
        if let Some(c) = int_tok(toks, "len") {
            return Some(Box::new(move |x: &Self| x.0 .0.len >= c));
        }
        if let Some(c) = int_tok(toks, "lt") {
            return Some(Box::new(move |x: &Self| x.0 .1.v < c));
        }
        if let Some(c) = int_tok(toks, "gt") {
            return Some(Box::new(move |x: &Self| x.1.v > c));
        }
        pred_const(toks)
    }
    fn view(&self) -> String {
        format!("((({},{}),{}),{})", self.0 .0.v, self.0 .0.len, self.0 .1.v, self.1.v)
    }
    fn gen_pred(rng: &mut SplitMix64, aggs: &[Self], _e: &[Self], _rev: bool) -> String {
        pick_const(rng).unwrap_or_else(|| {
            let a = rng.pick(aggs).clone();
            match rng.below(4) {
                0 => format!("ge {}", around(rng, a.0 .0.v)),
                1 => format!("len {}", rng.range_i64(1, aggs.len() as i64 + 1)),
                2 => format!("lt {}", around(rng, a.0 .1.v.min(1 << 40)) + 1),
                _ => format!("gt {}", around(rng, a.1.v.max(-(1 << 40))) - 1),
            }
        })
    }
}

/// `(hash, B^k)` of every prefix (suffix) of `w`
fn aff_prefixes(w: &[i64]) -> Vec<(i64, i64)> {
    let mut out = vec![(0, 1)];
    let (mut h, mut pw) = (0i64, 1i64);
    for x in w {
        h = (h * B + x.rem_euclid(P)) % P;
        pw = (pw * B) % P;
        out.push((h, pw));
    }
    out
}
fn aff_suffixes(w: &[i64]) -> Vec<(i64, i64)> {
    let mut out = vec![(0, 1)];
    let (mut h, mut pw) = (0i64, 1i64);
    for x in w.iter().rev() {
        h = (x.rem_euclid(P) * pw + h) % P;
        pw = (pw * B) % P;
        out.push((h, pw));
    }
    out
}

/// `x` or `x@a:b`
fn parse_aff_val(tok: &str) -> Option<(i64, Option<(i64, i64)>)> {
    match tok.split_once('@') {
        None => Some((tok.parse().ok()?, None)),
        Some((x, m)) => {
            let (a, b) = m.split_once(':')?;
            Some((x.parse().ok()?, Some((a.parse().ok()?, b.parse().ok()?))))
        }
    }
}
fn gen_aff_val(rng: &mut SplitMix64, st: &Style) -> String {
    let x = rng.range_i64(0, st.vhi.max(1));
    if rng.chance(1, 6) {
        format!("{}@{}:{}", x, rng.range_i64(0, 9), rng.range_i64(0, 9))
    } else {
        x.to_string()
    }
}

fn parse_commas(s: &str) -> Option<Vec<i64>> {
    if s == "-" {
        return Some(vec![]);
    }
    s.split(',').map(|t| t.parse::<i64>().ok()).collect()
}

impl HItem for AffHash {
    type M = (i64, i64);
    fn parse_val(tok: &str) -> Option<Self> {
        let (x, md) = parse_aff_val(tok)?;
        Some(mk_aff(x, md))
    }
    fn parse_mod(toks: &[&str]) -> Option<(i64, i64)> {
        if toks.len() == 2 {
            Some((toks[0].parse().ok()?, toks[1].parse().ok()?))
        } else {
            None
        }
    }
    fn parse_pred(toks: &[&str]) -> Option<Pred<Self>> {
        if toks.len() == 2 && (toks[0] == "npre" || toks[0] == "nsuf") {
            let w = parse_commas(toks[1])?;
            let set = if toks[0] == "npre" { aff_prefixes(&w) } else { aff_suffixes(&w) };
            return Some(Box::new(move |x: &Self| !set.contains(&(x.h, x.pw))));
        }
        pred_const(toks)
    }
    fn view(&self) -> String {
        format!("({},{},{})", self.h, self.pw, self.s)
    }
    fn gen_val(rng: &mut SplitMix64, st: &Style) -> String {
        gen_aff_val(rng, st)
    }
    fn gen_mod(rng: &mut SplitMix64, st: &Style) -> String {
        // x -> a*x + b: assignments (a = 0), additions (a = 1), identity, general affine maps
        let big = st.mhi > 1000;
        let hi = if big { P - 1 } else { 9 };
        match rng.below(8) {
            0 => format!("0 {}", rng.range_i64(0, hi)),
            1 => format!("1 {}", rng.range_i64(0, hi)),
            2 => "1 0".to_string(),
            _ => format!("{} {}", rng.range_i64(0, hi), rng.range_i64(0, hi)),
        }
    }
    fn mod_identity(m: &(i64, i64)) -> bool {
        *m == (1, 0)
    }
    fn gen_pred(rng: &mut SplitMix64, _aggs: &[Self], elems: &[Self], rev: bool) -> String {
        pick_const(rng).unwrap_or_else(|| {
            let hs: Vec<i64> = elems.iter().map(|e| e.h).collect();
            format!("{} {}", if rev { "nsuf" } else { "npre" }, gen_aff_word(rng, &hs, rev))
        })
    }
}

fn gen_aff_word(rng: &mut SplitMix64, hs: &[i64], rev: bool) -> String {
    // the first j elements in search direction, then (usually) one that differs
    let j = rng.below(hs.len() as u64 + 1) as usize;
    let mut w: Vec<i64> = hs[..j].to_vec();
    if j < hs.len() && rng.chance(7, 8) {
        w.push((hs[j] + 1 + rng.below(5) as i64) % P);
    }
    if w.is_empty() {
        return "-".into();
    }
    if rev {
        w.reverse();
    }
    let s: Vec<String> = w.iter().map(|x| x.to_string()).collect();
    s.join(",")
}

impl HItem for AA {
    type M = (i64, i64);
    fn parse_val(tok: &str) -> Option<Self> {
        let (x, md) = parse_aff_val(tok)?;
        Some(Combinator(mk_aff(x, md), mk_aff(2 * x + 1, md)))
    }
    fn parse_mod(toks: &[&str]) -> Option<(i64, i64)> {
        AffHash::parse_mod(toks)
    }
    fn parse_pred(toks: &[&str]) -> Option<Pred<Self>> {
        if toks.len() == 2 && ["npre0", "nsuf0", "npre1", "nsuf1"].contains(&toks[0]) {
            let w = parse_commas(toks[1])?;
            let set = if toks[0].starts_with("npre") { aff_prefixes(&w) } else { aff_suffixes(&w) };
            return Some(if toks[0].ends_with('0') {
                Box::new(move |x: &Self| !set.contains(&(x.0.h, x.0.pw)))
            } else {
                Box::new(move |x: &Self| !set.contains(&(x.1.h, x.1.pw)))
            });
        }
        pred_const(toks)
    }
    fn view(&self) -> String {
        format!("({},{})", self.0.view(), self.1.view())
    }
    fn gen_val(rng: &mut SplitMix64, st: &Style) -> String {
        gen_aff_val(rng, st)
    }
    fn gen_mod(rng: &mut SplitMix64, st: &Style) -> String {
        AffHash::gen_mod(rng, st)
    }
    fn mod_identity(m: &(i64, i64)) -> bool {
        *m == (1, 0)
    }
    fn gen_pred(rng: &mut SplitMix64, _aggs: &[Self], elems: &[Self], rev: bool) -> String {
        pick_const(rng).unwrap_or_else(|| {
            let c = rng.below(2);
            let hs: Vec<i64> = elems.iter().map(|e| if c == 0 { e.0.h } else { e.1.h }).collect();
            format!("{}{} {}", if rev { "nsuf" } else { "npre" }, c, gen_aff_word(rng, &hs, rev))
        })
    }
}

impl HItem for StrCat {
    type M = (u64, u64);
    fn parse_val(tok: &str) -> Option<Self> {
        let (w, md) = match tok.split_once('@') {
            None => (tok, None),
            Some((w, m)) => {
                let (k, c) = m.split_once(':')?;
                (w, Some((k.parse::<u64>().ok()?, c.parse::<u64>().ok()?)))
            }
        };
        if !w.is_empty() && w.bytes().all(|c| c.is_ascii_lowercase()) {
            Some(StrCat { s: w.to_string(), md })
        } else {
            None
        }
    }
    fn parse_mod(toks: &[&str]) -> Option<(u64, u64)> {
        if toks.len() == 2 {
            Some((toks[0].parse().ok()?, toks[1].parse().ok()?))
        } else {
            None
        }
    }
    fn parse_pred(toks: &[&str]) -> Option<Pred<Self>> {
        if toks.len() == 2 && toks[0] == "npre" && toks[1].bytes().all(|c| c.is_ascii_lowercase()) && !toks[1].is_empty() {
            let w = toks[1].to_string();
            return Some(Box::new(move |x: &Self| !w.starts_with(&x.s)));
        }
        if toks.len() == 2 && toks[0] == "nsuf" && toks[1].bytes().all(|c| c.is_ascii_lowercase()) && !toks[1].is_empty() {
            let w = toks[1].to_string();
            return Some(Box::new(move |x: &Self| !w.ends_with(&x.s)));
        }
        if toks.len() == 2 && toks[0] == "slen" {
            let c: usize = toks[1].parse().ok()?;
            return Some(Box::new(move |x: &Self| x.s.len() >= c));
        }
        pred_const(toks)
    }
    fn view(&self) -> String {
        format!("\"{}\"", self.s)
    }
    fn gen_val(rng: &mut SplitMix64, _st: &Style) -> String {
        let len = 1 + rng.below(2);
        let w: String = (0..len).map(|_| (b'a' + rng.below(4) as u8) as char).collect();
        if rng.chance(1, 6) {
            format!("{}@{}:{}", w, rng.below(2), rng.below(26))
        } else {
            w
        }
    }
    fn gen_mod(rng: &mut SplitMix64, _st: &Style) -> String {
        match rng.below(6) {
            0 => "0 0".to_string(),
            1 | 2 => format!("1 {}", rng.below(26)),
            _ => format!("0 {}", rng.below(26)),
        }
    }
    fn mod_identity(m: &(u64, u64)) -> bool {
        *m == (0, 0)
    }
    fn gen_pred(rng: &mut SplitMix64, aggs: &[Self], elems: &[Self], rev: bool) -> String {
        pick_const(rng).unwrap_or_else(|| {
            if rng.chance(1, 4) {
                return format!("slen {}", rng.below(aggs.last().unwrap().s.len() as u64 + 2));
            }
            let j = rng.below(elems.len() as u64 + 1) as usize;
            let mut parts: Vec<String> = elems[..j].iter().map(|e| e.s.clone()).collect();
            if j < elems.len() && rng.chance(7, 8) {
                // same element with one letter changed (first letter in search direction)
                let mut b = elems[j].s.clone().into_bytes();
                let k = if rev { b.len() - 1 } else { 0 };
                b[k] = b'a' + ((b[k] - b'a') + 1 + rng.below(3) as u8) % 26;
                parts.push(String::from_utf8(b).unwrap());
            }
            if rev {
                parts.reverse();
            }
            let w = parts.concat();
            if w.is_empty() {
                return "slen 1".to_string();
            }
            format!("{} {}", if rev { "nsuf" } else { "npre" }, w)
        })
    }
}

// ------------------------------------------------------------------------------------------------------
// running one history against the real Segtree
// ------------------------------------------------------------------------------------------------------

fn res_str<R>(r: Result<R, String>, f: impl FnOnce(R) -> String) -> String {
    match r {
        Ok(v) => f(v),
        Err(e) => e,
    }
}

fn show_idx(o: Option<usize>) -> String {
    match o {
        None => "none".into(),
        Some(i) => format!("some {}", i),
    }
}

/// aggregates of the plain vector in search direction (independent oracle)
fn dir_aggs<T: HItem>(shadow: &[T], pos: usize, rev: bool) -> (Vec<T>, Vec<T>) {
    let mut aggs = Vec::new();
    let mut elems = Vec::new();
    let mut acc = T::default();
    if rev {
        for k in (0..=pos).rev() {
            acc = T::merge(&shadow[k], &acc);
            aggs.push(acc.clone());
            elems.push(shadow[k].clone());
        }
    } else {
        for k in pos..shadow.len() {
            acc = T::merge(&acc, &shadow[k]);
            aggs.push(acc.clone());
            elems.push(shadow[k].clone());
        }
    }
    (aggs, elems)
}

fn monotone(flags: &[bool]) -> bool {
    let mut seen = false;
    for &b in flags {
        if seen && !b {
            return false;
        }
        seen |= b;
    }
    true
}

const INVALID: &str = "I INVALID | V INVALID";

fn run_history<T: HItem>(ctor: &str, n: usize, vals: &[&str], ops: &[&str]) -> String {
    let vals: Option<Vec<T>> = vals.iter().map(|t| T::parse_val(t)).collect();
    let vals = match vals {
        Some(v) => v,
        None => return INVALID.into(),
    };
    let (built, mut shadow): (Result<Segtree<T, T::M>, String>, Vec<T>) = match ctor {
        "new" if vals.len() == 1 => (catch(|| Segtree::new(n, vals[0].clone())), vec![vals[0].clone(); n]),
        "slice" if vals.len() == n => (catch(|| Segtree::from_slice(&vals)), vals.clone()),
        "iter" if vals.len() == n => (catch(|| Segtree::from_iter(vals.clone().into_iter())), vals.clone()),
        _ => return INVALID.into(),
    };
    let mut tree = match built {
        Ok(t) => t,
        Err(e) => return out1(&e),
    };
    let mut raws: Vec<String> = vec!["ok".into()];
    let mut views: Vec<String> = vec!["ok".into()];
    for op in ops {
        let toks: Vec<&str> = op.split_whitespace().collect();
        match toks.as_slice() {
            ["set", i, v] => {
                let (i, v) = match (i.parse::<usize>(), T::parse_val(v)) {
                    (Ok(i), Some(v)) => (i, v),
                    _ => return INVALID.into(),
                };
                let r = res_str(catch(|| tree.set(i, v.clone())), |_| ".".into());
                if i < n {
                    shadow[i] = v;
                }
                raws.push(r.clone());
                views.push(r);
            }
            ["mod", l, r, mt @ ..] => {
                let (l, r, m) = match (l.parse::<usize>(), r.parse::<usize>(), T::parse_mod(mt)) {
                    (Ok(l), Ok(r), Some(m)) => (l, r, m),
                    _ => return INVALID.into(),
                };
                let res = res_str(catch(|| tree.modify(l, r, &m)), |_| ".".into());
                if l <= r && r < n {
                    for x in shadow[l..=r].iter_mut() {
                        x.modify(&m);
                    }
                }
                raws.push(res.clone());
                views.push(res);
            }
            ["ask", l, r] => {
                let (l, r) = match (l.parse::<usize>(), r.parse::<usize>()) {
                    (Ok(l), Ok(r)) => (l, r),
                    _ => return INVALID.into(),
                };
                match catch(|| tree.ask(l, r)) {
                    Ok(x) => {
                        raws.push(format!("{:?}", x));
                        views.push(x.view());
                    }
                    Err(e) => {
                        raws.push(e.clone());
                        views.push(e);
                    }
                }
            }
            [kind @ ("lb" | "lbr"), pos, pt @ ..] => {
                let rev = *kind == "lbr";
                let (pos, pred) = match (pos.parse::<usize>(), T::parse_pred(pt)) {
                    (Ok(p), Some(f)) => (p, f),
                    _ => return INVALID.into(),
                };
                if pos >= n {
                    return INVALID.into();
                }
                let log: RefCell<Vec<T>> = RefCell::new(Vec::new());
                let f = |x: &T| {
                    log.borrow_mut().push(x.clone());
                    pred(x)
                };
                let res = if rev { catch(|| tree.lower_bound_rev(pos, f)) } else { catch(|| tree.lower_bound(pos, f)) };
                match res {
                    Ok(o) => {
                        let log = log.into_inner();
                        raws.push(format!("{} {:?}", show_idx(o), log));
                        let (aggs, _) = dir_aggs(&shadow, pos, rev);
                        let flags: Vec<bool> = aggs.iter().map(|a| pred(a)).collect();
                        if monotone(&flags) {
                            let av: Vec<String> = aggs.iter().map(|a| a.view()).collect();
                            let ok = log.iter().all(|p| av.contains(&p.view()));
                            views.push(format!("{} {}", show_idx(o), if ok { "P" } else { "p!" }));
                        } else {
                            views.push("nm".into());
                        }
                    }
                    Err(e) => {
                        raws.push(e.clone());
                        views.push(e);
                    }
                }
            }
            ["dbg"] => match catch(|| tree.debug()) {
                Ok(s) => {
                    raws.push(s);
                    // the observable values, by a second route
                    let vs = catch(|| (0..n).map(|i| tree.ask(i, i).view()).collect::<Vec<_>>());
                    views.push(res_str(vs, |v| format!("[{}]", v.join(","))));
                }
                Err(e) => {
                    raws.push(e.clone());
                    views.push(e);
                }
            },
            _ => return INVALID.into(),
        }
    }
    out2(&raws.join(" ; "), &views.join(" ; "))
}

fn dispatch_run(item: &str, ctor: &str, n: usize, vals: &[&str], ops: &[&str]) -> String {
    match item {
        "min" => run_history::<Min<i64>>(ctor, n, vals, ops),
        "max" => run_history::<Max<i64>>(ctor, n, vals, ops),
        "sum" => run_history::<Sum<i64>>(ctor, n, vals, ops),
        "minadd" => run_history::<MinAdd<i64>>(ctor, n, vals, ops),
        "maxadd" => run_history::<MaxAdd<i64>>(ctor, n, vals, ops),
        "sumadd" => run_history::<SumAdd<i64>>(ctor, n, vals, ops),
        "mm" => run_history::<MM>(ctor, n, vals, ops),
        "smm" => run_history::<SMM>(ctor, n, vals, ops),
        "aff" => run_history::<AffHash>(ctor, n, vals, ops),
        "aa" => run_history::<AA>(ctor, n, vals, ops),
        "str" => run_history::<StrCat>(ctor, n, vals, ops),
        _ => INVALID.into(),
    }
}

fn run_case(line: &str) -> String {
    let parts: Vec<&str> = line.split(';').map(|p| p.trim()).collect();
    let hdr: Vec<&str> = parts[0].split_whitespace().collect();
    if hdr.len() < 3 {
        return INVALID.into();
    }
    let n = match hdr[2].parse::<usize>() {
        Ok(n) if n <= 100_000 => n,
        _ => return INVALID.into(),
    };
    dispatch_run(hdr[0], hdr[1], n, &hdr[3..], &parts[1..])
}

// ------------------------------------------------------------------------------------------------------
// generation
// ------------------------------------------------------------------------------------------------------

/// Which inner nodes hold a non-identity pending tag — bookkeeping for the evidence only: counts how many
/// operations pushed such a tag on their way down (the real tree is not inspected, no hook needed).
struct Tags {
    tag: Vec<bool>,
    crossed: u64,
}

impl Tags {
    fn new(n: usize) -> Self {
        Tags { tag: vec![false; 4 * n.max(1) + 4], crossed: 0 }
    }
    fn push(&mut self, i: usize, vl: usize, vr: usize) {
        if self.tag[i] {
            self.crossed += 1;
            self.tag[i] = false;
            let m = (vl + vr) / 2;
            if vl < m {
                self.tag[2 * i + 1] = true;
            }
            if m + 1 < vr {
                self.tag[2 * i + 2] = true;
            }
        }
    }
    fn set(&mut self, ind: usize, i: usize, vl: usize, vr: usize) {
        if vl == vr {
            return;
        }
        self.push(i, vl, vr);
        let m = (vl + vr) / 2;
        if ind <= m {
            self.set(ind, 2 * i + 1, vl, m)
        } else {
            self.set(ind, 2 * i + 2, m + 1, vr)
        }
    }
    /// ask (`md = None`) or modify (`md = Some(non-identity?)`)
    fn range(&mut self, l: usize, r: usize, md: Option<bool>, i: usize, vl: usize, vr: usize) {
        if l == vl && r == vr {
            if let Some(true) = md {
                if vl < vr {
                    self.tag[i] = true;
                }
            }
            return;
        }
        self.push(i, vl, vr);
        let m = (vl + vr) / 2;
        if r <= m {
            self.range(l, r, md, 2 * i + 1, vl, m);
        } else if l > m {
            self.range(l, r, md, 2 * i + 2, m + 1, vr);
        } else {
            self.range(l, m, md, 2 * i + 1, vl, m);
            self.range(m + 1, r, md, 2 * i + 2, m + 1, vr);
        }
    }
    /// `flags[k]` = predicate on the aggregate of `[l, l+k]`
    fn lb(&mut self, flags: &[bool], l0: usize, l: usize, i: usize, vl: usize, vr: usize) -> bool {
        if l == vl {
            if !flags[vr - l0] {
                return false;
            }
            if vl == vr {
                return true;
            }
        }
        self.push(i, vl, vr);
        let m = (vl + vr) / 2;
        if l <= m && self.lb(flags, l0, l, 2 * i + 1, vl, m) {
            return true;
        }
        self.lb(flags, l0, l.max(m + 1), 2 * i + 2, m + 1, vr)
    }
    /// `flags[k]` = predicate on the aggregate of `[r-k, r]`
    fn lbr(&mut self, flags: &[bool], r0: usize, r: usize, i: usize, vl: usize, vr: usize) -> bool {
        if r == vr {
            if !flags[r0 - vl] {
                return false;
            }
            if vl == vr {
                return true;
            }
        }
        self.push(i, vl, vr);
        let m = (vl + vr) / 2;
        if r > m && self.lbr(flags, r0, r, 2 * i + 2, m + 1, vr) {
            return true;
        }
        self.lbr(flags, r0, r.min(m), 2 * i + 1, vl, m)
    }
}

const SIZES_BIG: [usize; 10] = [31, 32, 33, 63, 64, 65, 100, 127, 128, 129];

fn pick_range(rng: &mut SplitMix64, n: usize) -> (usize, usize) {
    match rng.below(10) {
        0 => (0, n - 1),
        1 => {
            let i = rng.below(n as u64) as usize;
            (i, i)
        }
        2 => {
            // aligned to the middle split
            let m = (n - 1) / 2;
            if rng.chance(1, 2) { (rng.below(m as u64 + 1) as usize, m) } else { ((m + 1).min(n - 1), rng.range_i64((m + 1).min(n - 1) as i64, n as i64 - 1) as usize) }
        }
        _ => {
            let a = rng.below(n as u64) as usize;
            let b = rng.below(n as u64) as usize;
            (a.min(b), a.max(b))
        }
    }
}

/// weights of (set, mod, ask, lb, lbr, dbg) per focus
fn weights(focus: &str, n: usize) -> [u64; 6] {
    let dbg = if n <= 17 { 3 } else { 1 };
    match focus {
        "C02" => [10, 25, 8, 27, 27, dbg],
        _ => [18, 30, 35, 6, 6, dbg],
    }
}

fn gen_history<T: HItem>(name: &str, rng: &mut SplitMix64, focus: &str, st: &mut Stats, big: bool) -> String {
    let n = if big { *rng.pick(&SIZES_BIG) } else { 1 + rng.below(17) as usize };
    let style = match rng.below(5) {
        0 => Style { vlo: 0, vhi: 50, mlo: 0, mhi: 20 },               // non-negative: sum thresholds monotone
        1 => Style { vlo: -5, vhi: 5, mlo: -3, mhi: 3 },               // many ties
        2 => Style { vlo: -1_000_000_000_000, vhi: 1_000_000_000_000, mlo: -1_000_000_000, mhi: 1_000_000_000 },
        3 => Style { vlo: 0, vhi: 3, mlo: 0, mhi: 2 },
        _ => Style { vlo: -100, vhi: 100, mlo: -50, mhi: 50 },
    };
    let ctor = *rng.pick(&["new", "slice", "iter"]);
    st.bump(&format!("ctor_{}", ctor));
    st.bump(&format!("item_{}", name));
    st.bump(if big { "n_31_to_129" } else { "n_1_to_17" });
    let vals: Vec<String> = if ctor == "new" { vec![T::gen_val(rng, &style)] } else { (0..n).map(|_| T::gen_val(rng, &style)).collect() };
    let mut shadow: Vec<T> = if ctor == "new" {
        vec![T::parse_val(&vals[0]).unwrap(); n]
    } else {
        vals.iter().map(|v| T::parse_val(v).unwrap()).collect()
    };
    let mut tags = Tags::new(n);
    let nops = if big { 8 + rng.below(40) } else { 4 + rng.below(60) } as usize;
    let w = weights(focus, n);
    let total: u64 = w.iter().sum();
    let mut line = format!("{} {} {} {}", name, ctor, n, vals.join(" "));
    for _ in 0..nops {
        let mut x = rng.below(total);
        let mut k = 0;
        while x >= w[k] {
            x -= w[k];
            k += 1;
        }
        tags.crossed = 0;
        match k {
            0 => {
                let i = rng.below(n as u64) as usize;
                let v = T::gen_val(rng, &style);
                shadow[i] = T::parse_val(&v).unwrap();
                tags.set(i, 0, 0, n - 1);
                st.bump("op_set");
                if tags.crossed > 0 {
                    st.bump("set_pushed_pending_tag");
                }
                line.push_str(&format!(" ; set {} {}", i, v));
            }
            1 => {
                let (l, r) = pick_range(rng, n);
                let mt = T::gen_mod(rng, &style);
                let toks: Vec<&str> = mt.split_whitespace().collect();
                let m = T::parse_mod(&toks).unwrap();
                for e in shadow[l..=r].iter_mut() {
                    e.modify(&m);
                }
                tags.range(l, r, Some(!T::mod_identity(&m)), 0, 0, n - 1);
                st.bump("op_modify");
                if tags.crossed > 0 {
                    st.bump("modify_pushed_pending_tag");
                }
                line.push_str(&format!(" ; mod {} {} {}", l, r, mt));
            }
            2 => {
                let (l, r) = pick_range(rng, n);
                tags.range(l, r, None, 0, 0, n - 1);
                st.bump("op_ask");
                if tags.crossed > 0 {
                    st.bump("ask_pushed_pending_tag");
                }
                line.push_str(&format!(" ; ask {} {}", l, r));
            }
            3 | 4 => {
                let rev = k == 4;
                let pos = rng.below(n as u64) as usize;
                let (aggs, elems) = dir_aggs(&shadow, pos, rev);
                let pt = T::gen_pred(rng, &aggs, &elems, rev);
                let toks: Vec<&str> = pt.split_whitespace().collect();
                let pred = T::parse_pred(&toks).unwrap_or_else(|| panic!("generated predicate does not parse: {}", pt));
                let flags: Vec<bool> = aggs.iter().map(|a| pred(a)).collect();
                let found = if rev { tags.lbr(&flags, pos, pos, 0, 0, n - 1) } else { tags.lb(&flags, pos, pos, 0, 0, n - 1) };
                let nm = if rev { "lbr" } else { "lb" };
                st.bump(&format!("op_{}", nm));
                st.bump(&format!("pred_{}", toks[0]));
                if tags.crossed > 0 {
                    st.bump(&format!("{}_pushed_pending_tag", nm));
                }
                if !monotone(&flags) {
                    st.bump("search_predicate_not_monotone_here");
                } else {
                    st.bump(if found { "search_answer_some" } else { "search_answer_none" });
                }
                line.push_str(&format!(" ; {} {} {}", nm, pos, pt));
            }
            _ => {
                for i in 0..n {
                    tags.range(i, i, None, 0, 0, n - 1);
                }
                st.bump("op_dbg");
                line.push_str(" ; dbg");
            }
        }
    }
    // close with the single-element asks ("observe_at": single-element asks after any history)
    if rng.chance(1, 2) {
        let i = rng.below(n as u64) as usize;
        line.push_str(&format!(" ; ask {} {}", i, i));
        st.bump("op_ask");
    }
    line
}

const ITEMS: [&str; 11] = ["min", "max", "sum", "minadd", "maxadd", "sumadd", "mm", "smm", "aff", "aa", "str"];

fn gen_one(item: &str, rng: &mut SplitMix64, focus: &str, st: &mut Stats, big: bool) -> String {
    match item {
        "min" => gen_history::<Min<i64>>(item, rng, focus, st, big),
        "max" => gen_history::<Max<i64>>(item, rng, focus, st, big),
        "sum" => gen_history::<Sum<i64>>(item, rng, focus, st, big),
        "minadd" => gen_history::<MinAdd<i64>>(item, rng, focus, st, big),
        "maxadd" => gen_history::<MaxAdd<i64>>(item, rng, focus, st, big),
        "sumadd" => gen_history::<SumAdd<i64>>(item, rng, focus, st, big),
        "mm" => gen_history::<MM>(item, rng, focus, st, big),
        "smm" => gen_history::<SMM>(item, rng, focus, st, big),
        "aff" => gen_history::<AffHash>(item, rng, focus, st, big),
        "aa" => gen_history::<AA>(item, rng, focus, st, big),
        _ => gen_history::<StrCat>(item, rng, focus, st, big),
    }
}

/// every history of exactly `len` ops over the alphabet `ops`, closed by `dbg`
fn exhaustive(hdr: &str, ops: &[String], len: usize, emit: &mut dyn FnMut(String), st: &mut Stats, key: &str) {
    let mut idx = vec![0usize; len];
    loop {
        let mut line = hdr.to_string();
        for &k in &idx {
            line.push_str(" ; ");
            line.push_str(&ops[k]);
        }
        line.push_str(" ; dbg");
        emit(line);
        st.bump(key);
        let mut p = len;
        loop {
            if p == 0 {
                return;
            }
            p -= 1;
            idx[p] += 1;
            if idx[p] < ops.len() {
                break;
            }
            idx[p] = 0;
        }
    }
}

fn alphabet(item: &str, n: usize, searches: bool) -> Vec<String> {
    let (vals, mods, pf, pr): (&[&str], &[&str], &str, &str) = if item == "aff" {
        (&["7"], &["2 1", "0 5"], "T", "T")
    } else {
        (&["c"], &["0 1", "1 4"], "slen 2", "slen 2")
    };
    let mut ops = Vec::new();
    for i in 0..n {
        for v in vals {
            ops.push(format!("set {} {}", i, v));
        }
    }
    for l in 0..n {
        for r in l..n {
            for m in mods {
                ops.push(format!("mod {} {} {}", l, r, m));
            }
            ops.push(format!("ask {} {}", l, r));
        }
    }
    if searches {
        for p in 0..n {
            ops.push(format!("lb {} {}", p, pf));
            ops.push(format!("lbr {} {}", p, pr));
        }
    }
    ops
}

fn gen(args: &Args, emit: &mut dyn FnMut(String), st: &mut Stats) {
    let thorough = args.tier == "thorough";
    let focus = args.extra.get("focus").cloned().unwrap_or_else(|| "C01".to_string());
    let mut rng = SplitMix64::new(args.seed ^ if focus == "C02" { 0xC02 } else { 0xC01 });
    // (1) exhaustive small scope on the two non-commutative items with a two-element modifier alphabet
    //     (non-commuting modifiers): every interleaving of push / merge on tiny trees
    for item in ["aff", "str"] {
        let init = |n: usize| -> String {
            let v: Vec<&str> = if item == "aff" { vec!["1", "2", "3", "4"] } else { vec!["a", "b", "ab", "d"] };
            format!("{} slice {} {}", item, n, v[..n].join(" "))
        };
        let searches = focus == "C02";
        for n in 1..=4usize {
            let full = alphabet(item, n, true);
            let lens: &[usize] = if thorough { &[1, 2, 3] } else { &[1, 2] };
            for &len in lens {
                if len == 3 && n == 4 && !thorough {
                    continue;
                }
                exhaustive(&init(n), &full, len, emit, st, "exhaustive_small_scope_histories");
            }
        }
        // longer histories over a reduced alphabet (with the searches when the focus is C02)
        let n3 = alphabet(item, 3, searches);
        exhaustive(&init(3), &n3, if thorough { 4 } else { 3 }, emit, st, "exhaustive_small_scope_histories");
        let n2 = alphabet(item, 2, searches);
        let len2 = match (thorough, searches) {
            (true, false) => 5,
            (true, true) | (false, false) => 4,
            (false, true) => 3,
        };
        exhaustive(&init(2), &n2, len2, emit, st, "exhaustive_small_scope_histories");
    }
    // (2) random structured histories
    // searches are the expensive part of the Lean side (the specification tries every candidate index afresh)
    let count = if thorough { if focus == "C02" { 120_000 } else { 200_000 } } else if focus == "C02" { 3_000 } else { 3_500 };
    for c in 0..count {
        // the lazy and the non-commutative items get more weight
        let item = match rng.below(18) {
            0 => "min",
            1 => "max",
            2 => "sum",
            3 | 4 => "minadd",
            5 => "maxadd",
            6 | 7 => "sumadd",
            8 | 9 => "mm",
            10 => "smm",
            11 | 12 | 13 => "aff",
            14 | 15 => "aa",
            _ => "str",
        };
        let big = c % 8 == 7;
        emit(gen_one(item, &mut rng, &focus, st, big));
        st.bump("random_histories");
    }
    // every item × constructor × boundary size at least once
    for item in ITEMS {
        for _ in 0..(if thorough { 12 } else { 2 }) {
            emit(gen_one(item, &mut rng, &focus, st, true));
            st.bump("random_histories");
        }
    }
    // (3) out-of-domain stream: the asserts of the public API (the model mirrors them), empty constructors
    for item in ["minadd", "aff", "sum"] {
        let v = "1 2 3";
        emit(format!("{} slice 3 {} ; ask 2 1 ; ask 0 3 ; set 3 1 ; mod 2 1 {} ; mod 1 3 {} ; ask 0 2", item, v,
                     if item == "aff" { "1 1" } else if item == "sum" { "u" } else { "1" },
                     if item == "aff" { "1 1" } else if item == "sum" { "u" } else { "1" }));
        emit(format!("{} new 0 1 ; ask 0 0", item));
        emit(format!("{} slice 0 ; ask 0 0", item));
        emit(format!("{} iter 0 ; ask 0 0", item));
        st.add("out_of_domain_asserts", 4);
    }
}

fn main() {
    cli(gen, run_case);
}
