//! Correspondence harness for engine `segtree` (properties C01, C02): drives the real
//! `rlib_segtree::Segtree` with the six built-in items at `i64`, three `Combinator` nestings and the two exotic
//! lawful items of `items.rs`, on operation histories `item ctor n v.. ; op ; op ; ...`; the six built-in items and two
//! nestings also at unsigned / narrow element types with values at the types' extremes (`typed.rs`, item tokens
//! `min:u8`, `mm:u32`, ...), and the trait constants of `rlib_num_traits` themselves (`const <type>`).
//! Element types whose equal-comparing values are distinguishable — a record ordered by key, `f64` / `f32` — and `Sum` over a
//! non-commutative `+` are in `keyed.rs` (`min:rec`, `max:f64`, `sum:cat`, ...).
//!
//! Wave 4: `ap` / `apap` (a lazy item whose `push` treats its children differently, alone and as both components of a
//! `Combinator`; elements are placed by index), element tokens `_` (`Default::default()` as an element) and `v#len[@md]` (a
//! `SumAdd` element of length 0 / 2 / 3), `* v1 .. vk` (constructor values as a cycle: trees of 2^20 + 1 / 2^21 elements), and the
//! ` dbg!` marker (`debug()` must be the `{:?}` of the `n` single-element asks).
//!
//! History ops beyond the API's own: `dfl` (`Default::default()`), `cp` / `x` / `y` (a value the API returned is fed back into
//! `set` of the same tree / of a second live tree / into a constructor), a `b` prefix (the op addresses the second live tree,
//! which is one element longer); every returned item is additionally put through `clone` / `clone_from` (fresh and used
//! destination), constructors `iterp` / `iterr` hand `from_iter` a partially consumed / a reversed `ExactSizeIterator`.
//!
//! Wave 5: `nlb` / `nlbr` = `lb` / `lbr` with a RE-ENTRANT predicate (at every probe the closure calls into the other live tree
//! and into harness-private mirrors of both trees before it answers; see `nested_search`); expected output = that of the plain op.
//!
//! raw  = `{:?}` of every returned item / answer + `{:?}` of every probe of a search / the `debug()` string
//! view = observable value (`.v`, `(.v,.len)`, ...) of an `ask`; for a search: answer (or `nm` when the predicate is
//!        not monotone on the plain shadow vector: outside C02's domain), the observable values of all probes in call
//!        order, and `P` when every probe equals the aggregate of a range of the shadow vector starting at `l`
//!        (ending at `r`); `ood` for `set`/`modify`/`ask` outside `0 <= l <= r < n` (outside the stated domain).
//!
//! The shadow vector and its range aggregates are computed with the harness's **own plain implementation** of every
//! item's observable algebra (`o_op`, `o_act`, `o_dflt` below) — never with the `merge`/`modify`/`default` of the
//! implementation under test.
#[path = "../../common/mod.rs"]
mod common;
mod items;
mod keyed;
mod typed;
use common::*;
use items::*;
use keyed::*;
use rlib_segtree::segtree_items::{Combinator, Max, MaxAdd, Min, MinAdd, Sum, SumAdd};
use rlib_segtree::{Segtree, SegtreeItem};
use std::cell::RefCell;
use std::fmt::Debug;
use typed::*;

type MM = Combinator<MinAdd<i64>, MaxAdd<i64>>;
type SMM = Combinator<Combinator<SumAdd<i64>, MinAdd<i64>>, MaxAdd<i64>>;
/// a `Combinator` whose components both have a non-commutative merge
type AA = Combinator<AffHash, AffHash>;

/// value / modifier magnitudes of one generated history
#[derive(Clone)]
struct Style {
    vlo: i64,
    vhi: i64,
    mlo: i64,
    mhi: i64,
}

trait HItem: SegtreeItem<Self::M> + Clone + Default + Debug + 'static {
    type M: Debug + Clone;
    /// the harness's own plain observable value of an item / an aggregate
    type O: Clone + PartialEq + 'static;
    /// `v` or `v@md`: an element may carry a (meaningless, for a leaf) pending modifier of its own, e.g. when it is a
    /// snapshot taken with `ask(i, i)` from another tree
    fn parse_val(tok: &str) -> Option<Self>;
    fn parse_mod(toks: &[&str]) -> Option<Self::M>;
    /// read the observable value off the public fields of the real item
    fn obs(&self) -> Self::O;
    /// raw rendering of an item: `{:?}`, except for the float instantiations (bit patterns instead of decimal digits)
    const CUSTOM_RAW: bool = false;
    fn raw(&self) -> String {
        format!("{:?}", self)
    }
    // ---- plain re-implementation of the observable algebra (independent oracle) ----
    fn o_dflt() -> Self::O;
    fn o_op(a: &Self::O, b: &Self::O) -> Self::O;
    fn o_act(m: &Self::M, a: &Self::O) -> Self::O;
    fn o_view(o: &Self::O) -> String;
    /// predicate on observable values; the closure given to the real tree is `|x| g(&x.obs())`
    fn parse_pred(toks: &[&str]) -> Option<Box<dyn Fn(&Self::O) -> bool>>;
    // ---- generation ----
    fn gen_val(rng: &mut SplitMix64, st: &Style) -> String;
    fn gen_mod(rng: &mut SplitMix64, st: &Style) -> String;
    fn mod_identity(m: &Self::M) -> bool;
    /// the element as it is stored at index `i` (only the positional item `ap` uses it: an element's position is its index)
    fn place(self, _i: usize) -> Self {
        self
    }
    /// positional items keep "the i-th element has position i": no `new`, no second (longer) tree, no copied aggregates
    const POSITIONAL: bool = false;
    /// `Default::default()` may be stored as an element (`_`): an empty slot that no modifier can overflow
    const DEFAULT_ELEM: bool = false;
    /// modifier for a range that starts at `l` (positional modifiers are usually anchored at the start of their range)
    fn gen_mod_at(rng: &mut SplitMix64, st: &Style, _l: usize) -> String {
        Self::gen_mod(rng, st)
    }
    /// `elems[k]` = k-th element in search direction, `aggs[k]` = aggregate after k+1 elements
    fn gen_pred(rng: &mut SplitMix64, aggs: &[Self::O], elems: &[Self::O], rev: bool) -> String;
}

type Pred<O> = Box<dyn Fn(&O) -> bool>;

fn pred_const<O: 'static>(toks: &[&str]) -> Option<Pred<O>> {
    match toks {
        ["T"] => Some(Box::new(|_| true)),
        ["F"] => Some(Box::new(|_| false)),
        _ => None,
    }
}

fn int_tok(toks: &[&str], name: &str) -> Option<i64> {
    if toks.len() == 2 && toks[0] == name {
        toks[1].parse::<i64>().ok()
    } else {
        None
    }
}

fn around(rng: &mut SplitMix64, x: i64) -> i64 {
    x.clamp(-(1 << 42), 1 << 42) + rng.range_i64(-1, 1)
}

fn pick_const(rng: &mut SplitMix64) -> Option<String> {
    match rng.below(12) {
        0 => Some("T".into()),
        1 => Some("F".into()),
        _ => None,
    }
}

/// an element token: `_` is `Default::default()` (an empty slot: `SumAdd { len: 0 }`, the empty string, ...), anything else
/// the item's own value syntax
fn parse_elem<T: HItem>(tok: &str) -> Option<T> {
    if tok == "_" {
        Some(T::default())
    } else {
        T::parse_val(tok)
    }
}

/// `v`, `v@md`, `v#len`, `v#len@md`: the fields of a `SumAdd` element (`len` defaults to 1)
fn sumadd_fields(tok: &str) -> Option<(i64, Option<i64>, Option<i64>)> {
    let (vl, md) = match tok.split_once('@') {
        None => (tok, None),
        Some((vl, m)) => (vl, Some(m.parse::<i64>().ok()?)),
    };
    let (v, len) = match vl.split_once('#') {
        None => (vl, None),
        Some((v, k)) => (v, Some(k.parse::<u32>().ok()? as i64)),
    };
    Some((v.parse::<i64>().ok()?, len, md))
}

/// `v` / `v@md` for the integer items; plain values go through the item's own `From<i64>`
fn int_val<T>(tok: &str, plain: fn(i64) -> T, lazy: Option<fn(i64, i64) -> T>) -> Option<T> {
    match tok.split_once('@') {
        None => Some(plain(tok.parse::<i64>().ok()?)),
        Some((v, m)) => Some(lazy?(v.parse::<i64>().ok()?, m.parse::<i64>().ok()?)),
    }
}

/// `SumAdd` elements: one in eight has a length other than 1 (`#0`: an empty slot, `#2` / `#3`: a weighted element)
fn gen_sumadd_val(rng: &mut SplitMix64, st: &Style) -> String {
    let v = rng.range_i64(st.vlo, st.vhi);
    let len = if rng.chance(1, 8) { format!("#{}", [0, 0, 2, 3][rng.below(4) as usize]) } else { String::new() };
    if rng.chance(1, 6) {
        format!("{}{}@{}", v, len, rng.range_i64(st.mlo, st.mhi))
    } else {
        format!("{}{}", v, len)
    }
}

fn gen_int_val(rng: &mut SplitMix64, st: &Style, lazy: bool) -> String {
    let v = rng.range_i64(st.vlo, st.vhi);
    if lazy && rng.chance(1, 6) {
        format!("{}@{}", v, rng.range_i64(st.mlo, st.mhi))
    } else {
        v.to_string()
    }
}

macro_rules! unit_mod {
    () => {
        type M = ();
        fn parse_mod(toks: &[&str]) -> Option<()> {
            if toks == ["u"] {
                Some(())
            } else {
                None
            }
        }
        fn gen_mod(_rng: &mut SplitMix64, _st: &Style) -> String {
            "u".into()
        }
        fn mod_identity(_m: &()) -> bool {
            true
        }
    };
}

macro_rules! int_mod {
    () => {
        type M = i64;
        fn parse_mod(toks: &[&str]) -> Option<i64> {
            if toks.len() == 1 {
                toks[0].parse::<i64>().ok()
            } else {
                None
            }
        }
        fn gen_mod(rng: &mut SplitMix64, st: &Style) -> String {
            rng.range_i64(st.mlo, st.mhi).to_string()
        }
        fn mod_identity(m: &i64) -> bool {
            *m == 0
        }
    };
}

fn pred_lt(toks: &[&str]) -> Option<Pred<i64>> {
    if let Some(c) = int_tok(toks, "lt") {
        return Some(Box::new(move |x: &i64| *x < c));
    }
    pred_const(toks)
}
fn pred_gt(toks: &[&str]) -> Option<Pred<i64>> {
    if let Some(c) = int_tok(toks, "gt") {
        return Some(Box::new(move |x: &i64| *x > c));
    }
    pred_const(toks)
}
fn gen_lt(rng: &mut SplitMix64, aggs: &[i64]) -> String {
    pick_const(rng).unwrap_or_else(|| {
        let x = *rng.pick(aggs);
        format!("lt {}", around(rng, x) + 1)
    })
}
fn gen_gt(rng: &mut SplitMix64, aggs: &[i64]) -> String {
    pick_const(rng).unwrap_or_else(|| {
        let x = *rng.pick(aggs);
        format!("gt {}", around(rng, x) - 1)
    })
}

impl HItem for Min<i64> {
    unit_mod!();
    const DEFAULT_ELEM: bool = true;
    type O = i64;
    fn parse_val(tok: &str) -> Option<Self> {
        int_val(tok, Min::from, None)
    }
    fn obs(&self) -> i64 {
        self.v
    }
    fn o_dflt() -> i64 {
        i64::MAX
    }
    fn o_op(a: &i64, b: &i64) -> i64 {
        *a.min(b)
    }
    fn o_act(_m: &(), a: &i64) -> i64 {
        *a
    }
    fn o_view(o: &i64) -> String {
        o.to_string()
    }
    fn parse_pred(toks: &[&str]) -> Option<Pred<i64>> {
        pred_lt(toks)
    }
    fn gen_val(rng: &mut SplitMix64, st: &Style) -> String {
        gen_int_val(rng, st, false)
    }
    fn gen_pred(rng: &mut SplitMix64, aggs: &[i64], _e: &[i64], _rev: bool) -> String {
        gen_lt(rng, aggs)
    }
}

impl HItem for Max<i64> {
    unit_mod!();
    const DEFAULT_ELEM: bool = true;
    type O = i64;
    fn parse_val(tok: &str) -> Option<Self> {
        int_val(tok, Max::from, None)
    }
    fn obs(&self) -> i64 {
        self.v
    }
    fn o_dflt() -> i64 {
        i64::MIN
    }
    fn o_op(a: &i64, b: &i64) -> i64 {
        *a.max(b)
    }
    fn o_act(_m: &(), a: &i64) -> i64 {
        *a
    }
    fn o_view(o: &i64) -> String {
        o.to_string()
    }
    fn parse_pred(toks: &[&str]) -> Option<Pred<i64>> {
        pred_gt(toks)
    }
    fn gen_val(rng: &mut SplitMix64, st: &Style) -> String {
        gen_int_val(rng, st, false)
    }
    fn gen_pred(rng: &mut SplitMix64, aggs: &[i64], _e: &[i64], _rev: bool) -> String {
        gen_gt(rng, aggs)
    }
}

impl HItem for Sum<i64> {
    unit_mod!();
    const DEFAULT_ELEM: bool = true;
    type O = i64;
    fn parse_val(tok: &str) -> Option<Self> {
        int_val(tok, Sum::from, None)
    }
    fn obs(&self) -> i64 {
        self.v
    }
    fn o_dflt() -> i64 {
        0
    }
    fn o_op(a: &i64, b: &i64) -> i64 {
        a + b
    }
    fn o_act(_m: &(), a: &i64) -> i64 {
        *a
    }
    fn o_view(o: &i64) -> String {
        o.to_string()
    }
    fn parse_pred(toks: &[&str]) -> Option<Pred<i64>> {
        if let Some(c) = int_tok(toks, "ge") {
            return Some(Box::new(move |x: &i64| *x >= c));
        }
        pred_const(toks)
    }
    fn gen_val(rng: &mut SplitMix64, st: &Style) -> String {
        gen_int_val(rng, st, false)
    }
    fn gen_pred(rng: &mut SplitMix64, aggs: &[i64], _e: &[i64], _rev: bool) -> String {
        pick_const(rng).unwrap_or_else(|| {
            let x = *rng.pick(aggs);
            format!("ge {}", around(rng, x))
        })
    }
}

impl HItem for MinAdd<i64> {
    int_mod!();
    type O = i64;
    fn parse_val(tok: &str) -> Option<Self> {
        int_val(tok, MinAdd::from, Some(|v, md| MinAdd { v, md }))
    }
    fn obs(&self) -> i64 {
        self.v
    }
    fn o_dflt() -> i64 {
        i64::MAX
    }
    fn o_op(a: &i64, b: &i64) -> i64 {
        *a.min(b)
    }
    fn o_act(m: &i64, a: &i64) -> i64 {
        a + m
    }
    fn o_view(o: &i64) -> String {
        o.to_string()
    }
    fn parse_pred(toks: &[&str]) -> Option<Pred<i64>> {
        pred_lt(toks)
    }
    fn gen_val(rng: &mut SplitMix64, st: &Style) -> String {
        gen_int_val(rng, st, true)
    }
    fn gen_pred(rng: &mut SplitMix64, aggs: &[i64], _e: &[i64], _rev: bool) -> String {
        gen_lt(rng, aggs)
    }
}

impl HItem for MaxAdd<i64> {
    int_mod!();
    type O = i64;
    fn parse_val(tok: &str) -> Option<Self> {
        int_val(tok, MaxAdd::from, Some(|v, md| MaxAdd { v, md }))
    }
    fn obs(&self) -> i64 {
        self.v
    }
    fn o_dflt() -> i64 {
        i64::MIN
    }
    fn o_op(a: &i64, b: &i64) -> i64 {
        *a.max(b)
    }
    fn o_act(m: &i64, a: &i64) -> i64 {
        a + m
    }
    fn o_view(o: &i64) -> String {
        o.to_string()
    }
    fn parse_pred(toks: &[&str]) -> Option<Pred<i64>> {
        pred_gt(toks)
    }
    fn gen_val(rng: &mut SplitMix64, st: &Style) -> String {
        gen_int_val(rng, st, true)
    }
    fn gen_pred(rng: &mut SplitMix64, aggs: &[i64], _e: &[i64], _rev: bool) -> String {
        gen_gt(rng, aggs)
    }
}

impl HItem for SumAdd<i64> {
    int_mod!();
    /// (sum, number of elements)
    type O = (i64, i64);
    const DEFAULT_ELEM: bool = true;
    fn parse_val(tok: &str) -> Option<Self> {
        // plain values through the item's own `From<i64>`; `v#len` / `v@md` through struct literals (public fields)
        Some(match sumadd_fields(tok)? {
            (v, None, None) => SumAdd::from(v),
            (v, len, md) => SumAdd { v, len: len.unwrap_or(1), md: md.unwrap_or(0) },
        })
    }
    fn obs(&self) -> (i64, i64) {
        (self.v, self.len)
    }
    fn o_dflt() -> (i64, i64) {
        (0, 0)
    }
    fn o_op(a: &(i64, i64), b: &(i64, i64)) -> (i64, i64) {
        (a.0 + b.0, a.1 + b.1)
    }
    fn o_act(m: &i64, a: &(i64, i64)) -> (i64, i64) {
        (a.0 + m * a.1, a.1)
    }
    fn o_view(o: &(i64, i64)) -> String {
        format!("({},{})", o.0, o.1)
    }
    fn parse_pred(toks: &[&str]) -> Option<Pred<(i64, i64)>> {
        if let Some(c) = int_tok(toks, "ge") {
            return Some(Box::new(move |x: &(i64, i64)| x.0 >= c));
        }
        if let Some(c) = int_tok(toks, "len") {
            return Some(Box::new(move |x: &(i64, i64)| x.1 >= c));
        }
        pred_const(toks)
    }
    fn gen_val(rng: &mut SplitMix64, st: &Style) -> String {
        gen_sumadd_val(rng, st)
    }
    fn gen_pred(rng: &mut SplitMix64, aggs: &[(i64, i64)], _e: &[(i64, i64)], _rev: bool) -> String {
        pick_const(rng).unwrap_or_else(|| {
            if rng.chance(1, 4) {
                format!("len {}", rng.range_i64(1, aggs.len() as i64 + 1))
            } else {
                let x = rng.pick(aggs).0;
                format!("ge {}", around(rng, x))
            }
        })
    }
}

impl HItem for MM {
    int_mod!();
    /// (min, max)
    type O = (i64, i64);
    fn parse_val(tok: &str) -> Option<Self> {
        int_val(tok, MM::from, Some(|v, md| Combinator(MinAdd { v, md }, MaxAdd { v, md })))
    }
    fn obs(&self) -> (i64, i64) {
        (self.0.v, self.1.v)
    }
    fn o_dflt() -> (i64, i64) {
        (i64::MAX, i64::MIN)
    }
    fn o_op(a: &(i64, i64), b: &(i64, i64)) -> (i64, i64) {
        (a.0.min(b.0), a.1.max(b.1))
    }
    fn o_act(m: &i64, a: &(i64, i64)) -> (i64, i64) {
        (a.0 + m, a.1 + m)
    }
    fn o_view(o: &(i64, i64)) -> String {
        format!("({},{})", o.0, o.1)
    }
    fn parse_pred(toks: &[&str]) -> Option<Pred<(i64, i64)>> {
        if let Some(c) = int_tok(toks, "lt") {
            return Some(Box::new(move |x: &(i64, i64)| x.0 < c));
        }
        if let Some(c) = int_tok(toks, "gt") {
            return Some(Box::new(move |x: &(i64, i64)| x.1 > c));
        }
        if let Some(c) = int_tok(toks, "spread") {
            return Some(Box::new(move |x: &(i64, i64)| x.1 as i128 - x.0 as i128 >= c as i128));
        }
        pred_const(toks)
    }
    fn gen_val(rng: &mut SplitMix64, st: &Style) -> String {
        gen_int_val(rng, st, true)
    }
    fn gen_pred(rng: &mut SplitMix64, aggs: &[(i64, i64)], _e: &[(i64, i64)], _rev: bool) -> String {
        pick_const(rng).unwrap_or_else(|| {
            let a = *rng.pick(aggs);
            match rng.below(3) {
                0 => format!("lt {}", around(rng, a.0) + 1),
                1 => format!("gt {}", around(rng, a.1) - 1),
                _ => format!("spread {}", around(rng, (a.1 as i128 - a.0 as i128).clamp(-(1 << 42), 1 << 42) as i64)),
            }
        })
    }
}

impl HItem for SMM {
    int_mod!();
    /// (sum, number of elements, min, max)
    type O = (i64, i64, i64, i64);
    fn parse_val(tok: &str) -> Option<Self> {
        Some(match sumadd_fields(tok)? {
            (v, None, None) => SMM::from(v),
            (v, len, md) => {
                let md = md.unwrap_or(0);
                Combinator(Combinator(SumAdd { v, len: len.unwrap_or(1), md }, MinAdd { v, md }), MaxAdd { v, md })
            }
        })
    }
    fn obs(&self) -> Self::O {
        (self.0 .0.v, self.0 .0.len, self.0 .1.v, self.1.v)
    }
    fn o_dflt() -> Self::O {
        (0, 0, i64::MAX, i64::MIN)
    }
    fn o_op(a: &Self::O, b: &Self::O) -> Self::O {
        (a.0 + b.0, a.1 + b.1, a.2.min(b.2), a.3.max(b.3))
    }
    fn o_act(m: &i64, a: &Self::O) -> Self::O {
        (a.0 + m * a.1, a.1, a.2 + m, a.3 + m)
    }
    fn o_view(o: &Self::O) -> String {
        format!("((({},{}),{}),{})", o.0, o.1, o.2, o.3)
    }
    fn parse_pred(toks: &[&str]) -> Option<Pred<Self::O>> {
        if let Some(c) = int_tok(toks, "ge") {
            return Some(Box::new(move |x: &Self::O| x.0 >= c));
        }
        if let Some(c) = int_tok(toks, "len") {
            return Some(Box::new(move |x: &Self::O| x.1 >= c));
        }
        if let Some(c) = int_tok(toks, "lt") {
            return Some(Box::new(move |x: &Self::O| x.2 < c));
        }
        if let Some(c) = int_tok(toks, "gt") {
            return Some(Box::new(move |x: &Self::O| x.3 > c));
        }
        pred_const(toks)
    }
    fn gen_val(rng: &mut SplitMix64, st: &Style) -> String {
        gen_sumadd_val(rng, st)
    }
    fn gen_pred(rng: &mut SplitMix64, aggs: &[Self::O], _e: &[Self::O], _rev: bool) -> String {
        pick_const(rng).unwrap_or_else(|| {
            let a = *rng.pick(aggs);
            match rng.below(4) {
                0 => format!("ge {}", around(rng, a.0)),
                1 => format!("len {}", rng.range_i64(1, aggs.len() as i64 + 1)),
                2 => format!("lt {}", around(rng, a.2) + 1),
                _ => format!("gt {}", around(rng, a.3) - 1),
            }
        })
    }
}

// ---- affHash: plain polynomial hash arithmetic, written again here (not the item's own merge/modify) ----

type AffO = (i64, i64, i64);

fn aff_o_op(a: &AffO, b: &AffO) -> AffO {
    let h = ((a.0 as i128 * b.1 as i128 + b.0 as i128) % P as i128) as i64;
    let pw = ((a.1 as i128 * b.1 as i128) % P as i128) as i64;
    let s = ((a.2 as i128 * b.1 as i128 + b.2 as i128) % P as i128) as i64;
    (h, pw, s)
}
fn aff_o_act(m: &(i64, i64), a: &AffO) -> AffO {
    (((m.0 as i128 * a.0 as i128 + m.1 as i128 * a.2 as i128) % P as i128) as i64, a.1, a.2)
}
fn aff_o_view(o: &AffO) -> String {
    format!("({},{},{})", o.0, o.1, o.2)
}

/// `(hash, B^k)` of every prefix (suffix) of `w`
fn aff_prefixes(w: &[i64]) -> Vec<(i64, i64)> {
    let mut out = vec![(0, 1)];
    let (mut h, mut pw) = (0i64, 1i64);
    for x in w {
        h = (h * B + x.rem_euclid(P)) % P;
        pw = (pw * B) % P;
        out.push((h, pw));
    }
    out
}
fn aff_suffixes(w: &[i64]) -> Vec<(i64, i64)> {
    let mut out = vec![(0, 1)];
    let (mut h, mut pw) = (0i64, 1i64);
    for x in w.iter().rev() {
        h = (x.rem_euclid(P) * pw + h) % P;
        pw = (pw * B) % P;
        out.push((h, pw));
    }
    out
}

/// `x` or `x@a:b`
fn parse_aff_val(tok: &str) -> Option<(i64, Option<(i64, i64)>)> {
    match tok.split_once('@') {
        None => Some((tok.parse().ok()?, None)),
        Some((x, m)) => {
            let (a, b) = m.split_once(':')?;
            Some((x.parse().ok()?, Some((a.parse().ok()?, b.parse().ok()?))))
        }
    }
}
fn mk_aff(x: i64, md: Option<(i64, i64)>) -> AffHash {
    match md {
        None => AffHash::from(x),
        Some(_) => AffHash { h: x.rem_euclid(P), pw: B, s: 1, md },
    }
}
fn gen_aff_val(rng: &mut SplitMix64, st: &Style) -> String {
    let x = rng.range_i64(0, st.vhi.max(1));
    if rng.chance(1, 6) {
        format!("{}@{}:{}", x, rng.range_i64(0, 9), rng.range_i64(0, 9))
    } else {
        x.to_string()
    }
}
fn parse_aff_mod(toks: &[&str]) -> Option<(i64, i64)> {
    if toks.len() == 2 {
        Some((toks[0].parse().ok()?, toks[1].parse().ok()?))
    } else {
        None
    }
}
fn gen_aff_mod(rng: &mut SplitMix64, st: &Style) -> String {
    // x -> a*x + b: assignments (a = 0), additions (a = 1), identity, general affine maps
    let big = st.mhi > 1000;
    let hi = if big { P - 1 } else { 9 };
    match rng.below(8) {
        0 => format!("0 {}", rng.range_i64(0, hi)),
        1 => format!("1 {}", rng.range_i64(0, hi)),
        2 => "1 0".to_string(),
        _ => format!("{} {}", rng.range_i64(0, hi), rng.range_i64(0, hi)),
    }
}

fn parse_commas(s: &str) -> Option<Vec<i64>> {
    if s == "-" {
        return Some(vec![]);
    }
    s.split(',').map(|t| t.parse::<i64>().ok()).collect()
}

fn gen_aff_word(rng: &mut SplitMix64, hs: &[i64], rev: bool) -> String {
    // the first j elements in search direction, then (usually) one that differs
    let j = rng.below(hs.len() as u64 + 1) as usize;
    let mut w: Vec<i64> = hs[..j].to_vec();
    if j < hs.len() && rng.chance(7, 8) {
        w.push((hs[j] + 1 + rng.below(5) as i64) % P);
    }
    if w.is_empty() {
        return "-".into();
    }
    if rev {
        w.reverse();
    }
    let s: Vec<String> = w.iter().map(|x| x.to_string()).collect();
    s.join(",")
}

impl HItem for AffHash {
    type M = (i64, i64);
    const DEFAULT_ELEM: bool = true;
    type O = AffO;
    fn parse_val(tok: &str) -> Option<Self> {
        let (x, md) = parse_aff_val(tok)?;
        Some(mk_aff(x, md))
    }
    fn parse_mod(toks: &[&str]) -> Option<(i64, i64)> {
        parse_aff_mod(toks)
    }
    fn obs(&self) -> AffO {
        (self.h, self.pw, self.s)
    }
    fn o_dflt() -> AffO {
        (0, 1, 0)
    }
    fn o_op(a: &AffO, b: &AffO) -> AffO {
        aff_o_op(a, b)
    }
    fn o_act(m: &(i64, i64), a: &AffO) -> AffO {
        aff_o_act(m, a)
    }
    fn o_view(o: &AffO) -> String {
        aff_o_view(o)
    }
    fn parse_pred(toks: &[&str]) -> Option<Pred<AffO>> {
        if toks.len() == 2 && (toks[0] == "npre" || toks[0] == "nsuf") {
            let w = parse_commas(toks[1])?;
            let set = if toks[0] == "npre" { aff_prefixes(&w) } else { aff_suffixes(&w) };
            return Some(Box::new(move |x: &AffO| !set.contains(&(x.0, x.1))));
        }
        pred_const(toks)
    }
    fn gen_val(rng: &mut SplitMix64, st: &Style) -> String {
        gen_aff_val(rng, st)
    }
    fn gen_mod(rng: &mut SplitMix64, st: &Style) -> String {
        gen_aff_mod(rng, st)
    }
    fn mod_identity(m: &(i64, i64)) -> bool {
        *m == (1, 0)
    }
    fn gen_pred(rng: &mut SplitMix64, _aggs: &[AffO], elems: &[AffO], rev: bool) -> String {
        pick_const(rng).unwrap_or_else(|| {
            let hs: Vec<i64> = elems.iter().map(|e| e.0).collect();
            format!("{} {}", if rev { "nsuf" } else { "npre" }, gen_aff_word(rng, &hs, rev))
        })
    }
}

impl HItem for AA {
    type M = (i64, i64);
    const DEFAULT_ELEM: bool = true;
    type O = (AffO, AffO);
    fn parse_val(tok: &str) -> Option<Self> {
        let (x, md) = parse_aff_val(tok)?;
        Some(Combinator(mk_aff(x, md), mk_aff(2 * x + 1, md)))
    }
    fn parse_mod(toks: &[&str]) -> Option<(i64, i64)> {
        parse_aff_mod(toks)
    }
    fn obs(&self) -> Self::O {
        ((self.0.h, self.0.pw, self.0.s), (self.1.h, self.1.pw, self.1.s))
    }
    fn o_dflt() -> Self::O {
        ((0, 1, 0), (0, 1, 0))
    }
    fn o_op(a: &Self::O, b: &Self::O) -> Self::O {
        (aff_o_op(&a.0, &b.0), aff_o_op(&a.1, &b.1))
    }
    fn o_act(m: &(i64, i64), a: &Self::O) -> Self::O {
        (aff_o_act(m, &a.0), aff_o_act(m, &a.1))
    }
    fn o_view(o: &Self::O) -> String {
        format!("({},{})", aff_o_view(&o.0), aff_o_view(&o.1))
    }
    fn parse_pred(toks: &[&str]) -> Option<Pred<Self::O>> {
        if toks.len() == 2 && ["npre0", "nsuf0", "npre1", "nsuf1"].contains(&toks[0]) {
            let w = parse_commas(toks[1])?;
            let set = if toks[0].starts_with("npre") { aff_prefixes(&w) } else { aff_suffixes(&w) };
            return Some(if toks[0].ends_with('0') {
                Box::new(move |x: &Self::O| !set.contains(&(x.0 .0, x.0 .1)))
            } else {
                Box::new(move |x: &Self::O| !set.contains(&(x.1 .0, x.1 .1)))
            });
        }
        pred_const(toks)
    }
    fn gen_val(rng: &mut SplitMix64, st: &Style) -> String {
        gen_aff_val(rng, st)
    }
    fn gen_mod(rng: &mut SplitMix64, st: &Style) -> String {
        gen_aff_mod(rng, st)
    }
    fn mod_identity(m: &(i64, i64)) -> bool {
        *m == (1, 0)
    }
    fn gen_pred(rng: &mut SplitMix64, _aggs: &[Self::O], elems: &[Self::O], rev: bool) -> String {
        pick_const(rng).unwrap_or_else(|| {
            let c = rng.below(2);
            let hs: Vec<i64> = elems.iter().map(|e| if c == 0 { e.0 .0 } else { e.1 .0 }).collect();
            format!("{}{} {}", if rev { "nsuf" } else { "npre" }, c, gen_aff_word(rng, &hs, rev))
        })
    }
}

// ---- flip-a-range / count-ones with a zero-sized (`FlipZ`) and a one-byte (`FlipB`) modifier ----

fn flip_val<T>(tok: &str, mk: fn(i64, bool) -> T, plain: fn(i64) -> T) -> Option<T> {
    match tok.split_once('@') {
        None => match tok {
            "0" | "1" => Some(plain(tok.parse().ok()?)),
            _ => None,
        },
        Some((v, m)) => match (v, m) {
            ("0" | "1", "0" | "1") => Some(mk(v.parse().ok()?, m == "1")),
            _ => None,
        },
    }
}
fn gen_flip_val(rng: &mut SplitMix64) -> String {
    let b = rng.below(2);
    if rng.chance(1, 6) {
        format!("{}@{}", b, rng.below(2))
    } else {
        b.to_string()
    }
}
fn flip_pred(toks: &[&str]) -> Option<Pred<(i64, i64)>> {
    if let Some(c) = int_tok(toks, "ge") {
        return Some(Box::new(move |x: &(i64, i64)| x.0 >= c));
    }
    if let Some(c) = int_tok(toks, "zeros") {
        return Some(Box::new(move |x: &(i64, i64)| x.1 - x.0 >= c));
    }
    if let Some(c) = int_tok(toks, "len") {
        return Some(Box::new(move |x: &(i64, i64)| x.1 >= c));
    }
    pred_const(toks)
}
fn gen_flip_pred(rng: &mut SplitMix64, aggs: &[(i64, i64)]) -> String {
    pick_const(rng).unwrap_or_else(|| {
        let a = *rng.pick(aggs);
        match rng.below(5) {
            0 => format!("len {}", rng.range_i64(1, aggs.len() as i64 + 1)),
            1 | 2 => format!("ge {}", (a.0 + rng.range_i64(-1, 1)).max(0)),
            _ => format!("zeros {}", (a.1 - a.0 + rng.range_i64(-1, 1)).max(0)),
        }
    })
}

macro_rules! flip_hitem {
    ($name:ident, $m:ty, $parse_mod:expr, $gen_mod:expr, $is_flip:expr) => {
        impl HItem for $name {
            type M = $m;
            const DEFAULT_ELEM: bool = true;
            /// (ones, number of elements)
            type O = (i64, i64);
            fn parse_val(tok: &str) -> Option<Self> {
                flip_val(tok, |b, fl| $name { ones: b, len: 1, fl }, $name::from)
            }
            fn parse_mod(toks: &[&str]) -> Option<$m> {
                let f: fn(&[&str]) -> Option<$m> = $parse_mod;
                f(toks)
            }
            fn obs(&self) -> (i64, i64) {
                (self.ones, self.len)
            }
            fn o_dflt() -> (i64, i64) {
                (0, 0)
            }
            fn o_op(a: &(i64, i64), b: &(i64, i64)) -> (i64, i64) {
                (a.0 + b.0, a.1 + b.1)
            }
            fn o_act(m: &$m, a: &(i64, i64)) -> (i64, i64) {
                let is_flip: fn(&$m) -> bool = $is_flip;
                if is_flip(m) {
                    (a.1 - a.0, a.1)
                } else {
                    *a
                }
            }
            fn o_view(o: &(i64, i64)) -> String {
                format!("({},{})", o.0, o.1)
            }
            fn parse_pred(toks: &[&str]) -> Option<Pred<(i64, i64)>> {
                flip_pred(toks)
            }
            fn gen_val(rng: &mut SplitMix64, _st: &Style) -> String {
                gen_flip_val(rng)
            }
            fn gen_mod(rng: &mut SplitMix64, _st: &Style) -> String {
                let f: fn(&mut SplitMix64) -> String = $gen_mod;
                f(rng)
            }
            fn mod_identity(m: &$m) -> bool {
                let is_flip: fn(&$m) -> bool = $is_flip;
                !is_flip(m)
            }
            fn gen_pred(rng: &mut SplitMix64, aggs: &[(i64, i64)], _e: &[(i64, i64)], _rev: bool) -> String {
                gen_flip_pred(rng, aggs)
            }
        }
    };
}
flip_hitem!(FlipZ, (), |toks| if toks == ["u"] { Some(()) } else { None }, |_| "u".to_string(), |_| true);
flip_hitem!(
    FlipB,
    u8,
    |toks| if toks.len() == 1 { toks[0].parse::<u8>().ok() } else { None },
    |rng| (if rng.chance(3, 4) { 1 + 2 * rng.below(128) } else { 2 * rng.below(128) }).to_string(),
    |m| m & 1 == 1
);

impl HItem for StrCat {
    type M = (u64, u64);
    const DEFAULT_ELEM: bool = true;
    type O = String;
    fn parse_val(tok: &str) -> Option<Self> {
        let (w, md) = match tok.split_once('@') {
            None => (tok, None),
            Some((w, m)) => {
                let (k, c) = m.split_once(':')?;
                (w, Some((k.parse::<u64>().ok()?, c.parse::<u64>().ok()?)))
            }
        };
        if !w.is_empty() && w.bytes().all(|c| c.is_ascii_lowercase()) {
            Some(StrCat { s: w.to_string(), md })
        } else {
            None
        }
    }
    fn parse_mod(toks: &[&str]) -> Option<(u64, u64)> {
        if toks.len() == 2 {
            Some((toks[0].parse().ok()?, toks[1].parse().ok()?))
        } else {
            None
        }
    }
    fn obs(&self) -> String {
        self.s.clone()
    }
    fn o_dflt() -> String {
        String::new()
    }
    fn o_op(a: &String, b: &String) -> String {
        let mut s = a.clone();
        s.push_str(b);
        s
    }
    fn o_act(m: &(u64, u64), a: &String) -> String {
        // written out again: shift every letter by m.1 (kind 0) or overwrite every letter with letter m.1
        a.bytes()
            .map(|c| {
                let x = (c - b'a') as u64;
                let y = if m.0 == 0 { (x + m.1) % 26 } else { m.1 % 26 };
                (y as u8 + b'a') as char
            })
            .collect()
    }
    fn o_view(o: &String) -> String {
        format!("\"{}\"", o)
    }
    fn parse_pred(toks: &[&str]) -> Option<Pred<String>> {
        str_pred(toks)
    }
    fn gen_val(rng: &mut SplitMix64, _st: &Style) -> String {
        let len = 1 + rng.below(2);
        let w: String = (0..len).map(|_| (b'a' + rng.below(4) as u8) as char).collect();
        if rng.chance(1, 6) {
            format!("{}@{}:{}", w, rng.below(2), rng.below(26))
        } else {
            w
        }
    }
    fn gen_mod(rng: &mut SplitMix64, _st: &Style) -> String {
        match rng.below(6) {
            0 => "0 0".to_string(),
            1 | 2 => format!("1 {}", rng.below(26)),
            _ => format!("0 {}", rng.below(26)),
        }
    }
    fn mod_identity(m: &(u64, u64)) -> bool {
        *m == (0, 0)
    }
    fn gen_pred(rng: &mut SplitMix64, aggs: &[String], elems: &[String], rev: bool) -> String {
        gen_str_pred(rng, aggs, elems, rev)
    }
}

// ---- add-an-arithmetic-progression (`Ap`, items.rs): a lazy item whose `push` treats its children differently ----

/// (sum, number of elements, sum of positions, first position)
type ApO = (i64, i64, i64, Option<i64>);
type ApAp = Combinator<Ap, Ap>;

fn ap_o_op(a: &ApO, b: &ApO) -> ApO {
    (a.0 + b.0, a.1 + b.1, a.2 + b.2, if a.3.is_some() { a.3 } else { b.3 })
}
/// written out again per element: the element at position `q` receives `a + d * (q - from)`; an aggregate of `k` elements
/// with position sum `ps` therefore `a * k + d * (ps - from * k)`
fn ap_o_act(m: &(i64, i64, i64), x: &ApO) -> ApO {
    let (from, a, d) = *m;
    (x.0 + a * x.1 + d * (x.2 - from * x.1), x.1, x.2, x.3)
}
fn ap_o_view(o: &ApO) -> String {
    format!("({},{},{},{})", o.0, o.1, o.2, o.3.map_or("-".to_string(), |q| q.to_string()))
}
/// `v` or `v@ta:td`; the position is assigned by `place`
fn parse_ap_val(tok: &str) -> Option<Ap> {
    match tok.split_once('@') {
        None => Some(Ap::leaf(0, tok.parse().ok()?)),
        Some((v, m)) => {
            let (a, d) = m.split_once(':')?;
            Some(Ap { sum: v.parse().ok()?, len: 1, ps: 0, lo: Some(0), ta: a.parse().ok()?, td: d.parse().ok()? })
        }
    }
}
fn place_ap(mut x: Ap, i: usize) -> Ap {
    if x.lo.is_some() {
        x.lo = Some(i as i64);
        x.ps = i as i64 * x.len;
    }
    x
}
fn parse_ap_mod(toks: &[&str]) -> Option<(i64, i64, i64)> {
    if toks.len() == 3 {
        Some((toks[0].parse().ok()?, toks[1].parse().ok()?, toks[2].parse().ok()?))
    } else {
        None
    }
}
fn gen_ap_val(rng: &mut SplitMix64, st: &Style) -> String {
    let v = rng.range_i64(st.vlo, st.vhi);
    if rng.chance(1, 6) {
        format!("{}@{}:{}", v, rng.range_i64(st.mlo, st.mhi), rng.range_i64(-3, 3))
    } else {
        v.to_string()
    }
}
/// progressions anchored at the start of their range (the usual use), at 0, or anywhere; constant adds (`d = 0`) too
fn gen_ap_mod(rng: &mut SplitMix64, st: &Style, l: usize) -> String {
    let from = match rng.below(6) {
        0 => 0,
        1 => rng.range_i64(-3, 40),
        _ => l as i64,
    };
    let a = rng.range_i64(st.mlo, st.mhi);
    let d = match rng.below(6) {
        0 => 0,
        1 | 2 => 1,
        _ => {
            if st.mlo < 0 {
                rng.range_i64(-3, 3)
            } else {
                rng.range_i64(0, 3)
            }
        }
    };
    format!("{} {} {}", from, a, d)
}

impl HItem for Ap {
    type M = (i64, i64, i64);
    type O = ApO;
    const POSITIONAL: bool = true;
    fn parse_val(tok: &str) -> Option<Self> {
        parse_ap_val(tok)
    }
    fn parse_mod(toks: &[&str]) -> Option<Self::M> {
        parse_ap_mod(toks)
    }
    fn place(self, i: usize) -> Self {
        place_ap(self, i)
    }
    fn obs(&self) -> ApO {
        (self.sum, self.len, self.ps, self.lo)
    }
    fn o_dflt() -> ApO {
        (0, 0, 0, None)
    }
    fn o_op(a: &ApO, b: &ApO) -> ApO {
        ap_o_op(a, b)
    }
    fn o_act(m: &Self::M, a: &ApO) -> ApO {
        ap_o_act(m, a)
    }
    fn o_view(o: &ApO) -> String {
        ap_o_view(o)
    }
    fn parse_pred(toks: &[&str]) -> Option<Pred<ApO>> {
        if let Some(c) = int_tok(toks, "ge") {
            return Some(Box::new(move |x: &ApO| x.0 >= c));
        }
        if let Some(c) = int_tok(toks, "len") {
            return Some(Box::new(move |x: &ApO| x.1 >= c));
        }
        pred_const(toks)
    }
    fn gen_val(rng: &mut SplitMix64, st: &Style) -> String {
        gen_ap_val(rng, st)
    }
    fn gen_mod(rng: &mut SplitMix64, st: &Style) -> String {
        gen_ap_mod(rng, st, 0)
    }
    fn gen_mod_at(rng: &mut SplitMix64, st: &Style, l: usize) -> String {
        gen_ap_mod(rng, st, l)
    }
    fn mod_identity(m: &Self::M) -> bool {
        m.1 == 0 && m.2 == 0
    }
    fn gen_pred(rng: &mut SplitMix64, aggs: &[ApO], _e: &[ApO], _rev: bool) -> String {
        pick_const(rng).unwrap_or_else(|| {
            if rng.chance(1, 4) {
                format!("len {}", rng.range_i64(1, aggs.len() as i64 + 1))
            } else {
                let x = rng.pick(aggs).0;
                format!("ge {}", around(rng, x))
            }
        })
    }
}

impl HItem for ApAp {
    type M = (i64, i64, i64);
    type O = (ApO, ApO);
    const POSITIONAL: bool = true;
    fn parse_val(tok: &str) -> Option<Self> {
        let x = parse_ap_val(tok)?;
        let mut y = x.clone();
        y.sum = 2 * x.sum + 1;
        Some(Combinator(x, y))
    }
    fn parse_mod(toks: &[&str]) -> Option<Self::M> {
        parse_ap_mod(toks)
    }
    fn place(self, i: usize) -> Self {
        Combinator(place_ap(self.0, i), place_ap(self.1, i))
    }
    fn obs(&self) -> Self::O {
        ((self.0.sum, self.0.len, self.0.ps, self.0.lo), (self.1.sum, self.1.len, self.1.ps, self.1.lo))
    }
    fn o_dflt() -> Self::O {
        ((0, 0, 0, None), (0, 0, 0, None))
    }
    fn o_op(a: &Self::O, b: &Self::O) -> Self::O {
        (ap_o_op(&a.0, &b.0), ap_o_op(&a.1, &b.1))
    }
    fn o_act(m: &Self::M, a: &Self::O) -> Self::O {
        (ap_o_act(m, &a.0), ap_o_act(m, &a.1))
    }
    fn o_view(o: &Self::O) -> String {
        format!("({},{})", ap_o_view(&o.0), ap_o_view(&o.1))
    }
    fn parse_pred(toks: &[&str]) -> Option<Pred<Self::O>> {
        if let Some(c) = int_tok(toks, "ge0") {
            return Some(Box::new(move |x: &Self::O| x.0 .0 >= c));
        }
        if let Some(c) = int_tok(toks, "ge1") {
            return Some(Box::new(move |x: &Self::O| x.1 .0 >= c));
        }
        if let Some(c) = int_tok(toks, "len") {
            return Some(Box::new(move |x: &Self::O| x.0 .1 >= c));
        }
        pred_const(toks)
    }
    fn gen_val(rng: &mut SplitMix64, st: &Style) -> String {
        gen_ap_val(rng, st)
    }
    fn gen_mod(rng: &mut SplitMix64, st: &Style) -> String {
        gen_ap_mod(rng, st, 0)
    }
    fn gen_mod_at(rng: &mut SplitMix64, st: &Style, l: usize) -> String {
        gen_ap_mod(rng, st, l)
    }
    fn mod_identity(m: &Self::M) -> bool {
        m.1 == 0 && m.2 == 0
    }
    fn gen_pred(rng: &mut SplitMix64, aggs: &[Self::O], _e: &[Self::O], _rev: bool) -> String {
        pick_const(rng).unwrap_or_else(|| {
            let a = *rng.pick(aggs);
            match rng.below(5) {
                0 => format!("len {}", rng.range_i64(1, aggs.len() as i64 + 1)),
                1 | 2 => format!("ge0 {}", around(rng, a.0 .0)),
                _ => format!("ge1 {}", around(rng, a.1 .0)),
            }
        })
    }
}

/// predicates on concatenated words (shared by `str` and `sum:cat`)
pub fn str_pred(toks: &[&str]) -> Option<Pred<String>> {
    let word_ok = |t: &str| !t.is_empty() && t.bytes().all(|c| c.is_ascii_lowercase());
    if toks.len() == 2 && toks[0] == "npre" && word_ok(toks[1]) {
        let w = toks[1].to_string();
        return Some(Box::new(move |x: &String| !w.starts_with(x.as_str())));
    }
    if toks.len() == 2 && toks[0] == "nsuf" && word_ok(toks[1]) {
        let w = toks[1].to_string();
        return Some(Box::new(move |x: &String| !w.ends_with(x.as_str())));
    }
    if toks.len() == 2 && toks[0] == "slen" {
        let c: usize = toks[1].parse().ok()?;
        return Some(Box::new(move |x: &String| x.len() >= c));
    }
    pred_const(toks)
}

pub fn gen_str_pred(rng: &mut SplitMix64, aggs: &[String], elems: &[String], rev: bool) -> String {
    pick_const(rng).unwrap_or_else(|| {
        if rng.chance(1, 4) {
            return format!("slen {}", rng.below(aggs.last().unwrap().len() as u64 + 2));
        }
        let j = rng.below(elems.len() as u64 + 1) as usize;
        let mut parts: Vec<String> = elems[..j].to_vec();
        if j < elems.len() && !elems[j].is_empty() && rng.chance(7, 8) {
            // same element with one letter changed (first letter in search direction)
            let mut b = elems[j].clone().into_bytes();
            let k = if rev { b.len() - 1 } else { 0 };
            b[k] = b'a' + ((b[k] - b'a') + 1 + rng.below(3) as u8) % 26;
            parts.push(String::from_utf8(b).unwrap());
        }
        if rev {
            parts.reverse();
        }
        let w = parts.concat();
        if w.is_empty() {
            return "slen 1".to_string();
        }
        format!("{} {}", if rev { "nsuf" } else { "npre" }, w)
    })
}

// ------------------------------------------------------------------------------------------------------
// running one history against the real Segtree
// ------------------------------------------------------------------------------------------------------

fn res_str<R>(r: Result<R, String>, f: impl FnOnce(R) -> String) -> String {
    match r {
        Ok(v) => f(v),
        Err(e) => e,
    }
}

fn show_idx(o: Option<usize>) -> String {
    match o {
        None => "none".into(),
        Some(i) => format!("some {}", i),
    }
}

/// aggregates of the plain shadow vector in search direction, folded with the harness's own `o_op`
fn dir_aggs<T: HItem>(shadow: &[T::O], pos: usize, rev: bool) -> (Vec<T::O>, Vec<T::O>) {
    let mut aggs = Vec::new();
    let mut elems = Vec::new();
    let mut acc = T::o_dflt();
    if rev {
        for k in (0..=pos).rev() {
            acc = T::o_op(&shadow[k], &acc);
            aggs.push(acc.clone());
            elems.push(shadow[k].clone());
        }
    } else {
        for k in pos..shadow.len() {
            acc = T::o_op(&acc, &shadow[k]);
            aggs.push(acc.clone());
            elems.push(shadow[k].clone());
        }
    }
    (aggs, elems)
}

fn monotone(flags: &[bool]) -> bool {
    let mut seen = false;
    for &b in flags {
        if seen && !b {
            return false;
        }
        seen |= b;
    }
    true
}

const INVALID: &str = "I INVALID | V INVALID";

/// one live tree with its plain shadow vector; `last` = the previously returned item (a *used* `clone_from` destination)
struct Side<T: HItem> {
    n: usize,
    tree: Segtree<T, T::M>,
    shadow: Vec<T::O>,
    last: Option<T>,
}

type Built<T> = (Result<Segtree<T, <T as HItem>::M>, String>, Vec<<T as HItem>::O>);

fn build_tree<T: HItem>(ctor: &str, n: usize, vals: &[T]) -> Option<Built<T>> {
    Some(match ctor {
        "new" if vals.len() == 1 => (catch(|| Segtree::new(n, vals[0].clone())), vec![vals[0].obs(); n]),
        "slice" if vals.len() == n => (catch(|| Segtree::from_slice(vals)), vals.iter().map(|v| v.obs()).collect()),
        "iter" if vals.len() == n => {
            (catch(|| Segtree::from_iter(vals.to_vec().into_iter())), vals.iter().map(|v| v.obs()).collect())
        }
        // `from_iter` on a partially consumed iterator: `ExactSizeIterator::len` is what is left, not what there was
        "iterp" if vals.len() == n => {
            let mut all: Vec<T> = vec![T::default(), T::default()];
            all.extend(vals.iter().cloned());
            let mut it = all.into_iter();
            it.next();
            it.next();
            (catch(|| Segtree::from_iter(it)), vals.iter().map(|v| v.obs()).collect())
        }
        // ... and on an adapter that is consumed from the back
        "iterr" if vals.len() == n => {
            let mut back: Vec<T> = vals.to_vec();
            back.reverse();
            (catch(|| Segtree::from_iter(back.into_iter().rev())), vals.iter().map(|v| v.obs()).collect())
        }
        _ => return None,
    })
}

/// `Clone::clone` and `Clone::clone_from` — into a fresh (`Default`) and into a used destination — of a returned item
/// must give the item back (std: `a.clone_from(&b)` is `a = b.clone()`); compared through the complete raw rendering
fn clones_agree<T: HItem>(x: &T, last: &mut Option<T>) -> bool {
    let want = x.raw();
    let c1 = x.clone();
    let mut c2 = T::default();
    c2.clone_from(x);
    let mut ok = c1.raw() == want && c2.raw() == want;
    if let Some(mut used) = last.take() {
        used.clone_from(x);
        ok &= used.raw() == want;
    }
    *last = Some(c1);
    ok
}

/// `lower_bound(pos, f)` / `lower_bound_rev(pos, f)` with `f = |x| g(&x.obs())`, every probe logged; `hook(k)` runs inside
/// the predicate at the k-th probe, before it answers (the plain ops: nothing; `nlb` / `nlbr`: other segment-tree calls,
/// see `nested_search`) and says whether what it did was right
fn search_op<T: HItem>(
    tree: &mut Segtree<T, T::M>,
    shadow: &[T::O],
    rev: bool,
    pos: usize,
    g: &Pred<T::O>,
    hook: &dyn Fn(usize) -> bool,
) -> (String, String) {
    let log: RefCell<Vec<T>> = RefCell::new(Vec::new());
    let hook_ok = std::cell::Cell::new(true);
    let f = |x: &T| {
        let k = log.borrow().len();
        log.borrow_mut().push(x.clone());
        if !hook(k) {
            hook_ok.set(false);
        }
        g(&x.obs())
    };
    let res = if rev { catch(|| tree.lower_bound_rev(pos, f)) } else { catch(|| tree.lower_bound(pos, f)) };
    match res {
        Ok(o) => {
            let log = log.into_inner();
            let lr: Vec<String> = log.iter().map(|p| p.raw()).collect();
            let raw = format!("{} [{}]", show_idx(o), lr.join(", "));
            let (aggs, _) = dir_aggs::<T>(shadow, pos, rev);
            let flags: Vec<bool> = aggs.iter().map(|a| g(a)).collect();
            let probes: Vec<T::O> = log.iter().map(|p| p.obs()).collect();
            let is_range = probes.iter().all(|p| aggs.contains(p));
            let pv: Vec<String> = probes.iter().map(|p| T::o_view(p)).collect();
            (
                raw,
                format!(
                    "{} [{}] {}{}",
                    if monotone(&flags) { show_idx(o) } else { "nm".into() },
                    pv.join(","),
                    if is_range { "P" } else { "p!" },
                    if hook_ok.get() { "" } else { " nested!" }
                ),
            )
        }
        Err(e) => (e.clone(), e),
    }
}

/// `nlb pos pred` / `nlbr pos pred`: the same search as `lb` / `lbr` (same expected raw and view: the model side treats the
/// two alike), but the predicate is RE-ENTRANT: at every probe, before answering, it runs segment-tree calls on other trees
/// of the same type -
///   * on the other live tree (if the history has one): `ask(0, m-1)`, `lower_bound(0, false)`, `lower_bound_rev(m-1, false)` -
///     calls that stop at the root and leave no trace in the tree's lazy state (the model does not see them);
///   * on the harness-private mirrors of both live trees (`aux`: same constructor and values, every `set` / `mod` of the
///     history replayed; never printed): a full `lower_bound(p, same g)`, `lower_bound_rev(m-1-p, same g)` and `ask` at a
///     position `p` that moves with the probe number; their answers are checked against the same calls made on the
///     mirror before the outer search started (` nested!` in the view otherwise).
/// A search must not keep its state anywhere a second search (of another tree, or of the same type) can reach.
fn nested_search<T: HItem>(
    cur: &mut Side<T>,
    other: Option<&mut Side<T>>,
    aux: &mut [Side<T>],
    rev: bool,
    pos: usize,
    g: &Pred<T::O>,
) -> (String, String) {
    let live: Option<(usize, RefCell<&mut Segtree<T, T::M>>)> = other.map(|o| (o.n, RefCell::new(&mut o.tree)));
    let mirrors: Vec<(usize, RefCell<&mut Segtree<T, T::M>>)> =
        aux.iter_mut().map(|a| (a.n, RefCell::new(&mut a.tree))).collect();
    // what the nested calls on a mirror must answer: the same calls made beforehand, one after the other, outside any
    // predicate (an index / an observable aggregate does not depend on the lazy state they leave behind)
    const KMAX: usize = 48;
    let inner = |t: &mut Segtree<T, T::M>, m: usize, k: usize| -> (Option<usize>, Option<usize>, T::O) {
        let p = (k * 5 + 1) % m;
        let q = m - 1 - p;
        let a = t.lower_bound(p, |x: &T| g(&x.obs()));
        let b = t.lower_bound_rev(q, |x: &T| g(&x.obs()));
        (a, b, t.ask(p.min(q), p.max(q)).obs())
    };
    let want: Vec<Vec<(Option<usize>, Option<usize>, T::O)>> = mirrors
        .iter()
        .map(|(m, cell)| {
            let mut t = cell.borrow_mut();
            (0..KMAX).map(|k| inner(&mut **t, *m, k)).collect()
        })
        .collect();
    let hook = |k: usize| -> bool {
        let mut ok = true;
        if let Some((m, cell)) = &live {
            let mut t = cell.borrow_mut();
            let _ = t.ask(0, m - 1);
            ok &= t.lower_bound(0, |_| false).is_none();
            ok &= t.lower_bound_rev(m - 1, |_| false).is_none();
        }
        for (j, (m, cell)) in mirrors.iter().enumerate() {
            let mut t = cell.borrow_mut();
            let got = inner(&mut **t, *m, k);
            if k < KMAX {
                ok &= got == want[j][k];
            }
        }
        ok
    };
    search_op::<T>(&mut cur.tree, &cur.shadow, rev, pos, g, &hook)
}

/// one single-tree operation; `None` = malformed
fn step_op<T: HItem>(side: &mut Side<T>, toks: &[&str]) -> Option<(String, String)> {
    let Side { n, tree, shadow, last } = side;
    let n = *n;
    Some(match toks {
        ["set", i, v] => {
            let (i, v) = match (i.parse::<usize>(), parse_elem::<T>(v)) {
                (Ok(i), Some(v)) => (i, v.place(i)),
                _ => return None,
            };
            let o = v.obs();
            // every other position receives its value through `clone_from` into a fresh item
            let v = if i % 2 == 1 {
                let mut dst = T::default();
                dst.clone_from(&v);
                dst
            } else {
                v
            };
            let r = res_str(catch(|| tree.set(i, v)), |_| ".".into());
            if i < n {
                shadow[i] = o;
                (r.clone(), r)
            } else {
                (r, "ood".into())
            }
        }
        ["mod", l, r, mt @ ..] => {
            let (l, r, m) = match (l.parse::<usize>(), r.parse::<usize>(), T::parse_mod(mt)) {
                (Ok(l), Ok(r), Some(m)) => (l, r, m),
                _ => return None,
            };
            let res = res_str(catch(|| tree.modify(l, r, &m)), |_| ".".into());
            if l <= r && r < n {
                for x in shadow[l..=r].iter_mut() {
                    *x = T::o_act(&m, x);
                }
                (res.clone(), res)
            } else {
                (res, "ood".into())
            }
        }
        ["ask", l, r] => {
            let (l, r) = match (l.parse::<usize>(), r.parse::<usize>()) {
                (Ok(l), Ok(r)) => (l, r),
                _ => return None,
            };
            let in_dom = l <= r && r < n;
            match catch(|| tree.ask(l, r)) {
                Ok(x) => {
                    let mut view = if in_dom { T::o_view(&x.obs()) } else { "ood".into() };
                    if !clones_agree(&x, last) {
                        view.push_str(" clone!");
                    }
                    (x.raw(), view)
                }
                Err(e) => (e.clone(), if in_dom { e } else { "ood".into() }),
            }
        }
        [kind @ ("lb" | "lbr"), pos, pt @ ..] => {
            let rev = *kind == "lbr";
            let (pos, g) = match (pos.parse::<usize>(), T::parse_pred(pt)) {
                (Ok(p), Some(g)) => (p, g),
                _ => return None,
            };
            if pos >= n {
                return None;
            }
            search_op::<T>(tree, shadow, rev, pos, &g, &|_| true)
        }
        ["dbg"] => match catch(|| tree.debug()) {
            Ok(s) => {
                // the observable values, by a second route
                let items = catch(|| (0..n).map(|i| tree.ask(i, i)).collect::<Vec<T>>());
                // `debug()` is the `{:?}` of the whole logical array: of exactly the `n` single-element asks, in order
                // (independent oracle: the rendering is rebuilt here from the items `ask(i, i)` returns)
                let view = match &items {
                    Ok(v) => format!(
                        "[{}]{}",
                        v.iter().map(|x| T::o_view(&x.obs())).collect::<Vec<_>>().join(","),
                        if format!("{:?}", v) == s { "" } else { " dbg!" }
                    ),
                    Err(e) => e.clone(),
                };
                let raw = if T::CUSTOM_RAW {
                    // float items: `debug()` must be the `{:?}` of the single-element asks; printed as bit patterns
                    match &items {
                        Ok(v) if format!("{:?}", v) == s => {
                            format!("[{}]", v.iter().map(|x| x.raw()).collect::<Vec<_>>().join(", "))
                        }
                        _ => format!("debug()!=asks {}", s),
                    }
                } else {
                    s
                };
                (raw, view)
            }
            Err(e) => (e.clone(), e),
        },
        ["dfl"] => {
            // `Default::default()`: the seed of the boundary searches
            match catch(|| T::default()) {
                Ok(d) => {
                    let o = d.obs();
                    let mut view = T::o_view(&o);
                    if o != T::o_dflt() {
                        view.push_str(" dflt!");
                    }
                    (d.raw(), view)
                }
                Err(e) => (e.clone(), e),
            }
        }
        _ => return None,
    })
}

/// `cp i l r` (`dst` = `src`) / `x i l r` (`dst` = the other tree): `dst.set(i, src.ask(l, r))` — a value the API
/// returned is fed back into the API, possibly of another live object
fn transfer<T: HItem>(sides: &mut [Side<T>], src: usize, dst: usize, i: usize, l: usize, r: usize) -> (String, String) {
    let n = sides[src].n;
    let in_dom = l <= r && r < n && i < sides[dst].n;
    let got = {
        let s = &mut sides[src];
        catch(|| s.tree.ask(l, r))
    };
    match got {
        Err(e) => (e, "ood".into()),
        Ok(x) => {
            let raw_x = x.raw();
            let obs_x = x.obs();
            // the plain side: left-to-right fold of the source's shadow with the harness's own algebra
            let folded = if l <= r && r < n {
                let sh = &sides[src].shadow;
                let mut acc = sh[l].clone();
                for k in l + 1..=r {
                    acc = T::o_op(&acc, &sh[k]);
                }
                Some(acc)
            } else {
                None
            };
            let d = &mut sides[dst];
            let res = res_str(catch(|| d.tree.set(i, x)), |_| ".".into());
            if in_dom {
                d.shadow[i] = folded.unwrap();
                (format!("{} {}", raw_x, res), T::o_view(&obs_x))
            } else {
                (format!("{} {}", raw_x, res), "ood".into())
            }
        }
    }
}

/// `y slice | iter | new`: the other live tree is rebuilt from values read back from tree `src` (constructors fed with
/// values the API returned)
fn rebuild<T: HItem>(sides: &mut [Side<T>], src: usize, c: &str) -> Option<(String, String)> {
    let n = sides[src].n;
    let (items, raw, view, shadow): (Vec<T>, String, String, Vec<T::O>) = match c {
        "new" => {
            let x = catch(|| sides[src].tree.ask(0, n - 1)).ok()?;
            let sh = &sides[src].shadow;
            let mut acc = sh[0].clone();
            for k in 1..n {
                acc = T::o_op(&acc, &sh[k]);
            }
            let (raw, view) = (x.raw(), T::o_view(&x.obs()));
            (vec![x], raw, view, vec![acc; n])
        }
        "slice" | "iter" => {
            let items = catch(|| (0..n).map(|i| sides[src].tree.ask(i, i)).collect::<Vec<T>>()).ok()?;
            let raw = format!("[{}]", items.iter().map(|x| x.raw()).collect::<Vec<_>>().join(", "));
            let view = format!("[{}]", items.iter().map(|x| T::o_view(&x.obs())).collect::<Vec<_>>().join(","));
            (items, raw, view, sides[src].shadow.clone())
        }
        _ => return None,
    };
    match build_tree::<T>(c, n, &items)? {
        (Ok(tree), _) => {
            sides[1 - src] = Side { n, tree, shadow, last: None };
            Some((raw, view))
        }
        (Err(e), _) => Some((e.clone(), e)),
    }
}

fn run_history<T: HItem>(ctor: &str, n: usize, vals: &[&str], ops: &[&str]) -> String {
    // `* v1 .. vk` in place of the `n` constructor values: `v1 .. vk` repeated cyclically (large trees)
    let cyc = vals.first() == Some(&"*");
    let toks = if cyc { &vals[1..] } else { vals };
    let vals: Option<Vec<T>> = toks.iter().map(|t| parse_elem::<T>(t)).collect();
    let vals = match vals {
        Some(v) if cyc && ctor != "new" && !v.is_empty() => (0..n).map(|i| v[i % v.len()].clone()).collect(),
        Some(v) => v,
        None => return INVALID.into(),
    };
    // every element is stored at its index (`new`: one value for all positions)
    let vals: Vec<T> = vals.into_iter().enumerate().map(|(i, v)| v.place(i)).collect();
    let (built, shadow) = match build_tree::<T>(ctor, n, &vals) {
        Some(b) => b,
        None => return INVALID.into(),
    };
    let tree = match built {
        Ok(t) => t,
        Err(e) => return out1(&e),
    };
    let mut sides: Vec<Side<T>> = vec![Side { n, tree, shadow, last: None }];
    // a second live tree of the same type, one element longer (same constructor, same values, the first value once more),
    // only when the history addresses it
    let two = ops.iter().any(|o| {
        let t: Vec<&str> = o.split_whitespace().collect();
        !t.is_empty() && (t[0] == "b" || t[0] == "x" || t[0] == "y")
    });
    let mut vals2 = vals.clone();
    if ctor != "new" {
        vals2.push(vals[0].clone().place(n));
    }
    if two {
        match build_tree::<T>(ctor, n + 1, &vals2) {
            Some((Ok(tree), shadow)) => sides.push(Side { n: n + 1, tree, shadow, last: None }),
            _ => return INVALID.into(),
        }
    }
    // harness-private mirrors of the two trees for the re-entrant searches (`nlb` / `nlbr`): never printed
    let nested = ops.iter().any(|o| o.split_whitespace().any(|t| t == "nlb" || t == "nlbr"));
    let mut aux: Vec<Side<T>> = Vec::new();
    if nested {
        for (m, vs) in [(n, &vals), (n + 1, &vals2)] {
            match build_tree::<T>(ctor, m, vs) {
                Some((Ok(tree), shadow)) => aux.push(Side { n: m, tree, shadow, last: None }),
                _ => return INVALID.into(),
            }
        }
    }
    let mut raws: Vec<String> = vec!["ok".into()];
    let mut views: Vec<String> = vec!["ok".into()];
    for op in ops {
        let mut toks: Vec<&str> = op.split_whitespace().collect();
        let sel = if toks.first() == Some(&"b") {
            toks.remove(0);
            1
        } else {
            0
        };
        let (raw, view) = match toks.as_slice() {
            [kind @ ("cp" | "x"), i, l, r] => {
                let (i, l, r) = match (i.parse::<usize>(), l.parse::<usize>(), r.parse::<usize>()) {
                    (Ok(i), Ok(l), Ok(r)) => (i, l, r),
                    _ => return INVALID.into(),
                };
                let dst = if *kind == "cp" { sel } else { 1 - sel };
                transfer(&mut sides, sel, dst, i, l, r)
            }
            ["y", c] => match rebuild(&mut sides, sel, c) {
                Some(rv) => rv,
                None => return INVALID.into(),
            },
            [kind @ ("nlb" | "nlbr"), pos, pt @ ..] => {
                let (pos, g) = match (pos.parse::<usize>(), T::parse_pred(pt)) {
                    (Ok(p), Some(g)) if p < sides[sel].n => (p, g),
                    _ => return INVALID.into(),
                };
                let mut it = sides.iter_mut();
                let (a, b) = (it.next().unwrap(), it.next());
                let (cur, other) = if sel == 0 { (a, b) } else { (b.unwrap(), Some(a)) };
                nested_search::<T>(cur, other, &mut aux, *kind == "nlbr", pos, &g)
            }
            _ => {
                // the mirrors follow every `set` / `mod` of their tree
                if nested && matches!(toks.first(), Some(&"set") | Some(&"mod")) {
                    let _ = step_op(&mut aux[sel], &toks);
                }
                match step_op(&mut sides[sel], &toks) {
                    Some(rv) => rv,
                    None => return INVALID.into(),
                }
            }
        };
        raws.push(raw);
        views.push(view);
    }
    out2(&raws.join(" ; "), &views.join(" ; "))
}

macro_rules! dispatch {
    ($item:expr, $f:ident, $($arg:expr),*) => {
        match $item {
            "min" => Some($f::<Min<i64>>($($arg),*)),
            "max" => Some($f::<Max<i64>>($($arg),*)),
            "sum" => Some($f::<Sum<i64>>($($arg),*)),
            "minadd" => Some($f::<MinAdd<i64>>($($arg),*)),
            "maxadd" => Some($f::<MaxAdd<i64>>($($arg),*)),
            "sumadd" => Some($f::<SumAdd<i64>>($($arg),*)),
            "mm" => Some($f::<MM>($($arg),*)),
            "smm" => Some($f::<SMM>($($arg),*)),
            "aff" => Some($f::<AffHash>($($arg),*)),
            "aa" => Some($f::<AA>($($arg),*)),
            "str" => Some($f::<StrCat>($($arg),*)),
            "flipz" => Some($f::<FlipZ>($($arg),*)),
            "flipb" => Some($f::<FlipB>($($arg),*)),
            "ap" => Some($f::<Ap>($($arg),*)),
            "apap" => Some($f::<ApAp>($($arg),*)),
            _ => None,
        }
    };
}

/// the built-in items at element type `$t`
macro_rules! dispatch_base {
    ($t:ty, $base:expr, $f:ident, $($arg:expr),*) => {
        match $base {
            "min" => Some($f::<Min<$t>>($($arg),*)),
            "max" => Some($f::<Max<$t>>($($arg),*)),
            "sum" => Some($f::<Sum<$t>>($($arg),*)),
            "minadd" => Some($f::<MinAdd<$t>>($($arg),*)),
            "maxadd" => Some($f::<MaxAdd<$t>>($($arg),*)),
            "sumadd" => Some($f::<SumAdd<$t>>($($arg),*)),
            "mm" => Some($f::<TMM<$t>>($($arg),*)),
            "smm" => Some($f::<TSMM<$t>>($($arg),*)),
            _ => None,
        }
    };
}

macro_rules! dispatch_typed {
    ($base:expr, $ty:expr, $f:ident, $($arg:expr),*) => {
        match $ty {
            "i8" => dispatch_base!(i8, $base, $f, $($arg),*),
            "u8" => dispatch_base!(u8, $base, $f, $($arg),*),
            "i16" => dispatch_base!(i16, $base, $f, $($arg),*),
            "u16" => dispatch_base!(u16, $base, $f, $($arg),*),
            "i32" => dispatch_base!(i32, $base, $f, $($arg),*),
            "u32" => dispatch_base!(u32, $base, $f, $($arg),*),
            "u64" => dispatch_base!(u64, $base, $f, $($arg),*),
            "isize" => dispatch_base!(isize, $base, $f, $($arg),*),
            "usize" => dispatch_base!(usize, $base, $f, $($arg),*),
            _ => None,
        }
    };
}

/// the items over the harness's record type and over floats (`keyed.rs`)
macro_rules! dispatch_keyed {
    ($base:expr, $ty:expr, $f:ident, $($arg:expr),*) => {
        match ($base, $ty) {
            ("sum", "cat") => Some($f::<Sum<Cat>>($($arg),*)),
            ("min", "rec") => Some($f::<Min<Rec>>($($arg),*)),
            ("max", "rec") => Some($f::<Max<Rec>>($($arg),*)),
            ("minadd", "rec") => Some($f::<MinAdd<Rec>>($($arg),*)),
            ("maxadd", "rec") => Some($f::<MaxAdd<Rec>>($($arg),*)),
            ("mm", "rec") => Some($f::<RMM>($($arg),*)),
            ("min", "f64") => Some($f::<Min<f64>>($($arg),*)),
            ("max", "f64") => Some($f::<Max<f64>>($($arg),*)),
            ("sum", "f64") => Some($f::<Sum<f64>>($($arg),*)),
            ("minadd", "f64") => Some($f::<MinAdd<f64>>($($arg),*)),
            ("maxadd", "f64") => Some($f::<MaxAdd<f64>>($($arg),*)),
            ("sumadd", "f64") => Some($f::<SumAdd<f64>>($($arg),*)),
            ("mm", "f64") => Some($f::<FMM<f64>>($($arg),*)),
            ("min", "f32") => Some($f::<Min<f32>>($($arg),*)),
            ("max", "f32") => Some($f::<Max<f32>>($($arg),*)),
            ("sum", "f32") => Some($f::<Sum<f32>>($($arg),*)),
            ("minadd", "f32") => Some($f::<MinAdd<f32>>($($arg),*)),
            ("maxadd", "f32") => Some($f::<MaxAdd<f32>>($($arg),*)),
            ("sumadd", "f32") => Some($f::<SumAdd<f32>>($($arg),*)),
            ("mm", "f32") => Some($f::<FMM<f32>>($($arg),*)),
            _ => None,
        }
    };
}

fn run_case(line: &str) -> String {
    let parts: Vec<&str> = line.split(';').map(|p| p.trim()).collect();
    let hdr: Vec<&str> = parts[0].split_whitespace().collect();
    if !hdr.is_empty() && hdr[0] == "const" {
        // the trait constants of rlib_num_traits (what `Default for Min/Max/MinAdd/MaxAdd` and `SumAdd::new` are built from)
        return if hdr.len() == 2 && parts.len() == 1 {
            const_line(hdr[1]).unwrap_or_else(|| INVALID.into())
        } else {
            INVALID.into()
        };
    }
    if hdr.len() < 3 {
        return INVALID.into();
    }
    let n = match hdr[2].parse::<usize>() {
        Ok(n) if n <= 4_200_000 => n,
        _ => return INVALID.into(),
    };
    match hdr[0].split_once(':') {
        None => dispatch!(hdr[0], run_history, hdr[1], n, &hdr[3..], &parts[1..]).unwrap_or_else(|| INVALID.into()),
        Some((base, ty @ ("rec" | "cat" | "f64" | "f32"))) => {
            dispatch_keyed!(base, ty, run_history, hdr[1], n, &hdr[3..], &parts[1..]).unwrap_or_else(|| INVALID.into())
        }
        Some((base, ty)) => {
            dispatch_typed!(base, ty, run_history, hdr[1], n, &hdr[3..], &parts[1..]).unwrap_or_else(|| INVALID.into())
        }
    }
}

// ------------------------------------------------------------------------------------------------------
// generation
// ------------------------------------------------------------------------------------------------------

/// Which inner nodes hold a non-identity pending tag — bookkeeping for the evidence only: counts how many
/// operations pushed such a tag on their way down (the real tree is not inspected, no hook needed).
struct Tags {
    tag: Vec<bool>,
    crossed: u64,
}

impl Tags {
    fn new(n: usize) -> Self {
        Tags { tag: vec![false; 4 * n.max(1) + 4], crossed: 0 }
    }
    fn push(&mut self, i: usize, vl: usize, vr: usize) {
        if self.tag[i] {
            self.crossed += 1;
            self.tag[i] = false;
            let m = (vl + vr) / 2;
            if vl < m {
                self.tag[2 * i + 1] = true;
            }
            if m + 1 < vr {
                self.tag[2 * i + 2] = true;
            }
        }
    }
    fn set(&mut self, ind: usize, i: usize, vl: usize, vr: usize) {
        if vl == vr {
            return;
        }
        self.push(i, vl, vr);
        let m = (vl + vr) / 2;
        if ind <= m {
            self.set(ind, 2 * i + 1, vl, m)
        } else {
            self.set(ind, 2 * i + 2, m + 1, vr)
        }
    }
    /// ask (`md = None`) or modify (`md = Some(non-identity?)`)
    fn range(&mut self, l: usize, r: usize, md: Option<bool>, i: usize, vl: usize, vr: usize) {
        if l == vl && r == vr {
            if let Some(true) = md {
                if vl < vr {
                    self.tag[i] = true;
                }
            }
            return;
        }
        self.push(i, vl, vr);
        let m = (vl + vr) / 2;
        if r <= m {
            self.range(l, r, md, 2 * i + 1, vl, m);
        } else if l > m {
            self.range(l, r, md, 2 * i + 2, m + 1, vr);
        } else {
            self.range(l, m, md, 2 * i + 1, vl, m);
            self.range(m + 1, r, md, 2 * i + 2, m + 1, vr);
        }
    }
    /// `flags[k]` = predicate on the aggregate of `[l, l+k]`
    fn lb(&mut self, flags: &[bool], l0: usize, l: usize, i: usize, vl: usize, vr: usize) -> bool {
        if l == vl {
            if !flags[vr - l0] {
                return false;
            }
            if vl == vr {
                return true;
            }
        }
        self.push(i, vl, vr);
        let m = (vl + vr) / 2;
        if l <= m && self.lb(flags, l0, l, 2 * i + 1, vl, m) {
            return true;
        }
        self.lb(flags, l0, l.max(m + 1), 2 * i + 2, m + 1, vr)
    }
    /// `flags[k]` = predicate on the aggregate of `[r-k, r]`
    fn lbr(&mut self, flags: &[bool], r0: usize, r: usize, i: usize, vl: usize, vr: usize) -> bool {
        if r == vr {
            if !flags[r0 - vl] {
                return false;
            }
            if vl == vr {
                return true;
            }
        }
        self.push(i, vl, vr);
        let m = (vl + vr) / 2;
        if r > m && self.lbr(flags, r0, r, 2 * i + 2, m + 1, vr) {
            return true;
        }
        self.lbr(flags, r0, r.min(m), 2 * i + 1, vl, m)
    }
}

const SIZES_BIG: [usize; 10] = [31, 32, 33, 63, 64, 65, 100, 127, 128, 129];

fn pick_range(rng: &mut SplitMix64, n: usize) -> (usize, usize) {
    match rng.below(10) {
        0 => (0, n - 1),
        1 => {
            let i = rng.below(n as u64) as usize;
            (i, i)
        }
        2 => {
            // aligned to the middle split
            let m = (n - 1) / 2;
            if rng.chance(1, 2) {
                (rng.below(m as u64 + 1) as usize, m)
            } else {
                let lo = (m + 1).min(n - 1);
                (lo, rng.range_i64(lo as i64, n as i64 - 1) as usize)
            }
        }
        _ => {
            let a = rng.below(n as u64) as usize;
            let b = rng.below(n as u64) as usize;
            (a.min(b), a.max(b))
        }
    }
}

/// weights of (set, mod, ask, lb, lbr, dbg, transfer `cp` / `x`, dfl) per focus
fn weights(focus: &str, n: usize) -> [u64; 8] {
    let dbg = if n <= 17 { 3 } else { 1 };
    match focus {
        "C02" => [10, 25, 8, 27, 27, dbg, 3, 1],
        _ => [18, 30, 35, 6, 6, dbg, 4, 1],
    }
}

/// 771 = 3 * 257, 1100: `debug()` is observed on every one of these (a rendering assembled from blocks of 256 / 512 / 1024
/// elements has block boundaries inside)
const SIZES_HUGE: [usize; 10] = [255, 256, 257, 511, 513, 771, 1000, 1024, 1025, 1100];
/// trees of 21 levels and more: `2^20 + 1` (only the leftmost path is 21 inner nodes deep) and `2^21`
const SIZES_DEEP: [usize; 2] = [(1 << 20) + 1, 1 << 21];

/// an element token for a constructor / `set`: the item's own values, one in ten `_` (= `Default::default()`, an empty slot)
/// where the item admits that
fn gen_elem<T: HItem>(rng: &mut SplitMix64, st: &Style) -> String {
    if T::DEFAULT_ELEM && rng.chance(1, 10) {
        "_".into()
    } else {
        T::gen_val(rng, st)
    }
}

/// `size`: 0 = n in 1..17, 1 = boundary sizes 31..129, 2 = a few hundred to a thousand elements (short histories, closed by
/// `dbg`), 3 = 2^20 + 1 / 2^21 elements (constructor values given as a short cycle, a handful of operations that walk the
/// deepest paths; 4 = the same on 2^21)
fn gen_history<T: HItem>(name: &str, rng: &mut SplitMix64, focus: &str, st: &mut Stats, size: u8) -> String {
    let big = size >= 1;
    let n = match size {
        0 => 1 + rng.below(17) as usize,
        1 => *rng.pick(&SIZES_BIG),
        2 => *rng.pick(&SIZES_HUGE),
        _ => SIZES_DEEP[(size as usize - 3) % 2],
    };
    // (two million elements of magnitude 10^12 would leave i64: moderate magnitudes on the deep trees)
    let style = match if size >= 3 { [0, 1, 3, 4][rng.below(4) as usize] } else { rng.below(5) } {
        0 => Style { vlo: 0, vhi: 50, mlo: 0, mhi: 20 }, // non-negative: sum thresholds monotone
        1 => Style { vlo: -5, vhi: 5, mlo: -3, mhi: 3 }, // many ties
        2 => Style { vlo: -1_000_000_000_000, vhi: 1_000_000_000_000, mlo: -1_000_000_000, mhi: 1_000_000_000 },
        3 => Style { vlo: 0, vhi: 3, mlo: 0, mhi: 2 },
        _ => Style { vlo: -100, vhi: 100, mlo: -50, mhi: 50 },
    };
    // positional items: the i-th element has position i, which one value for all positions (`new`) cannot give
    let ctor = if T::POSITIONAL {
        *rng.pick(&["slice", "iter", "slice", "iter", "iterp", "iterr"])
    } else {
        *rng.pick(&["new", "slice", "iter", "new", "slice", "iter", "iterp", "iterr"])
    };
    st.bump(&format!("ctor_{}", ctor));
    st.bump(&format!("item_{}", name));
    st.bump(["n_1_to_17", "n_31_to_129", "n_255_to_1100", "n_2^20+1_or_2^21"][size.min(3) as usize]);
    // the large trees get their constructor values as a short cycle (`* v1 .. vk`)
    let cycle = if size >= 3 && ctor != "new" { 1 + rng.below(7) as usize } else { 0 };
    let vals: Vec<String> = if ctor == "new" {
        vec![gen_elem::<T>(rng, &style)]
    } else {
        (0..if cycle > 0 { cycle } else { n }).map(|_| gen_elem::<T>(rng, &style)).collect()
    };
    if vals.iter().any(|v| v.contains('@')) {
        st.bump("constructor_values_with_own_pending_modifier");
    }
    if vals.iter().any(|v| v == "_" || v.contains("#0")) {
        st.bump("constructor_values_with_empty_slot");
    }
    let obs_at = |v: &str, i: usize| -> T::O { parse_elem::<T>(v).unwrap().place(i).obs() };
    let shadow0: Vec<T::O> = if ctor == "new" {
        vec![obs_at(&vals[0], 0); n]
    } else {
        (0..n).map(|i| obs_at(&vals[i % vals.len()], i)).collect()
    };
    // one history in four runs two live trees of the type side by side (ops prefixed with `b` address the second)
    let two = size < 3 && rng.chance(1, 4);
    if two {
        st.bump("histories_with_two_live_trees");
    }
    // the second tree is one element longer (the first value once more)
    let mut shadow1 = shadow0.clone();
    shadow1.push(shadow0[0].clone());
    let mut shadows: Vec<Vec<T::O>> = vec![shadow0, shadow1];
    let mut ns: Vec<usize> = vec![n, n + 1];
    let mut tagss: Vec<Tags> = vec![Tags::new(n), Tags::new(n + 1)];
    let nops = match size {
        0 => 4 + rng.below(60),
        1 => 8 + rng.below(40),
        2 => 4 + rng.below(8),
        _ => 5 + rng.below(3),
    } as usize;
    let w = weights(focus, n);
    let total: u64 = w.iter().sum();
    // values that were returned by the API and fed back may double a sum: at most three per history
    let mut transfers_left = 3;
    let mut rebuilt_new = false;
    let mut line = format!("{} {} {} {}{}", name, ctor, n, if cycle > 0 { "* " } else { "" }, vals.join(" "));
    for opno in 0..nops {
        let mut x = rng.below(total);
        let mut k = 0;
        while x >= w[k] {
            x -= w[k];
            k += 1;
        }
        if size >= 3 {
            // every public function on the deep trees: a fixed skeleton (modify, set, ask, both searches), the rest random;
            // no `dbg` (two million elements), no transfers
            k = match opno {
                0 => 1,
                1 => 0,
                2 => 2,
                3 => 3,
                4 => 4,
                _ => {
                    if k >= 5 {
                        2
                    } else {
                        k
                    }
                }
            };
        }
        let sel = if two && rng.chance(1, 2) { 1 } else { 0 };
        let pre = if sel == 1 { "b " } else { "" };
        if sel == 1 {
            st.bump("ops_on_second_tree");
        }
        // on the large trees the quadratic specification of a search is the expensive part: fewer of them
        if size == 2 && (k == 3 || k == 4) && rng.chance(2, 3) {
            k = 2;
        }
        if k == 6 && transfers_left == 0 {
            k = 2;
        }
        tagss[sel].crossed = 0;
        let n = ns[sel];
        match k {
            0 => {
                let mut i = rng.below(n as u64) as usize;
                if size >= 3 && (opno == 1 || rng.chance(3, 4)) {
                    // the leftmost path is the deepest one (the left child gets the larger half): the first `set` of
                    // every history on a deep tree walks it
                    i = if opno == 1 { rng.below(2) as usize } else { *rng.pick(&[0, 0, 1, n - 1, n / 2]) };
                }
                let v = gen_elem::<T>(rng, &style);
                shadows[sel][i] = parse_elem::<T>(&v).unwrap().place(i).obs();
                tagss[sel].set(i, 0, 0, n - 1);
                st.bump("op_set");
                if tagss[sel].crossed > 0 {
                    st.bump("set_pushed_pending_tag");
                }
                line.push_str(&format!(" ; {}set {} {}", pre, i, v));
            }
            1 => {
                let (mut l, mut r) = pick_range(rng, n);
                if size >= 3 && (opno == 0 || rng.chance(1, 2)) {
                    // the first elements sit on the deepest path of n = 2^20 + 1: ranges that leave a pending tag right above
                    // them, or end / start between them (the opening `mod` of every deep history is one of these)
                    (l, r) = *rng.pick(&[(0, 1), (0, r), (1, r.max(1)), (0, n - 1), (1, n - 1), (1, 1)]);
                }
                let mt = T::gen_mod_at(rng, &style, l);
                let toks: Vec<&str> = mt.split_whitespace().collect();
                let m = T::parse_mod(&toks).unwrap();
                for e in shadows[sel][l..=r].iter_mut() {
                    *e = T::o_act(&m, e);
                }
                tagss[sel].range(l, r, Some(!T::mod_identity(&m)), 0, 0, n - 1);
                st.bump("op_modify");
                if tagss[sel].crossed > 0 {
                    st.bump("modify_pushed_pending_tag");
                }
                line.push_str(&format!(" ; {}mod {} {} {}", pre, l, r, mt));
            }
            2 => {
                let (mut l, mut r) = pick_range(rng, n);
                if size >= 3 && (opno == 2 || rng.chance(1, 2)) {
                    // single elements at the ends of the deepest / shallowest paths (the first `ask` of every deep history
                    // reads one of the two deepest leaves)
                    l = if opno == 2 { rng.below(2) as usize } else { *rng.pick(&[0, 1, n - 1]) };
                    r = l;
                }
                tagss[sel].range(l, r, None, 0, 0, n - 1);
                st.bump("op_ask");
                if tagss[sel].crossed > 0 {
                    st.bump("ask_pushed_pending_tag");
                }
                line.push_str(&format!(" ; {}ask {} {}", pre, l, r));
            }
            3 | 4 => {
                let rev = k == 4;
                let mut pos = rng.below(n as u64) as usize;
                if size >= 3 || (size >= 2 && rng.chance(3, 4)) {
                    // the plain-list specification of a search is quadratic in the distance to the end of the array
                    let mut d = rng.below(if size >= 3 { 24 } else { 48.min(n as u64) }) as usize;
                    if size >= 3 && rev && rng.chance(1, 2) {
                        // the leftward search that ends on the deepest path of n = 2^20 + 1
                        d = rng.below(2) as usize;
                    }
                    pos = if rev { d } else { n - 1 - d };
                }
                let (aggs, elems) = dir_aggs::<T>(&shadows[sel], pos, rev);
                let pt = T::gen_pred(rng, &aggs, &elems, rev);
                let toks: Vec<&str> = pt.split_whitespace().collect();
                let pred = T::parse_pred(&toks).unwrap_or_else(|| panic!("generated predicate does not parse: {}", pt));
                let flags: Vec<bool> = aggs.iter().map(|a| pred(a)).collect();
                let found = if rev {
                    tagss[sel].lbr(&flags, pos, pos, 0, 0, n - 1)
                } else {
                    tagss[sel].lb(&flags, pos, pos, 0, 0, n - 1)
                };
                let nm = if rev { "lbr" } else { "lb" };
                st.bump(&format!("op_{}", nm));
                st.bump(&format!("pred_{}", toks[0]));
                // re-entrant predicate (`nlb` / `nlbr`): every other search of a history with two live trees, one in eight
                // elsewhere (decided from the op number and position: the random stream stays what it was)
                let nest = size < 3 && (opno + pos) % (if two { 2 } else { 8 }) == 0;
                if nest {
                    st.bump("search_with_reentrant_predicate");
                }
                if tagss[sel].crossed > 0 {
                    st.bump(&format!("{}_pushed_pending_tag", nm));
                }
                if !monotone(&flags) {
                    st.bump("search_predicate_not_monotone_here");
                } else {
                    st.bump(if found { "search_answer_some" } else { "search_answer_none" });
                }
                line.push_str(&format!(" ; {}{}{} {} {}", pre, if nest { "n" } else { "" }, nm, pos, pt));
            }
            5 => {
                for i in 0..n {
                    tagss[sel].range(i, i, None, 0, 0, n - 1);
                }
                st.bump("op_dbg");
                line.push_str(&format!(" ; {}dbg", pre));
            }
            6 => {
                // feed a returned value back: into the same tree (`cp`) or into the other live tree (`x`)
                transfers_left -= 1;
                if two && rng.chance(1, 4) {
                    // ... or into a constructor: the other tree is rebuilt from values read back from this one
                    // (`new(n, ask(0, n-1))` multiplies a sum by n: small trees only, once per history)
                    let c = if n <= 17 && !rebuilt_new && !T::POSITIONAL && rng.chance(1, 3) {
                        "new"
                    } else {
                        *rng.pick(&["slice", "iter"])
                    };
                    for i in 0..n {
                        tagss[sel].range(i, i, None, 0, 0, n - 1);
                    }
                    if c == "new" {
                        rebuilt_new = true;
                        let mut acc = shadows[sel][0].clone();
                        for j in 1..n {
                            acc = T::o_op(&acc, &shadows[sel][j]);
                        }
                        shadows[1 - sel] = vec![acc; n];
                    } else {
                        shadows[1 - sel] = shadows[sel].clone();
                    }
                    tagss[1 - sel] = Tags::new(n);
                    ns[1 - sel] = n;
                    st.bump("op_rebuild_other_tree_from_read_back_values");
                    line.push_str(&format!(" ; {}y {}", pre, c));
                    continue;
                }
                let (mut l, mut r) = pick_range(rng, n);
                let cross = two && rng.chance(2, 3);
                let dst = if cross { 1 - sel } else { sel };
                let mut i = rng.below(ns[dst] as u64) as usize;
                if T::POSITIONAL {
                    // an element may only travel to its own index (its position is its index)
                    i = rng.below(ns[sel].min(ns[dst]) as u64) as usize;
                    l = i;
                    r = i;
                }
                let mut acc = shadows[sel][l].clone();
                for j in l + 1..=r {
                    acc = T::o_op(&acc, &shadows[sel][j]);
                }
                tagss[sel].range(l, r, None, 0, 0, n - 1);
                shadows[dst][i] = acc;
                tagss[dst].set(i, 0, 0, ns[dst] - 1);
                st.bump(if cross { "op_transfer_to_other_tree" } else { "op_transfer_same_tree" });
                line.push_str(&format!(" ; {}{} {} {} {}", pre, if cross { "x" } else { "cp" }, i, l, r));
            }
            _ => {
                st.bump("op_dfl");
                line.push_str(&format!(" ; {}dfl", pre));
            }
        }
    }
    // a few hundred to a thousand elements: the whole array is observed through `debug()` at the end
    if size == 2 {
        st.bump("op_dbg");
        st.bump("dbg_on_more_than_254_elements");
        line.push_str(" ; dbg");
    }
    // close with a single-element ask ("observe_at": single-element asks after any history)
    if rng.chance(1, 2) {
        let i = rng.below(n as u64) as usize;
        line.push_str(&format!(" ; ask {} {}", i, i));
        st.bump("op_ask");
    }
    let _ = big;
    line
}

const ITEMS: [&str; 15] =
    ["min", "max", "sum", "minadd", "maxadd", "sumadd", "mm", "smm", "aff", "aa", "str", "flipz", "flipb", "ap", "apap"];

/// items that are run on the trees of 2^20 + 1 / 2^21 elements
const DEEP_ITEMS: [&str; 14] =
    ["sumadd", "minadd", "maxadd", "mm", "smm", "aff", "aa", "str", "flipz", "flipb", "ap", "apap", "min:rec", "sum"];

fn gen_one(item: &str, rng: &mut SplitMix64, focus: &str, st: &mut Stats, size: u8) -> String {
    match item.split_once(':') {
        None => dispatch!(item, gen_history, item, rng, focus, st, size).expect("unknown item"),
        Some((base, ty)) => {
            dispatch_keyed!(base, ty, gen_history, item, rng, focus, st, size).expect("unknown keyed item")
        }
    }
}

/// every history of exactly `len` ops over the alphabet `ops`, closed by `dbg`
fn exhaustive(hdr: &str, ops: &[String], len: usize, emit: &mut dyn FnMut(String), st: &mut Stats, key: &str) {
    let mut idx = vec![0usize; len];
    loop {
        let mut line = hdr.to_string();
        for &k in &idx {
            line.push_str(" ; ");
            line.push_str(&ops[k]);
        }
        line.push_str(" ; dbg");
        emit(line);
        st.bump(key);
        let mut p = len;
        loop {
            if p == 0 {
                return;
            }
            p -= 1;
            idx[p] += 1;
            if idx[p] < ops.len() {
                break;
            }
            idx[p] = 0;
        }
    }
}

fn alphabet(item: &str, n: usize, searches: bool) -> Vec<String> {
    // two modifiers that do not commute; for the searches: a trivially true predicate, an order-sensitive one that
    // flips inside the array, and (aff) the always-false one
    let (vals, mods, pf, pr): (&[&str], &[&str], &[&str], &[&str]) = if item == "aff" {
        (&["7"], &["2 1", "0 5"], &["T", "npre 1,7", "F"], &["T", "nsuf 7,2"])
    } else if item == "ap" {
        // a progression anchored at the start of its range (`$l`), one anchored elsewhere with a negative step
        (&["5"], &["$l 1 1", "1 3 -1"], &["ge 4", "len 2"], &["ge 4", "len 2"])
    } else if item == "flipz" {
        // lazy item with the zero-sized modifier `()`
        (&["1"], &["u"], &["ge 2", "zeros 1"], &["ge 1", "zeros 2"])
    } else {
        (&["c"], &["0 1", "1 4"], &["slen 2", "npre ac"], &["slen 2", "nsuf cb"])
    };
    let mut ops = Vec::new();
    for i in 0..n {
        for v in vals {
            ops.push(format!("set {} {}", i, v));
        }
    }
    for l in 0..n {
        for r in l..n {
            for m in mods {
                ops.push(format!("mod {} {} {}", l, r, m.replace("$l", &l.to_string())));
            }
            ops.push(format!("ask {} {}", l, r));
        }
    }
    if searches {
        for p in 0..n {
            for f in pf {
                ops.push(format!("lb {} {}", p, f));
            }
            for f in pr {
                ops.push(format!("lbr {} {}", p, f));
            }
        }
    }
    ops
}

fn gen(args: &Args, emit: &mut dyn FnMut(String), st: &mut Stats) {
    let thorough = args.tier == "thorough";
    let focus = args.extra.get("focus").cloned().unwrap_or_else(|| "C01".to_string());
    let mut rng = SplitMix64::new(args.seed ^ if focus == "C02" { 0xC02 } else { 0xC01 });
    // (1) exhaustive small scope on the two non-commutative items with a two-element modifier alphabet
    //     (non-commuting modifiers): every interleaving of push / merge on tiny trees
    for item in ["aff", "str", "flipz", "ap"] {
        let init = |n: usize| -> String {
            let v: Vec<&str> = match item {
                "aff" => vec!["1", "2", "3", "4"],
                "ap" => vec!["1", "0", "2", "0"],
                "str" => vec!["a", "b", "ab", "d"],
                _ => vec!["1", "0", "0", "1"],
            };
            format!("{} slice {} {}", item, n, v[..n].join(" "))
        };
        let searches = focus == "C02";
        for n in 1..=4usize {
            let full = alphabet(item, n, true);
            let lens: &[usize] = if thorough {
                &[1, 2, 3]
            } else if item == "ap" && n == 4 {
                &[1]
            } else {
                &[1, 2]
            };
            for &len in lens {
                if len == 3 && n == 4 && !searches {
                    // the searches of the full alphabet matter for C02 only
                    exhaustive(&init(n), &alphabet(item, n, false), len, emit, st, "exhaustive_small_scope_histories");
                    continue;
                }
                exhaustive(&init(n), &full, len, emit, st, "exhaustive_small_scope_histories");
            }
        }
        // longer histories over a reduced alphabet (with the searches when the focus is C02)
        if item == "ap" && !thorough {
            continue;
        }
        let n3 = alphabet(item, 3, searches);
        let len3 = match (thorough, searches) {
            (true, false) => 4,
            (true, true) | (false, false) => 3,
            (false, true) => 2,
        };
        exhaustive(&init(3), &n3, len3, emit, st, "exhaustive_small_scope_histories");
        let n2 = alphabet(item, 2, searches);
        let len2 = match (thorough, searches) {
            (true, false) => 5,
            (true, true) | (false, false) => 4,
            (false, true) => 3,
        };
        exhaustive(&init(2), &n2, len2, emit, st, "exhaustive_small_scope_histories");
    }
    // (1b) exhaustive small scope on element types with equal-comparing but distinguishable values: every element has
    //      the same key (both zeros for the floats) and its own tag, so every query straddles duplicated minima / maxima;
    //      every history of length <= 2 (3 in thorough) over n <= 5 of set (same key, new tag / a strictly better key) /
    //      ask / copy-back / searches
    {
        let pz = 0u64.to_string(); // +0.0
        let nz = (1u64 << 63).to_string(); // -0.0
        let m1 = (-1.0f64).to_bits().to_string();
        let p1 = 1.0f64.to_bits().to_string();
        let tie_items: [(&str, Vec<String>, Vec<String>, &str, &str); 4] = [
            ("min:rec", (0..5).map(|t| format!("1/{}", t)).collect(), vec!["1/9".into(), "0/8".into()], "lt 1", "lt 2"),
            ("max:rec", (0..5).map(|t| format!("1/{}", t)).collect(), vec!["1/9".into(), "2/8".into()], "gt 1", "gt 0"),
            (
                "min:f64",
                vec![pz.clone(), nz.clone(), pz.clone(), nz.clone(), pz.clone()],
                vec![nz.clone(), pz.clone(), m1],
                "lt 0",
                "lt 4607182418800017408",
            ),
            (
                "max:f64",
                vec![nz.clone(), pz.clone(), nz.clone(), pz.clone(), nz.clone()],
                vec![pz.clone(), nz.clone(), p1],
                "gt 0",
                "gt 13830554455654793216",
            ),
        ];
        for (item, init, setv, pa, pb) in tie_items.iter() {
            for n in 1..=5usize {
                let hdr = format!("{} slice {} {}", item, n, init[..n].join(" "));
                let mut ops: Vec<String> = Vec::new();
                for i in 0..n {
                    for v in setv {
                        ops.push(format!("set {} {}", i, v));
                    }
                }
                for l in 0..n {
                    for r in l..n {
                        ops.push(format!("ask {} {}", l, r));
                    }
                }
                if n >= 2 {
                    ops.push(format!("cp 0 {} {}", 0, n - 1));
                    ops.push(format!("cp {} 0 {}", n - 1, (n - 1) / 2));
                }
                if focus == "C02" {
                    for p in 0..n {
                        ops.push(format!("lb {} {}", p, pa));
                        ops.push(format!("lbr {} {}", p, pb));
                    }
                }
                let lens: &[usize] = if thorough && n <= 4 { &[1, 2, 3] } else { &[1, 2] };
                for &len in lens {
                    exhaustive(&hdr, &ops, len, emit, st, "exhaustive_tie_histories");
                }
            }
        }
    }
    // (2) random structured histories
    // searches are the expensive part of the Lean side (the specification tries every candidate index afresh)
    let count = if thorough {
        if focus == "C02" {
            120_000
        } else {
            200_000
        }
    } else if focus == "C02" {
        3_000
    } else {
        3_500
    };
    for c in 0..count {
        // the lazy and the non-commutative items get more weight
        let item = match rng.below(38) {
            0 => "min",
            1 => "max",
            2 => "sum",
            3 | 4 => "minadd",
            5 => "maxadd",
            6 | 7 => "sumadd",
            8 | 9 => "mm",
            10 => "smm",
            11 | 12 | 13 => "aff",
            14 | 15 => "aa",
            16 | 17 => "str",
            18 | 19 => "flipz",
            20 => "flipb",
            // element types with equal-comparing but distinguishable values: the record (more weight), floats
            21 => "min:rec",
            22 => "max:rec",
            23 => "minadd:rec",
            24 => "maxadd:rec",
            25 => "mm:rec",
            // the lazy item whose `push` treats its children differently, alone and as both components of a Combinator
            26 | 27 | 28 => "ap",
            29 | 30 => "apap",
            _ => *rng.pick(&KEYED_ITEMS),
        };
        let big = c % 8 == 7;
        emit(gen_one(item, &mut rng, &focus, st, big as u8));
        st.bump("random_histories");
    }
    // every item × boundary size at least a few times
    for item in ITEMS.iter().chain(KEYED_ITEMS.iter()) {
        for _ in 0..(if thorough { 12 } else { 2 }) {
            emit(gen_one(item, &mut rng, &focus, st, 1));
            st.bump("random_histories");
        }
    }
    // beyond small scope: a few hundred to a thousand elements, short histories (every item once; 8x in thorough)
    for item in ITEMS.iter().chain(KEYED_ITEMS.iter()) {
        for _ in 0..(if thorough { 8 } else { 1 }) {
            emit(gen_one(item, &mut rng, &focus, st, 2));
            st.bump("random_histories");
        }
    }
    // (2e) trees of 21 levels and more (n = 2^20 + 1, 2^21): every public function, the deepest root-to-leaf paths
    //      (default 2 in the quick tier - `--large-quick k` changes that -, 24 in thorough; `--large k` overrides both)
    let large_quick: usize = args.extra.get("large-quick").and_then(|v| v.parse().ok()).unwrap_or(2);
    let large: usize =
        args.extra.get("large").and_then(|v| v.parse().ok()).unwrap_or(if thorough { 24 } else { large_quick });
    for k in 0..large {
        let item = if k == 0 { "sumadd" } else { *rng.pick(&DEEP_ITEMS) };
        emit(gen_one(item, &mut rng, &focus, st, 3 + (k % 2) as u8));
        st.bump("random_histories");
        st.bump("histories_on_2^20+1_or_2^21_elements");
    }
    // (2b) the built-in items at unsigned / narrow element types, elements / modifiers / thresholds at the types' extreme
    //      values; every (item, type, mode) at least twice
    let per = if thorough { 40 } else { 2 };
    for base in BASES {
        for ty in TYPES {
            let sp = tspec(base, ty).expect("typed item");
            let name = format!("{}:{}", base, ty);
            for mode in 0..5usize {
                for k in 0..per {
                    let big = k % 8 == 7;
                    let line = dispatch_typed!(base, ty, gen_typed, &name, sp, mode, &mut rng, &focus, st, big)
                        .expect("typed item");
                    emit(line);
                }
            }
        }
    }
    // (2c) the trait constants themselves, all twelve integer types
    for ty in CONST_TYPES {
        emit(format!("const {}", ty));
        st.bump("trait_constant_lines");
    }
    // (2d) out-of-domain: histories on which the items' machine arithmetic overflows (the real call panics, the model's
    //      overflow guard answers `S any`); the last one keeps every value inside the type and overflows the pending tag
    for l in [
        "minadd:u8 new 3 250 ; mod 0 2 10 ; ask 0 2",
        "maxadd:i8 slice 2 100 -100 ; mod 0 1 100 ; ask 0 1",
        "sumadd:u8 new 9 30 ; ask 0 8",
        "sum:i8 slice 3 100 100 -100 ; ask 0 2",
        "mm:i8 new 2 -100 ; mod 0 1 100 ; mod 0 1 100 ; ask 0 0",
    ] {
        emit(l.to_string());
        st.bump("overflow_out_of_domain_lines");
    }
    //      ... and one history on which the positional item `ap` is NOT positional (`new`: every element at position 0): the
    //      Rust item's `push` (written with `left.len`) and the model's differ there, the driver's guard answers `S any`
    emit("ap new 4 1 ; mod 0 3 0 1 1 ; ask 1 1".to_string());
    st.bump("ap_not_positional_out_of_domain_lines");
    // (3) out-of-domain stream: operations outside 0 <= l <= r < n (view `ood`: only the raw panic is compared with the
    //     model, as drift), empty constructors
    for item in ["minadd", "aff", "sum", "flipz"] {
        let v = if item == "flipz" { "1 0 1" } else { "1 2 3" };
        let m = if item == "aff" {
            "1 1"
        } else if item == "sum" || item == "flipz" {
            "u"
        } else {
            "1"
        };
        emit(format!("{} slice 3 {} ; ask 2 1 ; ask 0 3 ; set 3 1 ; mod 2 1 {} ; mod 1 3 {} ; ask 0 2", item, v, m, m));
        emit(format!("{} new 0 1 ; ask 0 0", item));
        emit(format!("{} slice 0 ; ask 0 0", item));
        emit(format!("{} iter 0 ; ask 0 0", item));
        st.add("out_of_domain_lines", 4);
    }
}

fn main() {
    cli(gen, run_case);
}
