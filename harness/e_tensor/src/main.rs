//! Correspondence harness for engine `tensor` (property C19): drives `rlib_tensor::Tensor<T, D>`
//! for ranks 0..=4 (const generics) through its public API.
//!
//! Case lines (lists comma separated, `-` = empty list):
//!   get <dims> <idx> | at <vec|slice|new|read> <dims> <idx> | ctor <vec|slice|new|read> <dims> <len> | iter <dims>
//!   eq <dimsA> <dimsB> <dataA> <dataB> | write <i64|str> <dims> <data> | rt <i64|str> <chunk> <dims> <data>
//!   rs <i64|str> <chunk> <lead> ; t <dims> <data> <seps> ; k <tok> <sep> ; ...   several values read from ONE reader (see run_rs)
//!   h <D> ; op ; op ; ...   a history over four `Tensor<i64, D>` variables (slots 0..3), one observation per op:
//!       mk s <dims> <start> (from_vec(dims, start..)) | cl s r (s = r.clone()) | cf s r (s.clone_from(&r)) | eq s r |
//!       dims s | dim s i | get s <idx> | rd s <idx> | wr s <idx> v (then all cells) | it s | w s (Writable bytes)
//!   g <D> <ty> ; op ; ...   the same over `Tensor<T, D>` for T = i64 | String (`str`) | f64 | () (`unit`) | a zero-sized struct (`zst`) |
//!       a zero-sized struct whose == is never true (`nz`) |
//!       a record compared by key (`rec`, tokens `key:tag`):  vec|sl s <dims> <data> | new s <dims> v | rdv s <dims> <data> (Tensor::read) |
//!       like s r v (new(*r.dims(), v)) | coll s r (from_vec(*r.dims(), r.clone().into_iter().collect())) | cl | cf | eq s r | ne s r
//!       (s = r: the same object on both sides) | dims | dim | get | rd | wr s <idx> v | it | w | dbg ({:?}) |
//!       itx s k j q [n]  (iter / iter_mut / into_iter after k x next and j x next_back: count | len | last | nth n | nthb n | rev | rest)
#[path = "../../common/mod.rs"]
mod common;
use common::*;
use rlib_io::{Readable, Reader, Writable, Writer};
use rlib_tensor::Tensor;
use std::io::Read;

const INVALID: &str = "I INVALID | V INVALID";

fn parse_list(s: &str) -> Vec<&str> {
    if s == "-" {
        vec![]
    } else {
        s.split(',').collect()
    }
}

fn parse_usizes(s: &str) -> Option<Vec<usize>> {
    parse_list(s).iter().map(|t| t.parse::<usize>().ok()).collect()
}

fn parse_i64s(s: &str) -> Option<Vec<i64>> {
    parse_list(s).iter().map(|t| t.parse::<i64>().ok()).collect()
}

fn show_list<T: std::fmt::Display>(xs: impl Iterator<Item = T>) -> String {
    let v: Vec<String> = xs.map(|x| x.to_string()).collect();
    format!("[{}]", v.join(","))
}

fn arr<const D: usize>(v: &[usize]) -> Option<[usize; D]> {
    <[usize; D]>::try_from(v).ok()
}

/// Coarse panic class for the raw result: `assert!` (with or without a custom message), an explicit
/// `panic!`, a slice-index panic and `unwrap` are one class — the property promises "a panic", not a
/// message — arithmetic overflow is kept apart.  Must match `showP` in Driver/Tensor.lean.
fn pc(r: Result<String, String>) -> String {
    match r {
        Ok(s) => s,
        Err(e) => {
            if e == "panic:overflow" {
                e
            } else {
                "panic:reject".to_string()
            }
        }
    }
}

/// view: any panic is just `panic`
fn pv(s: &str) -> String {
    if s.starts_with("panic:") && !s.contains('+') {
        "panic".to_string()
    } else {
        s.to_string()
    }
}

/// contents of a tensor: all elements up to 64, a position-weighted digest beyond
fn show_data(xs: &[i64]) -> String {
    if xs.len() <= 64 {
        format!("data={}", show_list(xs.iter()))
    } else {
        let mut d: i128 = 0;
        for (k, x) in xs.iter().enumerate() {
            d = (d + (k as i128 + 1) * (*x as i128)).rem_euclid(1000000007);
        }
        format!("digest={}", d)
    }
}

fn res(r: Result<String, String>) -> String {
    pc(r)
}

/// all valid indices in nested-loop (lexicographic) order — the independent oracle for "row-major"
fn all_idx(dims: &[usize]) -> Vec<Vec<usize>> {
    let mut out = vec![vec![]];
    for &d in dims {
        let mut next = Vec::with_capacity(out.len() * d);
        for p in &out {
            for i in 0..d {
                let mut q = p.clone();
                q.push(i);
                next.push(q);
            }
        }
        out = next;
    }
    out
}

thread_local! {
    static ORACLE: std::cell::RefCell<std::collections::HashMap<Vec<usize>, std::collections::HashMap<Vec<usize>, usize>>> =
        std::cell::RefCell::new(std::collections::HashMap::new());
}

/// position of `idx` in the nested-loop enumeration of all valid indices (cached per shape)
fn oracle_position(dims: &[usize], idx: &[usize]) -> Option<usize> {
    ORACLE.with(|c| {
        let mut c = c.borrow_mut();
        let m = c
            .entry(dims.to_vec())
            .or_insert_with(|| all_idx(dims).into_iter().enumerate().map(|(k, p)| (p, k)).collect());
        m.get(idx).copied()
    })
}

fn code(idx: &[usize]) -> i64 {
    idx.iter().fold(0i64, |acc, &i| acc * 10 + i as i64)
}

fn escape(bytes: &[u8]) -> String {
    String::from_utf8_lossy(bytes).replace(' ', "_").replace('\n', "/")
}

/// a `Read` that delivers at most `chunk` bytes per call (`0` = everything at once)
struct Chunked {
    data: Vec<u8>,
    pos: usize,
    chunk: usize,
}

impl Read for Chunked {
    fn read(&mut self, buf: &mut [u8]) -> std::io::Result<usize> {
        let left = self.data.len() - self.pos;
        let mut n = left.min(buf.len());
        if self.chunk > 0 {
            n = n.min(self.chunk);
        }
        buf[..n].copy_from_slice(&self.data[self.pos..self.pos + n]);
        self.pos += n;
        Ok(n)
    }
}

fn write_bytes<T: Writable>(t: &T) -> Vec<u8> {
    let mut buf: Vec<u8> = Vec::new();
    {
        let mut w = Writer::new(Box::new(&mut buf));
        w.write(t);
    }
    buf
}

fn write_case<T: Writable + Clone, const D: usize>(dims: [usize; D], data: Vec<T>) -> String {
    let t = match catch(|| Tensor::<T, D>::from_vec(dims, data)) {
        Ok(t) => t,
        Err(_) => return INVALID.to_string(),
    };
    out1(&res(catch(|| escape(&write_bytes(&t)))))
}

fn rt_case<T: Writable + Readable + Clone + PartialEq + std::fmt::Display, const D: usize>(
    dims: [usize; D],
    data: Vec<T>,
    chunk: usize,
) -> String {
    let t = match catch(|| Tensor::<T, D>::from_vec(dims, data)) {
        Ok(t) => t,
        Err(_) => return INVALID.to_string(),
    };
    let r = catch(|| {
        let bytes = write_bytes(&t);
        let mut rd = Reader::new(Box::new(Chunked { data: bytes, pos: 0, chunk }));
        let u = Tensor::<T, D>::read(dims, &mut rd);
        let eof = rd.is_eof();
        let ne_consistent = (u != t) == !(u == t);
        format!(
            "eq={} data={} eof={}",
            if ne_consistent { (u == t).to_string() } else { "NE-INCONSISTENT".into() },
            show_list(u.iter()),
            eof
        )
    });
    out1(&res(r))
}

fn run_d<const D: usize>(toks: &[&str]) -> String {
    match toks[0] {
        "get" => {
            if toks.len() != 3 {
                return INVALID.to_string();
            }
            let (dims_v, idx_v) = match (parse_usizes(toks[1]), parse_usizes(toks[2])) {
                (Some(a), Some(b)) => (a, b),
                _ => return INVALID.to_string(),
            };
            let (dims, idx) = match (arr::<D>(&dims_v), arr::<D>(&idx_v)) {
                (Some(a), Some(b)) => (a, b),
                _ => return INVALID.to_string(),
            };
            if dims_v.contains(&0) {
                return INVALID.to_string();
            }
            let n: usize = dims_v.iter().product();
            let t = match catch(|| Tensor::<i64, D>::from_vec(dims, (0..n as i64).collect())) {
                Ok(t) => t,
                Err(_) => return INVALID.to_string(),
            };
            let r = pc(catch(|| t.get_index(idx).to_string()));
            // oracle: position of idx in the nested-loop enumeration
            let view = match oracle_position(&dims_v, &idx_v) {
                Some(k) if r != k.to_string() => format!("ORACLE-MISMATCH({},{})", r, k),
                _ => pv(&r),
            };
            out2(&r, &view)
        }
        "at" => {
            if toks.len() != 4 {
                return INVALID.to_string();
            }
            let (dims_v, idx_v) = match (parse_usizes(toks[2]), parse_usizes(toks[3])) {
                (Some(a), Some(b)) => (a, b),
                _ => return INVALID.to_string(),
            };
            let (dims, idx) = match (arr::<D>(&dims_v), arr::<D>(&idx_v)) {
                (Some(a), Some(b)) => (a, b),
                _ => return INVALID.to_string(),
            };
            if dims_v.contains(&0) {
                return INVALID.to_string();
            }
            let n = dims_v.iter().fold(1u128, |a, &d| a.saturating_mul(d as u128));
            if n > 100000 {
                return INVALID.to_string();
            }
            let n = n as usize;
            let data: Vec<i64> = (0..n as i64).collect();
            let built = match toks[1] {
                "vec" => catch(|| Tensor::<i64, D>::from_vec(dims, data)),
                "slice" => catch(|| Tensor::<i64, D>::from_slice(dims, &data)),
                "new" => catch(|| Tensor::<i64, D>::new(dims, 7)),
                "read" => {
                    let text: Vec<String> = data.iter().map(|x| x.to_string()).collect();
                    let bytes = text.join("\n").into_bytes();
                    catch(|| {
                        let mut rd = Reader::new(Box::new(Chunked { data: bytes, pos: 0, chunk: 3 }));
                        Tensor::<i64, D>::read(dims, &mut rd)
                    })
                }
                _ => return INVALID.to_string(),
            };
            let mut t = match built {
                Ok(t) => t,
                Err(_) => return INVALID.to_string(),
            };
            let before: Vec<i64> = t.iter().cloned().collect();
            // the read and the write are evaluated independently: the write also when the read panicked
            let v = pc(catch(|| t[idx].to_string()));
            let after_read: Vec<i64> = t.iter().cloned().collect();
            let set = catch(|| {
                t[idx] = -1;
            });
            // every cell is compared with its old value (aliasing shows up as a foreign cell in the list)
            let changed: Vec<usize> = t.iter().zip(before.iter()).enumerate().filter(|(_, (a, b))| a != b).map(|(k, _)| k).collect();
            let set_s = match set {
                Ok(()) => show_list(changed.iter()),
                Err(e) => {
                    let e = pc(Err(e));
                    if changed.is_empty() { e } else { format!("{}+changed{}", e, show_list(changed.iter())) }
                }
            };
            let v = if after_read != before || t.iter().count() != n { format!("{}+READ-MUTATED", v) } else { v };
            out2(&format!("v={} set={}", v, set_s), &format!("v={} set={}", pv(&v), pv(&set_s)))
        }
        "ctor" => {
            if toks.len() != 4 {
                return INVALID.to_string();
            }
            let dims_v = match parse_usizes(toks[2]) {
                Some(a) => a,
                None => return INVALID.to_string(),
            };
            let dims = match arr::<D>(&dims_v) {
                Some(a) => a,
                None => return INVALID.to_string(),
            };
            let len: usize = match toks[3].parse() {
                Ok(l) => l,
                Err(_) => return INVALID.to_string(),
            };
            // huge shapes are only probed where the product overflows `usize` or with short data:
            // never allocate them (`new` / `read` of a big product that fits are out of scope)
            let zero = dims_v.contains(&0);
            let big_prod = dims_v.iter().fold(1u128, |a, &d| a.saturating_mul(d as u128));
            if !zero && big_prod < (1u128 << 64) && big_prod > 100000 && toks[1] != "vec" && toks[1] != "slice" {
                return INVALID.to_string();
            }
            let data: Vec<i64> = (0..len as i64).collect();
            let show = |t: Tensor<i64, D>| {
                let xs: Vec<i64> = t.iter().cloned().collect();
                format!("ok dims={} len={} {}", show_list(t.dims().iter()), xs.len(), show_data(&xs))
            };
            let r = match toks[1] {
                "vec" => catch(|| show(Tensor::<i64, D>::from_vec(dims, data))),
                "slice" => catch(|| show(Tensor::<i64, D>::from_slice(dims, &data))),
                "new" => catch(|| show(Tensor::<i64, D>::new(dims, 7))),
                "read" => {
                    if !zero && big_prod < (1u128 << 64) && (len as u128) < big_prod {
                        return INVALID.to_string();
                    }
                    let text: Vec<String> = data.iter().map(|x| x.to_string()).collect();
                    let bytes = text.join(" ").into_bytes();
                    catch(|| {
                        let mut rd = Reader::new(Box::new(Chunked { data: bytes, pos: 0, chunk: 5 }));
                        show(Tensor::<i64, D>::read(dims, &mut rd))
                    })
                }
                _ => return INVALID.to_string(),
            };
            let r = pc(r);
            out2(&r, &pv(&r))
        }
        "iter" => {
            if toks.len() != 2 {
                return INVALID.to_string();
            }
            let dims_v = match parse_usizes(toks[1]) {
                Some(a) => a,
                None => return INVALID.to_string(),
            };
            let dims = match arr::<D>(&dims_v) {
                Some(a) => a,
                None => return INVALID.to_string(),
            };
            if dims_v.contains(&0) {
                return INVALID.to_string();
            }
            let r = catch(|| {
                let mut t = Tensor::<i64, D>::new(dims, 0);
                // assign in reverse nested-loop order through IndexMut
                for p in all_idx(&dims_v).iter().rev() {
                    let idx = arr::<D>(p).unwrap();
                    t[idx] = code(p);
                }
                let a: Vec<i64> = t.iter().cloned().collect();
                let mut t2 = t.clone();
                let b: Vec<i64> = t2.iter_mut().map(|x| *x).collect();
                let c: Vec<i64> = t.into_iter().collect();
                if a != b || a != c {
                    "ITER-VARIANTS-DIFFER".to_string()
                } else {
                    show_list(a.iter())
                }
            });
            out1(&res(r))
        }
        "eq" => {
            if toks.len() != 5 {
                return INVALID.to_string();
            }
            let (da, db, xa, xb) = match (parse_usizes(toks[1]), parse_usizes(toks[2]), parse_i64s(toks[3]), parse_i64s(toks[4])) {
                (Some(a), Some(b), Some(c), Some(d)) => (a, b, c, d),
                _ => return INVALID.to_string(),
            };
            let (da, db) = match (arr::<D>(&da), arr::<D>(&db)) {
                (Some(a), Some(b)) => (a, b),
                _ => return INVALID.to_string(),
            };
            let (t, u) = match (catch(|| Tensor::<i64, D>::from_vec(da, xa)), catch(|| Tensor::<i64, D>::from_vec(db, xb))) {
                (Ok(t), Ok(u)) => (t, u),
                _ => return INVALID.to_string(),
            };
            let e = t == u;
            if (t != u) == e || (u == t) != e {
                out1("EQ-INCONSISTENT")
            } else {
                out1(&e.to_string())
            }
        }
        "debug" => {
            if toks.len() != 3 {
                return INVALID.to_string();
            }
            let dims_v = match parse_usizes(toks[1]) {
                Some(a) => a,
                None => return INVALID.to_string(),
            };
            let dims = match arr::<D>(&dims_v) {
                Some(a) => a,
                None => return INVALID.to_string(),
            };
            let xs = match parse_i64s(toks[2]) {
                Some(x) => x,
                None => return INVALID.to_string(),
            };
            if dims_v.contains(&0) || xs.len() != dims_v.iter().product::<usize>() {
                return INVALID.to_string();
            }
            let t = match catch(|| Tensor::<i64, D>::from_vec(dims, xs)) {
                Ok(t) => t,
                Err(_) => return INVALID.to_string(),
            };
            out1(&res(catch(|| escape(format!("{:?}", t).as_bytes()))))
        }
        "write" | "rt" => {
            let off = if toks[0] == "rt" { 1 } else { 0 };
            if toks.len() != 4 + off {
                return INVALID.to_string();
            }
            let chunk: usize = if off == 1 {
                match toks[2].parse() {
                    Ok(c) => c,
                    Err(_) => return INVALID.to_string(),
                }
            } else {
                0
            };
            let dims_v = match parse_usizes(toks[2 + off]) {
                Some(a) => a,
                None => return INVALID.to_string(),
            };
            let dims = match arr::<D>(&dims_v) {
                Some(a) => a,
                None => return INVALID.to_string(),
            };
            let n: usize = dims_v.iter().product();
            let data = parse_list(toks[3 + off]);
            if dims_v.contains(&0) || data.len() != n {
                return INVALID.to_string();
            }
            match toks[1] {
                "i64" => {
                    let xs: Option<Vec<i64>> = data.iter().map(|t| t.parse::<i64>().ok()).collect();
                    let xs = match xs {
                        Some(x) => x,
                        None => return INVALID.to_string(),
                    };
                    if off == 0 {
                        write_case::<i64, D>(dims, xs)
                    } else {
                        rt_case::<i64, D>(dims, xs, chunk)
                    }
                }
                "str" => {
                    if data.iter().any(|t| t.is_empty() || t.bytes().any(|b| b.is_ascii_whitespace())) {
                        return INVALID.to_string();
                    }
                    let xs: Vec<String> = data.iter().map(|t| t.to_string()).collect();
                    if off == 0 {
                        write_case::<String, D>(dims, xs)
                    } else {
                        rt_case::<String, D>(dims, xs, chunk)
                    }
                }
                _ => INVALID.to_string(),
            }
        }
        _ => "I bad-op | V bad-op".to_string(),
    }
}

/// One history `h <D> ; op ; …` over four tensor variables.  Any op that refers to an empty variable, has a list of
/// the wrong length or is malformed makes the whole line INVALID (the shrinker may produce such lines).
fn run_hist<const D: usize>(ops: &[&str]) -> String {
    let mut slots: [Option<Tensor<i64, D>>; 4] = [None, None, None, None];
    let mut raw: Vec<String> = Vec::new();
    if ops.is_empty() {
        return INVALID.to_string();
    }
    let slot = |t: &str| -> Option<usize> { t.parse::<usize>().ok().filter(|&k| k < 4) };
    for op in ops {
        let toks: Vec<&str> = op.split_whitespace().collect();
        if toks.is_empty() {
            return INVALID.to_string();
        }
        let o: String = match (toks[0], toks.len()) {
            ("mk", 4) => {
                let (s, dims_v, start) = match (slot(toks[1]), parse_usizes(toks[2]), toks[3].parse::<i64>()) {
                    (Some(a), Some(b), Ok(c)) => (a, b, c),
                    _ => return INVALID.to_string(),
                };
                let dims = match arr::<D>(&dims_v) {
                    Some(d) => d,
                    None => return INVALID.to_string(),
                };
                if start.abs() > 1_000_000_000_000 {
                    return INVALID.to_string();
                }
                let n = dims_v.iter().fold(1u128, |a, &d| a.saturating_mul(d as u128));
                if !dims_v.contains(&0) && n > 100000 {
                    return INVALID.to_string();
                }
                let data: Vec<i64> = (0..n as i64).map(|k| start + k).collect();
                match catch(|| Tensor::<i64, D>::from_vec(dims, data)) {
                    Ok(t) => {
                        slots[s] = Some(t);
                        "ok".to_string()
                    }
                    Err(e) => pc(Err(e)),
                }
            }
            ("cl", 3) => {
                let (s, r) = match (slot(toks[1]), slot(toks[2])) {
                    (Some(a), Some(b)) => (a, b),
                    _ => return INVALID.to_string(),
                };
                let src = match &slots[r] {
                    Some(t) => t,
                    None => return INVALID.to_string(),
                };
                match catch(|| src.clone()) {
                    Ok(t) => {
                        slots[s] = Some(t);
                        "ok".to_string()
                    }
                    Err(e) => pc(Err(e)),
                }
            }
            ("cf", 3) => {
                let (s, r) = match (slot(toks[1]), slot(toks[2])) {
                    (Some(a), Some(b)) if a != b => (a, b),
                    _ => return INVALID.to_string(),
                };
                if slots[s].is_none() || slots[r].is_none() {
                    return INVALID.to_string();
                }
                let src = slots[r].take().unwrap();
                let res = {
                    let dst = slots[s].as_mut().unwrap();
                    catch(|| dst.clone_from(&src))
                };
                slots[r] = Some(src);
                match res {
                    Ok(()) => "ok".to_string(),
                    Err(e) => pc(Err(e)),
                }
            }
            ("eq", 3) => {
                let (s, r) = match (slot(toks[1]), slot(toks[2])) {
                    (Some(a), Some(b)) => (a, b),
                    _ => return INVALID.to_string(),
                };
                let (t, u) = match (&slots[s], &slots[r]) {
                    (Some(t), Some(u)) => (t, u),
                    _ => return INVALID.to_string(),
                };
                pc(catch(|| {
                    let e = t == u;
                    if (t != u) == e || (u == t) != e {
                        "EQ-INCONSISTENT".to_string()
                    } else {
                        e.to_string()
                    }
                }))
            }
            ("dims", 2) => {
                let t = match slot(toks[1]).and_then(|s| slots[s].as_ref()) {
                    Some(t) => t,
                    None => return INVALID.to_string(),
                };
                pc(catch(|| show_list(t.dims().iter())))
            }
            ("dim", 3) => {
                let i: usize = match toks[2].parse() {
                    Ok(i) => i,
                    Err(_) => return INVALID.to_string(),
                };
                let t = match slot(toks[1]).and_then(|s| slots[s].as_ref()) {
                    Some(t) => t,
                    None => return INVALID.to_string(),
                };
                pc(catch(|| t.dim(i).to_string()))
            }
            ("get", 3) | ("rd", 3) => {
                let idx = match parse_usizes(toks[2]).and_then(|v| arr::<D>(&v)) {
                    Some(i) => i,
                    None => return INVALID.to_string(),
                };
                let t = match slot(toks[1]).and_then(|s| slots[s].as_ref()) {
                    Some(t) => t,
                    None => return INVALID.to_string(),
                };
                if toks[0] == "get" {
                    pc(catch(|| t.get_index(idx).to_string()))
                } else {
                    pc(catch(|| t[idx].to_string()))
                }
            }
            ("wr", 4) => {
                let idx = match parse_usizes(toks[2]).and_then(|v| arr::<D>(&v)) {
                    Some(i) => i,
                    None => return INVALID.to_string(),
                };
                let v: i64 = match toks[3].parse() {
                    Ok(v) => v,
                    Err(_) => return INVALID.to_string(),
                };
                let t = match slot(toks[1]).and_then(|s| slots[s].as_mut()) {
                    Some(t) => t,
                    None => return INVALID.to_string(),
                };
                let before: Vec<i64> = t.iter().cloned().collect();
                match catch(|| {
                    t[idx] = v;
                }) {
                    Ok(()) => show_list(t.iter()),
                    Err(e) => {
                        let e = pc(Err(e));
                        // a panicking write must not have changed anything
                        if t.iter().cloned().collect::<Vec<i64>>() != before {
                            format!("{}+changed{}", e, show_list(t.iter()))
                        } else {
                            e
                        }
                    }
                }
            }
            ("it", 2) => {
                let t = match slot(toks[1]).and_then(|s| slots[s].as_mut()) {
                    Some(t) => t,
                    None => return INVALID.to_string(),
                };
                pc(catch(|| {
                    let a: Vec<i64> = t.iter().cloned().collect();
                    let b: Vec<i64> = t.iter_mut().map(|x| *x).collect();
                    let c: Vec<i64> = t.clone().into_iter().collect();
                    if a != b || a != c {
                        "ITER-VARIANTS-DIFFER".to_string()
                    } else {
                        show_list(a.iter())
                    }
                }))
            }
            ("w", 2) => {
                let t = match slot(toks[1]).and_then(|s| slots[s].as_ref()) {
                    Some(t) => t,
                    None => return INVALID.to_string(),
                };
                pc(catch(|| escape(&write_bytes(t))))
            }
            _ => return INVALID.to_string(),
        };
        raw.push(o);
    }
    let view: Vec<String> = raw.iter().map(|o| pv(o)).collect();
    out2(&raw.join(";"), &view.join(";"))
}

// ------------------------------------------------------------------------------------------
// element-generic histories (`g <D> <ty> ; …`)
// ------------------------------------------------------------------------------------------

/// An element type of the generic histories.  `show` prints the case-line token of a value.
trait Elem: Clone + PartialEq + std::fmt::Debug + 'static {
    fn parse(tok: &str) -> Option<Self>;
    fn show(&self) -> String;
    /// `Writable` bytes of a tensor (None: the type has no `Writable`)
    fn write_t<const D: usize>(_t: &Tensor<Self, D>) -> Option<Vec<u8>> {
        None
    }
    /// `Tensor::read` (None: the type has no `Readable`)
    fn read_t<const D: usize>(_dims: [usize; D], _rd: &mut Reader) -> Option<Tensor<Self, D>> {
        None
    }
}

impl Elem for i64 {
    fn parse(tok: &str) -> Option<Self> {
        tok.parse().ok()
    }
    fn show(&self) -> String {
        self.to_string()
    }
    fn write_t<const D: usize>(t: &Tensor<Self, D>) -> Option<Vec<u8>> {
        Some(write_bytes(t))
    }
    fn read_t<const D: usize>(dims: [usize; D], rd: &mut Reader) -> Option<Tensor<Self, D>> {
        Some(Tensor::read(dims, rd))
    }
}

impl Elem for String {
    fn parse(tok: &str) -> Option<Self> {
        if !tok.is_empty() && tok.bytes().all(|b| b.is_ascii_alphanumeric() || b == b'.' || b == b'+' || b == b'-') {
            Some(tok.to_string())
        } else {
            None
        }
    }
    fn show(&self) -> String {
        self.clone()
    }
    fn write_t<const D: usize>(t: &Tensor<Self, D>) -> Option<Vec<u8>> {
        Some(write_bytes(t))
    }
    fn read_t<const D: usize>(dims: [usize; D], rd: &mut Reader) -> Option<Tensor<Self, D>> {
        Some(Tensor::read(dims, rd))
    }
}

/// `f64` literals of the case lines (compared by bits when printed: `0.0` and `-0.0` are different tokens)
const F64_TABLE: [(&str, f64); 11] = [
    ("nan", f64::NAN),
    ("0.0", 0.0),
    ("-0.0", -0.0),
    ("1.0", 1.0),
    ("-1.0", -1.0),
    ("1.5", 1.5),
    ("-2.25", -2.25),
    ("0.1", 0.1),
    ("inf", f64::INFINITY),
    ("-inf", f64::NEG_INFINITY),
    ("1e300", 1e300),
];

impl Elem for f64 {
    fn parse(tok: &str) -> Option<Self> {
        F64_TABLE.iter().find(|e| e.0 == tok).map(|e| e.1)
    }
    fn show(&self) -> String {
        if self.is_nan() {
            return "nan".to_string();
        }
        match F64_TABLE.iter().find(|e| e.1.to_bits() == self.to_bits()) {
            Some(e) => e.0.to_string(),
            None => format!("bits:{:#x}", self.to_bits()),
        }
    }
}

impl Elem for () {
    fn parse(tok: &str) -> Option<Self> {
        if tok == "u" { Some(()) } else { None }
    }
    fn show(&self) -> String {
        "u".to_string()
    }
}

/// a zero-sized element type with IO
#[derive(Clone, PartialEq, Debug)]
struct Z;

impl Writable for Z {
    fn write(&self, writer: &mut Writer) {
        writer.write_char('z');
    }
}

impl Readable for Z {
    fn read(reader: &mut Reader) -> Self {
        let _tok: String = reader.read();
        Z
    }
}

impl Elem for Z {
    fn parse(tok: &str) -> Option<Self> {
        if tok == "z" { Some(Z) } else { None }
    }
    fn show(&self) -> String {
        "z".to_string()
    }
    fn write_t<const D: usize>(t: &Tensor<Self, D>) -> Option<Vec<u8>> {
        Some(write_bytes(t))
    }
    fn read_t<const D: usize>(dims: [usize; D], rd: &mut Reader) -> Option<Tensor<Self, D>> {
        Some(Tensor::read(dims, rd))
    }
}

/// a zero-sized element type whose `==` is never true (non-reflexive, like NaN, but without any data)
#[derive(Clone, Debug)]
struct Nz;

impl PartialEq for Nz {
    fn eq(&self, _other: &Self) -> bool {
        false
    }
}

impl Elem for Nz {
    fn parse(tok: &str) -> Option<Self> {
        if tok == "n" { Some(Nz) } else { None }
    }
    fn show(&self) -> String {
        "n".to_string()
    }
}

/// a record compared by its key only: equal-comparing values are distinguishable by `tag`
#[derive(Clone)]
struct Rec {
    key: i64,
    tag: i64,
}

impl PartialEq for Rec {
    fn eq(&self, other: &Self) -> bool {
        self.key == other.key
    }
}

impl std::fmt::Debug for Rec {
    fn fmt(&self, f: &mut std::fmt::Formatter<'_>) -> std::fmt::Result {
        write!(f, "{}:{}", self.key, self.tag)
    }
}

impl Writable for Rec {
    fn write(&self, writer: &mut Writer) {
        writer.write(&self.key);
        writer.write_char(':');
        writer.write(&self.tag);
    }
}

impl Readable for Rec {
    fn read(reader: &mut Reader) -> Self {
        let tok: String = reader.read();
        <Rec as Elem>::parse(&tok).unwrap_or(Rec { key: 0, tag: 0 })
    }
}

impl Elem for Rec {
    fn parse(tok: &str) -> Option<Self> {
        let (k, t) = tok.split_once(':')?;
        Some(Rec { key: k.parse().ok()?, tag: t.parse().ok()? })
    }
    fn show(&self) -> String {
        format!("{}:{}", self.key, self.tag)
    }
    fn write_t<const D: usize>(t: &Tensor<Self, D>) -> Option<Vec<u8>> {
        Some(write_bytes(t))
    }
    fn read_t<const D: usize>(dims: [usize; D], rd: &mut Reader) -> Option<Tensor<Self, D>> {
        Some(Tensor::read(dims, rd))
    }
}

fn parse_elems<E: Elem>(s: &str) -> Option<Vec<E>> {
    parse_list(s).iter().map(|t| E::parse(t)).collect()
}

fn show_opt(o: Option<String>) -> String {
    match o {
        Some(s) => format!("some({})", s),
        None => "none".to_string(),
    }
}

/// One question to an iterator after `k` x `next` and `j` x `next_back`.  Generic over the iterator type: whatever
/// `iter()` / `iter_mut()` / `into_iter()` return must be double-ended and exact-sized (they are std slice / vec iterators).
fn iter_probe<I, F>(mut it: I, k: usize, j: usize, q: &str, n: usize, show: F) -> String
where
    I: DoubleEndedIterator + ExactSizeIterator,
    F: Fn(&I::Item) -> String,
{
    for _ in 0..k {
        if it.next().is_none() {
            break;
        }
    }
    for _ in 0..j {
        if it.next_back().is_none() {
            break;
        }
    }
    match q {
        "count" => it.count().to_string(),
        "len" => {
            let l = it.len();
            let h = it.size_hint();
            if h != (l, Some(l)) { format!("len={}/hint={:?}", l, h).replace(' ', "") } else { l.to_string() }
        }
        "last" => show_opt(it.last().map(|x| show(&x))),
        "nth" => show_opt(it.nth(n).map(|x| show(&x))),
        "nthb" => show_opt(it.nth_back(n).map(|x| show(&x))),
        "rev" => show_list(it.rev().map(|x| show(&x))),
        "rest" => show_list(it.map(|x| show(&x))),
        "fold" => {
            let v = it.fold(Vec::new(), |mut acc, x| {
                acc.push(show(&x));
                acc
            });
            show_list(v.into_iter())
        }
        "foreach" => {
            let mut v = Vec::new();
            it.for_each(|x| v.push(show(&x)));
            show_list(v.into_iter())
        }
        "rfold" => {
            // back to front, as `rev()` yields
            let v = it.rfold(Vec::new(), |mut acc, x| {
                acc.push(show(&x));
                acc
            });
            show_list(v.into_iter())
        }
        _ => "bad-query".to_string(),
    }
}

fn run_ghist<E: Elem, const D: usize>(ops: &[&str]) -> String {
    let mut slots: [Option<Tensor<E, D>>; 4] = [None, None, None, None];
    let mut raw: Vec<String> = Vec::new();
    if ops.is_empty() {
        return INVALID.to_string();
    }
    let slot = |t: &str| -> Option<usize> { t.parse::<usize>().ok().filter(|&k| k < 4) };
    // a shape token: a list of length D whose product (if no extent is 0) stays small
    let shape = |t: &str| -> Option<([usize; D], Vec<usize>)> {
        let v = parse_usizes(t)?;
        let a = arr::<D>(&v)?;
        let n = v.iter().fold(1u128, |a, &d| a.saturating_mul(d as u128));
        if !v.contains(&0) && n > 100000 {
            return None;
        }
        Some((a, v))
    };
    let store = |slots: &mut [Option<Tensor<E, D>>; 4], s: usize, r: Result<Tensor<E, D>, String>| -> String {
        match r {
            Ok(t) => {
                slots[s] = Some(t);
                "ok".to_string()
            }
            Err(e) => pc(Err(e)),
        }
    };
    for op in ops {
        let toks: Vec<&str> = op.split_whitespace().collect();
        if toks.is_empty() {
            return INVALID.to_string();
        }
        let o: String = match (toks[0], toks.len()) {
            ("vec", 4) | ("sl", 4) | ("rdv", 4) => {
                let (s, (dims, dims_v), data) = match (slot(toks[1]), shape(toks[2]), parse_elems::<E>(toks[3])) {
                    (Some(a), Some(b), Some(c)) => (a, b, c),
                    _ => return INVALID.to_string(),
                };
                if data.len() > 100000 {
                    return INVALID.to_string();
                }
                match toks[0] {
                    "vec" => {
                        let r = catch(|| Tensor::<E, D>::from_vec(dims, data));
                        store(&mut slots, s, r)
                    }
                    "sl" => {
                        let r = catch(|| Tensor::<E, D>::from_slice(dims, &data));
                        store(&mut slots, s, r)
                    }
                    _ => {
                        let n: usize = dims_v.iter().product();
                        if !dims_v.contains(&0) && data.len() < n {
                            return INVALID.to_string();
                        }
                        // the elements as text, separated alternately by a blank and a newline, delivered 3 bytes at a time
                        let mut text = String::new();
                        for (k, x) in data.iter().enumerate() {
                            if k > 0 {
                                text.push(if k % 2 == 0 { '\n' } else { ' ' });
                            }
                            text.push_str(&x.show());
                        }
                        let r = catch(|| {
                            let mut rd = Reader::new(Box::new(Chunked { data: text.into_bytes(), pos: 0, chunk: 3 }));
                            E::read_t::<D>(dims, &mut rd)
                        });
                        match r {
                            Ok(None) => return INVALID.to_string(),
                            Ok(Some(t)) => store(&mut slots, s, Ok(t)),
                            Err(e) => store(&mut slots, s, Err(e)),
                        }
                    }
                }
            }
            ("new", 4) => {
                let (s, (dims, _), v) = match (slot(toks[1]), shape(toks[2]), E::parse(toks[3])) {
                    (Some(a), Some(b), Some(c)) => (a, b, c),
                    _ => return INVALID.to_string(),
                };
                let r = catch(|| Tensor::<E, D>::new(dims, v));
                store(&mut slots, s, r)
            }
            ("like", 4) => {
                let (s, r, v) = match (slot(toks[1]), slot(toks[2]), E::parse(toks[3])) {
                    (Some(a), Some(b), Some(c)) => (a, b, c),
                    _ => return INVALID.to_string(),
                };
                let src = match &slots[r] {
                    Some(t) => t,
                    None => return INVALID.to_string(),
                };
                let res = catch(|| Tensor::<E, D>::new(*src.dims(), v));
                store(&mut slots, s, res)
            }
            ("coll", 3) => {
                let (s, r) = match (slot(toks[1]), slot(toks[2])) {
                    (Some(a), Some(b)) => (a, b),
                    _ => return INVALID.to_string(),
                };
                let src = match &slots[r] {
                    Some(t) => t,
                    None => return INVALID.to_string(),
                };
                let res = catch(|| {
                    let d = *src.dims();
                    let v: Vec<E> = src.clone().into_iter().collect();
                    Tensor::<E, D>::from_vec(d, v)
                });
                store(&mut slots, s, res)
            }
            ("cl", 3) => {
                let (s, r) = match (slot(toks[1]), slot(toks[2])) {
                    (Some(a), Some(b)) => (a, b),
                    _ => return INVALID.to_string(),
                };
                let src = match &slots[r] {
                    Some(t) => t,
                    None => return INVALID.to_string(),
                };
                let res = catch(|| src.clone());
                store(&mut slots, s, res)
            }
            ("cf", 3) => {
                let (s, r) = match (slot(toks[1]), slot(toks[2])) {
                    (Some(a), Some(b)) if a != b => (a, b),
                    _ => return INVALID.to_string(),
                };
                if slots[s].is_none() || slots[r].is_none() {
                    return INVALID.to_string();
                }
                let src = slots[r].take().unwrap();
                let res = {
                    let dst = slots[s].as_mut().unwrap();
                    catch(|| dst.clone_from(&src))
                };
                slots[r] = Some(src);
                match res {
                    Ok(()) => "ok".to_string(),
                    Err(e) => pc(Err(e)),
                }
            }
            ("eq", 3) | ("ne", 3) => {
                let (s, r) = match (slot(toks[1]), slot(toks[2])) {
                    (Some(a), Some(b)) => (a, b),
                    _ => return INVALID.to_string(),
                };
                // `s = r`: both operands are references to the same object
                let (t, u) = match (&slots[s], &slots[r]) {
                    (Some(t), Some(u)) => (t, u),
                    _ => return INVALID.to_string(),
                };
                if toks[0] == "ne" {
                    pc(catch(|| (t != u).to_string()))
                } else {
                    pc(catch(|| {
                        let e = t == u;
                        let (n, rev) = (t != u, u == t);
                        if n == e || rev != e {
                            format!("EQ-INCONSISTENT(eq={},ne={},rev={})", e, n, rev)
                        } else {
                            e.to_string()
                        }
                    }))
                }
            }
            ("dims", 2) => {
                let t = match slot(toks[1]).and_then(|s| slots[s].as_ref()) {
                    Some(t) => t,
                    None => return INVALID.to_string(),
                };
                pc(catch(|| show_list(t.dims().iter())))
            }
            ("dim", 3) => {
                let i: usize = match toks[2].parse() {
                    Ok(i) => i,
                    Err(_) => return INVALID.to_string(),
                };
                let t = match slot(toks[1]).and_then(|s| slots[s].as_ref()) {
                    Some(t) => t,
                    None => return INVALID.to_string(),
                };
                pc(catch(|| t.dim(i).to_string()))
            }
            ("get", 3) | ("rd", 3) => {
                let idx = match parse_usizes(toks[2]).and_then(|v| arr::<D>(&v)) {
                    Some(i) => i,
                    None => return INVALID.to_string(),
                };
                let t = match slot(toks[1]).and_then(|s| slots[s].as_ref()) {
                    Some(t) => t,
                    None => return INVALID.to_string(),
                };
                if toks[0] == "get" {
                    pc(catch(|| t.get_index(idx).to_string()))
                } else {
                    pc(catch(|| t[idx].show()))
                }
            }
            ("wr", 4) => {
                let idx = match parse_usizes(toks[2]).and_then(|v| arr::<D>(&v)) {
                    Some(i) => i,
                    None => return INVALID.to_string(),
                };
                let v: E = match E::parse(toks[3]) {
                    Some(v) => v,
                    None => return INVALID.to_string(),
                };
                let t = match slot(toks[1]).and_then(|s| slots[s].as_mut()) {
                    Some(t) => t,
                    None => return INVALID.to_string(),
                };
                let before = show_list(t.iter().map(|x| x.show()));
                match catch(|| {
                    t[idx] = v;
                }) {
                    Ok(()) => show_list(t.iter().map(|x| x.show())),
                    Err(e) => {
                        let e = pc(Err(e));
                        let after = show_list(t.iter().map(|x| x.show()));
                        if after != before { format!("{}+changed{}", e, after) } else { e }
                    }
                }
            }
            ("it", 2) => {
                let t = match slot(toks[1]).and_then(|s| slots[s].as_mut()) {
                    Some(t) => t,
                    None => return INVALID.to_string(),
                };
                pc(catch(|| {
                    let a = show_list(t.iter().map(|x| x.show()));
                    let b = show_list(t.iter_mut().map(|x| x.show()));
                    let c = show_list(t.clone().into_iter().map(|x| x.show()));
                    if a != b || a != c { "ITER-VARIANTS-DIFFER".to_string() } else { a }
                }))
            }
            ("itx", 5) | ("itx", 6) => {
                // `next_back` steps are capped (the list model's `next_back` is linear in the window)
                let (k, j) = match (toks[2].parse::<usize>(), toks[3].parse::<usize>()) {
                    (Ok(k), Ok(j)) if k <= 200000 && j <= 300 => (k, j),
                    _ => return INVALID.to_string(),
                };
                let q = toks[4];
                let n: usize = match (q, toks.len()) {
                    ("nth", 6) | ("nthb", 6) => match toks[5].parse::<usize>() {
                        Ok(n) if n <= 200000 && (q == "nth" || n <= 300) => n,
                        _ => return INVALID.to_string(),
                    },
                    ("count", 5) | ("len", 5) | ("last", 5) | ("rev", 5) | ("rest", 5) => 0,
                    _ => return INVALID.to_string(),
                };
                let t = match slot(toks[1]).and_then(|s| slots[s].as_mut()) {
                    Some(t) => t,
                    None => return INVALID.to_string(),
                };
                // the provided methods that must agree with collecting
                let variants: Vec<&str> = match q {
                    "rest" => vec!["rest", "fold", "foreach"],
                    "rev" => vec!["rev", "rfold"],
                    _ => vec![q],
                };
                pc(catch(|| {
                    let mut outs: Vec<String> = Vec::new();
                    for v in &variants {
                        outs.push(iter_probe(t.iter(), k, j, v, n, |x| x.show()));
                        outs.push(iter_probe(t.iter_mut(), k, j, v, n, |x| x.show()));
                        outs.push(iter_probe(t.clone().into_iter(), k, j, v, n, |x| x.show()));
                    }
                    if outs.iter().all(|o| *o == outs[0]) {
                        outs[0].clone()
                    } else {
                        format!("ITER-VARIANTS-DIFFER({})", outs.join("/"))
                    }
                }))
            }
            ("w", 2) => {
                let t = match slot(toks[1]).and_then(|s| slots[s].as_ref()) {
                    Some(t) => t,
                    None => return INVALID.to_string(),
                };
                match catch(|| E::write_t::<D>(t).map(|b| escape(&b))) {
                    Ok(None) => return INVALID.to_string(),
                    Ok(Some(s)) => s,
                    Err(e) => pc(Err(e)),
                }
            }
            ("dbg", 2) => {
                let t = match slot(toks[1]).and_then(|s| slots[s].as_ref()) {
                    Some(t) => t,
                    None => return INVALID.to_string(),
                };
                pc(catch(|| escape(format!("{:?}", t).as_bytes())))
            }
            _ => return INVALID.to_string(),
        };
        raw.push(o);
    }
    let view: Vec<String> = raw.iter().map(|o| pv(o)).collect();
    out2(&raw.join(";"), &view.join(";"))
}

fn run_ghist_d<const D: usize>(ty: &str, ops: &[&str]) -> String {
    match ty {
        "i64" => run_ghist::<i64, D>(ops),
        "str" => run_ghist::<String, D>(ops),
        "f64" => run_ghist::<f64, D>(ops),
        "unit" => run_ghist::<(), D>(ops),
        "zst" => run_ghist::<Z, D>(ops),
        "nz" => run_ghist::<Nz, D>(ops),
        "rec" => run_ghist::<Rec, D>(ops),
        _ => INVALID.to_string(),
    }
}

// ---- several values read from ONE reader: `rs <ty> <chunk> <lead> ; t <dims> <data> <seps> ; k <tok> <sep> ; …` ----
// The input is `lead` followed by every element / token followed by its own separator (codes over s = blank,
// n = newline, t = tab, r = CR; `-` = nothing, only after the very last token).  One `Reader` over that input reads
// the items in order: `Tensor::read` for `t` items (each with its own rank and shape), `reader.read::<T>()` for `k`.

fn sep_bytes(code: &str) -> Option<Vec<u8>> {
    if code == "-" {
        return Some(vec![]);
    }
    code.bytes()
        .map(|c| match c {
            b's' => Some(b' '),
            b'n' => Some(b'\n'),
            b't' => Some(b'\t'),
            b'r' => Some(b'\r'),
            _ => None,
        })
        .collect()
}

fn rs_read_t<T: Readable + std::fmt::Display, const D: usize>(dims: &[usize], rd: &mut Reader) -> String {
    let u = Tensor::<T, D>::read(arr::<D>(dims).unwrap(), rd);
    format!("t{}{}", show_list(u.dims().iter()), show_list(u.iter()))
}

fn run_rs<T: Readable + std::fmt::Display + std::str::FromStr>(hdr: &[&str], parts: &[&str], is_str: bool) -> String {
    let chunk: usize = match hdr[2].parse() {
        Ok(c) => c,
        Err(_) => return INVALID.to_string(),
    };
    let mut text = match sep_bytes(hdr[3]) {
        Some(b) => b,
        None => return INVALID.to_string(),
    };
    if parts.is_empty() || parts.len() > 16 {
        return INVALID.to_string();
    }
    let valid = |tok: &str| -> Option<String> {
        if is_str {
            if tok.is_empty() { None } else { Some(tok.to_string()) }
        } else {
            tok.parse::<i64>().ok().map(|v| v.to_string())
        }
    };
    // (shape or None for a plain token); pieces = (canonical token, separator)
    let mut items: Vec<Option<Vec<usize>>> = vec![];
    let mut pieces: Vec<(String, Vec<u8>)> = vec![];
    for part in parts {
        let t: Vec<&str> = part.split_whitespace().collect();
        match (t.first().copied(), t.len()) {
            (Some("t"), 4) => {
                let dims = match parse_usizes(t[1]) {
                    Some(d) => d,
                    None => return INVALID.to_string(),
                };
                let data: Option<Vec<String>> = t[2].split(',').map(|x| valid(x)).collect();
                let seps: Option<Vec<Vec<u8>>> = t[3].split(',').map(sep_bytes).collect();
                let (data, seps) = match (data, seps) {
                    (Some(a), Some(b)) => (a, b),
                    _ => return INVALID.to_string(),
                };
                let n: usize = dims.iter().product();
                if dims.contains(&0) || dims.len() > 4 || n != data.len() || seps.len() != data.len() || data.len() > 256 {
                    return INVALID.to_string();
                }
                pieces.extend(data.into_iter().zip(seps));
                items.push(Some(dims));
            }
            (Some("k"), 3) => {
                let (tok, sep) = match (valid(t[1]), sep_bytes(t[2])) {
                    (Some(a), Some(b)) => (a, b),
                    _ => return INVALID.to_string(),
                };
                pieces.push((tok, sep));
                items.push(None);
            }
            _ => return INVALID.to_string(),
        }
    }
    if pieces[..pieces.len() - 1].iter().any(|p| p.1.is_empty()) {
        return INVALID.to_string();
    }
    for (tok, sep) in &pieces {
        text.extend_from_slice(tok.as_bytes());
        text.extend_from_slice(sep);
    }
    let r = catch(|| {
        let mut rd = Reader::new(Box::new(Chunked { data: text, pos: 0, chunk }));
        let mut obs: Vec<String> = vec![];
        for it in &items {
            obs.push(match it {
                Some(dims) => match dims.len() {
                    0 => rs_read_t::<T, 0>(dims, &mut rd),
                    1 => rs_read_t::<T, 1>(dims, &mut rd),
                    2 => rs_read_t::<T, 2>(dims, &mut rd),
                    3 => rs_read_t::<T, 3>(dims, &mut rd),
                    _ => rs_read_t::<T, 4>(dims, &mut rd),
                },
                None => format!("k={}", rd.read::<T>()),
            });
        }
        obs.push(format!("eof={}", rd.is_eof()));
        obs.join(" ; ")
    });
    out1(&res(r))
}

fn run_case(line: &str) -> String {
    let toks: Vec<&str> = line.split_whitespace().collect();
    if toks.len() < 2 {
        return INVALID.to_string();
    }
    if toks[0] == "g" {
        let parts: Vec<&str> = line.split(';').map(|p| p.trim()).collect();
        let hdr: Vec<&str> = parts[0].split_whitespace().collect();
        if hdr.len() != 3 {
            return INVALID.to_string();
        }
        return match hdr[1] {
            "0" => run_ghist_d::<0>(hdr[2], &parts[1..]),
            "1" => run_ghist_d::<1>(hdr[2], &parts[1..]),
            "2" => run_ghist_d::<2>(hdr[2], &parts[1..]),
            "3" => run_ghist_d::<3>(hdr[2], &parts[1..]),
            "4" => run_ghist_d::<4>(hdr[2], &parts[1..]),
            _ => INVALID.to_string(),
        };
    }
    if toks[0] == "rs" {
        let parts: Vec<&str> = line.split(';').map(|p| p.trim()).collect();
        let hdr: Vec<&str> = parts[0].split_whitespace().collect();
        if hdr.len() != 4 {
            return INVALID.to_string();
        }
        return match hdr[1] {
            "i64" => run_rs::<i64>(&hdr, &parts[1..], false),
            "str" => run_rs::<String>(&hdr, &parts[1..], true),
            _ => INVALID.to_string(),
        };
    }
    if toks[0] == "h" {
        let parts: Vec<&str> = line.split(';').map(|p| p.trim()).collect();
        let hdr: Vec<&str> = parts[0].split_whitespace().collect();
        if hdr.len() != 2 {
            return INVALID.to_string();
        }
        return match hdr[1] {
            "0" => run_hist::<0>(&parts[1..]),
            "1" => run_hist::<1>(&parts[1..]),
            "2" => run_hist::<2>(&parts[1..]),
            "3" => run_hist::<3>(&parts[1..]),
            "4" => run_hist::<4>(&parts[1..]),
            _ => INVALID.to_string(),
        };
    }
    // the rank is the length of the (first) dims list
    let dims_tok = match toks[0] {
        "ctor" | "write" | "at" => toks.get(2),
        "rt" => toks.get(3),
        _ => toks.get(1),
    };
    let rank = match dims_tok {
        Some(t) => parse_list(t).len(),
        None => return INVALID.to_string(),
    };
    match rank {
        0 => run_d::<0>(&toks),
        1 => run_d::<1>(&toks),
        2 => run_d::<2>(&toks),
        3 => run_d::<3>(&toks),
        4 => run_d::<4>(&toks),
        _ => "I unsupported-rank | V unsupported-rank".to_string(),
    }
}

// ------------------------------------------------------------------------------------------
// generators
// ------------------------------------------------------------------------------------------

fn join(v: &[usize]) -> String {
    if v.is_empty() {
        "-".to_string()
    } else {
        v.iter().map(|x| x.to_string()).collect::<Vec<_>>().join(",")
    }
}

fn join_s(v: &[String]) -> String {
    if v.is_empty() {
        "-".to_string()
    } else {
        v.join(",")
    }
}

/// all shapes of the given rank with extents in lo..=hi
fn shapes(rank: usize, lo: usize, hi: usize) -> Vec<Vec<usize>> {
    let mut out = vec![vec![]];
    for _ in 0..rank {
        let mut next = vec![];
        for p in &out {
            for d in lo..=hi {
                let mut q = p.clone();
                q.push(d);
                next.push(q);
            }
        }
        out = next;
    }
    out
}

fn rand_i64_elem(rng: &mut SplitMix64) -> i64 {
    match rng.below(8) {
        0 => i64::MIN,
        1 => i64::MAX,
        2 => 0,
        3 => -1,
        4 => rng.range_i64(-1000, 1000),
        5 => {
            let s = rng.below(63);
            let v = 1i64 << s;
            if rng.chance(1, 2) { -v } else { v - 1 }
        }
        _ => rng.next_u64() as i64,
    }
}

fn rand_str_elem(rng: &mut SplitMix64) -> String {
    const ALPHA: &[u8] = b"abcxyzABZ0189-+.,;:!?#[](){}<>=*&^%$@~|\\\"'`";
    // no blank, no '/', no '_' (used by the escaping), no ',' (list separator)
    let long = rng.chance(1, 10);
    let len = 1 + rng.below(if long { 12 } else { 4 }) as usize;
    (0..len)
        .map(|_| loop {
            let c = ALPHA[rng.below(ALPHA.len() as u64) as usize] as char;
            if c != ',' && c != '/' && c != '_' {
                break c;
            }
        })
        .collect()
}

fn gen(args: &Args, emit: &mut dyn FnMut(String), st: &mut Stats) {
    let thorough = args.tier == "thorough";
    // `--profile debug`: the unoptimised build with debug assertions runs the histories in full and a sample of the bulk streams
    let debug = args.extra.get("profile").map(|p| p == "debug").unwrap_or(false);
    let mut rng = SplitMix64::new(args.seed ^ 0xC19);

    // (1) index probes: every shape, every valid index, every index out of range in exactly one dimension.
    //     `get` = get_index; `at <kind>` = t[idx] and (independently) t[idx] = v on a tensor built by `kind`,
    //     with all cells compared afterwards.
    const KINDS: [&str; 4] = ["vec", "slice", "new", "read"];
    let mut rot = 0usize;
    for rank in 0..=4usize {
        let hi = if rank == 4 && !thorough { 4 } else { 5 };
        for dims in shapes(rank, 1, hi) {
            let n: usize = dims.iter().product();
            if debug && rank >= 3 && !rng.chance(1, if thorough { 2 } else { 6 }) {
                continue;
            }
            let ds = join(&dims);
            for idx in all_idx(&dims) {
                let is = join(&idx);
                emit(format!("get {} {}", ds, is));
                st.bump(&format!("index_valid_rank{}", rank));
                if thorough {
                    for k in KINDS {
                        emit(format!("at {} {} {}", k, ds, is));
                        st.bump(&format!("at_valid_{}", k));
                    }
                } else {
                    rot += 1;
                    for k in ["vec", KINDS[1 + rot % 3]] {
                        emit(format!("at {} {} {}", k, ds, is));
                        st.bump(&format!("at_valid_{}", k));
                    }
                }
                // out of range in exactly dimension k (the other coordinates valid)
                for k in 0..rank {
                    // each (other coordinates) combination once: only when idx[k] == 0
                    if idx[k] != 0 {
                        continue;
                    }
                    let offset = |j: &[usize]| -> u128 {
                        let mut off: u128 = 0;
                        for (a, d) in j.iter().zip(dims.iter()) {
                            off = off * (*d as u128) + *a as u128;
                        }
                        off
                    };
                    // (value, all four constructor kinds?)
                    let mut oob: Vec<(usize, bool)> = vec![(dims[k], true), (dims[k] + 1, true)];
                    if thorough {
                        // every out-of-range value whose flattened offset is still inside the storage
                        let mut v = dims[k] + 2;
                        loop {
                            let mut j = idx.clone();
                            j[k] = v;
                            if offset(&j) >= n as u128 {
                                break;
                            }
                            oob.push((v, false));
                            v += 1;
                        }
                        oob.push((2 * dims[k] + 1, true));
                        oob.push((1usize << 40, true));
                        oob.push((usize::MAX, false));
                    } else if rng.chance(1, 8) {
                        oob.push((usize::MAX, false));
                    } else if rng.chance(1, 4) {
                        // a random further aliasing value
                        let room = (n / dims[k].max(1)).max(1);
                        oob.push((dims[k] + 2 + rng.below(room as u64) as usize, false));
                    }
                    for (v, all_kinds) in oob {
                        let mut j = idx.clone();
                        j[k] = v;
                        let js = join(&j);
                        emit(format!("get {} {}", ds, js));
                        let inside = offset(&j) < n as u128;
                        let mut lines = 1;
                        if thorough && all_kinds {
                            for kd in KINDS {
                                emit(format!("at {} {} {}", kd, ds, js));
                                st.bump(&format!("at_oob_{}", kd));
                                lines += 1;
                            }
                        } else {
                            rot += 1;
                            let kd = if thorough { "vec" } else { KINDS[rot % 4] };
                            emit(format!("at {} {} {}", kd, ds, js));
                            st.bump(&format!("at_oob_{}", kd));
                            lines += 1;
                        }
                        st.add(if inside { "index_oob_one_dim_offset_in_storage" } else { "index_oob_one_dim_offset_outside" }, lines);
                        st.add(&format!("index_oob_dim{}_of_rank{}", k, rank), lines);
                    }
                }
            }
            // a few indices out of range in several dimensions
            if rank >= 2 {
                let j: Vec<usize> = dims.iter().map(|d| d + rng.below(2) as usize).collect();
                emit(format!("get {} {}", ds, join(&j)));
                emit(format!("at {} {} {}", KINDS[rot % 4], ds, join(&j)));
                st.add("index_oob_multi_or_valid_random", 2);
            }
            emit(format!("iter {}", ds));
            st.bump("iter");
        }
    }

    // (2) constructors: zero extents and wrong lengths
    for rank in 0..=4usize {
        let hi = if rank == 4 && !thorough { 3 } else { 5 };
        for dims in shapes(rank, 0, hi) {
            let n: usize = dims.iter().product();
            let ds = join(&dims);
            let zero = dims.contains(&0);
            let mut lens = vec![n, n + 1, if n > 0 { n - 1 } else { 2 }, 0];
            lens.dedup();
            for kind in ["vec", "slice"] {
                for &l in &lens {
                    emit(format!("ctor {} {} {}", kind, ds, l));
                    st.bump(if zero { "ctor_zero_extent" } else if l == n { "ctor_ok" } else { "ctor_wrong_len" });
                }
            }
            emit(format!("ctor new {} 0", ds));
            emit(format!("ctor read {} {}", ds, n));
            emit(format!("ctor read {} {}", ds, n + 3));
            st.add(if zero { "ctor_zero_extent" } else { "ctor_ok" }, 3);
        }
    }

    // (2b) extents whose product does not fit `usize` (the checked build must reject them with
    //      an overflow panic; an unchecked build would wrap, e.g. 2^32 * 2^32 = 0 = len of an empty vec)
    let huge: Vec<Vec<usize>> = vec![
        vec![1 << 32, 1 << 32],
        vec![1 << 63, 2],
        vec![2, 1 << 63],
        vec![usize::MAX, usize::MAX],
        vec![usize::MAX, 2],
        vec![1 << 32, 1 << 32, 1],
        vec![1, 1 << 32, 1 << 32],
        vec![1 << 22, 1 << 22, 1 << 22],
        vec![3, 1 << 62, 3],
        vec![1 << 16, 1 << 16, 1 << 16, 1 << 16],
        vec![1 << 16, 1 << 16, 1 << 16, (1 << 16) + 1],
        vec![1 << 32, 1 << 32, 0],
        vec![0, 1 << 63, 1 << 63, 2],
        // products that fit but are far from the data length
        vec![1 << 31, 1 << 31],
        vec![1 << 16, 1 << 16, 1 << 16, (1 << 16) - 1],
        vec![usize::MAX],
        vec![usize::MAX, 1],
    ];
    for dims in &huge {
        let ds = join(dims);
        for kind in ["vec", "slice"] {
            for l in [0usize, 1, 5] {
                emit(format!("ctor {} {} {}", kind, ds, l));
                st.bump("ctor_huge_extents");
            }
        }
        let p = dims.iter().fold(1u128, |a, &d| a.saturating_mul(d as u128));
        if dims.contains(&0) || p >= 1u128 << 64 {
            emit(format!("ctor new {} 0", ds));
            emit(format!("ctor read {} 3", ds));
            st.add("ctor_huge_extents", 2);
        }
    }

    // (3) equality across all pairs of shapes of equal rank with equal element count
    let eq_max = if thorough { 64 } else { 24 };
    for rank in 0..=4usize {
        let all = shapes(rank, 1, 5);
        for a in &all {
            let n: usize = a.iter().product();
            if n > eq_max {
                continue;
            }
            let data: Vec<String> = (0..n).map(|k| ((k as i64 * 7 + 1) % 10).to_string()).collect();
            let xs = join_s(&data);
            for b in &all {
                if b.iter().product::<usize>() != n {
                    continue;
                }
                emit(format!("eq {} {} {} {}", join(a), join(b), xs, xs));
                st.bump(if a == b { "eq_same_shape_same_data" } else { "eq_diff_shape_same_data" });
            }
            // same shape, one element differs
            let k = rng.below(n as u64) as usize;
            let mut d2 = data.clone();
            d2[k] = "-5".to_string();
            emit(format!("eq {} {} {} {}", join(a), join(a), xs, join_s(&d2)));
            st.bump("eq_same_shape_diff_data");
            // different shapes with different numbers of elements
            if let Some(b) = all.iter().find(|b| b.iter().product::<usize>() == n + 1) {
                let mut d3 = data.clone();
                d3.push("0".into());
                emit(format!("eq {} {} {} {}", join(a), join(b), xs, join_s(&d3)));
                st.bump("eq_diff_count");
            }
        }
    }

    // (4) Writable bytes and the write → Reader round trip
    let io_max = if thorough { 625 } else { 60 };
    let chunks = [0usize, 1, 2, 3, 7, 64];
    for rank in 0..=4usize {
        for dims in shapes(rank, 1, 5) {
            let n: usize = dims.iter().product();
            if n > io_max {
                continue;
            }
            if !thorough && rank == 4 && !rng.chance(1, 3) {
                continue;
            }
            let ds = join(&dims);
            let xi: Vec<String> = (0..n).map(|_| rand_i64_elem(&mut rng).to_string()).collect();
            let xs: Vec<String> = (0..n).map(|_| rand_str_elem(&mut rng)).collect();
            emit(format!("debug {} {}", ds, join_s(&xi)));
            st.bump("debug");
            emit(format!("write i64 {} {}", ds, join_s(&xi)));
            emit(format!("write str {} {}", ds, join_s(&xs)));
            let c1 = *rng.pick(&chunks);
            let c2 = *rng.pick(&chunks);
            emit(format!("rt i64 {} {} {}", c1, ds, join_s(&xi)));
            emit(format!("rt str {} {} {}", c2, ds, join_s(&xs)));
            st.add(&format!("io_rank{}", rank), 4);
            st.bump(&format!("rt_chunk_{}", c1));
            st.bump(&format!("rt_chunk_{}", c2));
            if thorough {
                for &c in &chunks {
                    emit(format!("rt i64 {} {} {}", c, ds, join_s(&xi)));
                    st.bump(&format!("rt_chunk_{}", c));
                }
            }
        }
    }

    // (4b) several values read from ONE reader over one input: tensors of different ranks / shapes and plain tokens,
    //      every element followed by its own random whitespace (blank / newline / tab / CR-LF, one or several), so a
    //      tensor ends in the middle of a line, at a line end or before blank lines, and the next value starts right there
    {
        const SEPS: [&str; 12] = ["s", "s", "s", "n", "n", "ss", "sn", "ns", "nn", "t", "rn", "nsn"];
        let count = if thorough { 6000 } else if debug { 150 } else { 500 };
        for i in 0..count {
            let ty = if i % 3 == 2 { "str" } else { "i64" };
            let k = 2 + rng.below(4) as usize;
            let mut parts: Vec<String> = vec![];
            for j in 0..k {
                let last = j + 1 == k;
                let elem = |rng: &mut SplitMix64| -> String {
                    if ty == "str" {
                        rand_str_elem(rng).replace(';', ":").replace('|', "!")
                    } else {
                        rand_i64_elem(rng).to_string()
                    }
                };
                if j > 0 && rng.chance(1, 4) {
                    let sep = if last && rng.chance(1, 3) { "-" } else { *rng.pick(&SEPS) };
                    parts.push(format!("k {} {}", elem(&mut rng), sep));
                    st.bump("rs_token_items");
                    continue;
                }
                let rank = rng.below(5) as usize;
                let mut dims: Vec<usize> = vec![];
                let mut n = 1usize;
                for _ in 0..rank {
                    let d = 1 + rng.below(if rank <= 2 { 5 } else { 3 }) as usize;
                    dims.push(d);
                    n *= d;
                }
                let data: Vec<String> = (0..n).map(|_| elem(&mut rng)).collect();
                let mut seps: Vec<String> = (0..n).map(|_| rng.pick(&SEPS).to_string()).collect();
                // the end of the tensor: inside a line (blank), at a line end, or at the end of the input
                let end = match rng.below(4) {
                    0 | 1 => "s",
                    2 => "n",
                    _ => *rng.pick(&SEPS),
                };
                seps[n - 1] = if last && rng.chance(1, 3) { "-".to_string() } else { end.to_string() };
                parts.push(format!("t {} {} {}", join(&dims), join_s(&data), join_s(&seps)));
                st.bump(&format!("rs_tensor_rank{}", rank));
            }
            let lead = match rng.below(6) {
                0 => "s",
                1 => "n",
                _ => "-",
            };
            let chunk = *rng.pick(&chunks);
            emit(format!("rs {} {} {} ; {}", ty, chunk, lead, parts.join(" ; ")));
            st.bump("rs_plans");
        }
    }

    // (5) histories over several tensor variables: clone(), clone_from (same shape / another shape with the same
    //     element count / another count), then shape, ==, indexing (valid and out of range per dimension, for the
    //     source's AND for the overwritten target's old shape), iteration, writing, Writable output on the copy,
    //     and the source afterwards.
    let hist_shapes = |rank: usize, thorough: bool| -> Vec<Vec<usize>> {
        match rank {
            0 => vec![vec![]],
            1 => shapes(1, 1, if thorough { 8 } else { 6 }),
            2 => shapes(2, 1, if thorough { 5 } else { 4 }),
            3 => shapes(3, 1, if thorough { 4 } else { 3 }),
            _ => shapes(4, 1, if thorough { 3 } else { 2 }),
        }
    };
    // probes of variable `v` against a shape: last valid index, a random valid one, and per dimension an index
    // that is out of range there (by 0 or 1 beyond the extent) with the other coordinates valid
    fn probes(v: usize, shape: &[usize], rng: &mut SplitMix64, writes: bool, ops: &mut Vec<String>) {
        let rank = shape.len();
        let last: Vec<usize> = shape.iter().map(|d| d - 1).collect();
        let rnd: Vec<usize> = shape.iter().map(|&d| rng.below(d as u64) as usize).collect();
        ops.push(format!("rd {} {}", v, join(&last)));
        ops.push(format!("get {} {}", v, join(&rnd)));
        ops.push(format!("rd {} {}", v, join(&rnd)));
        for k in 0..rank {
            let mut j: Vec<usize> = shape.iter().map(|&d| rng.below(d as u64) as usize).collect();
            j[k] = shape[k] + rng.below(2) as usize;
            ops.push(format!("{} {} {}", if rng.chance(1, 2) { "rd" } else { "get" }, v, join(&j)));
            if writes {
                ops.push(format!("wr {} {} -3", v, join(&j)));
            }
        }
        ops.push(format!("dim {} {}", v, rng.below(rank as u64 + 2)));
    }
    for rank in 0..=4usize {
        let all = hist_shapes(rank, thorough);
        for a in &all {
            let na: usize = a.iter().product();
            // clone(): copy, compare, probe, write to the copy, the original is unchanged
            {
                let mut ops: Vec<String> = vec![format!("mk 0 {} 10", join(a)), "cl 1 0".into(), "dims 1".into(), "eq 1 0".into(), "it 1".into()];
                probes(1, a, &mut rng, true, &mut ops);
                let wi: Vec<usize> = a.iter().map(|&d| rng.below(d as u64) as usize).collect();
                ops.push(format!("wr 1 {} -7", join(&wi)));
                ops.push("it 0".into());
                ops.push("eq 0 1".into());
                ops.push("w 1".into());
                ops.push("cl 0 1".into());
                ops.push("eq 0 1".into());
                emit(format!("h {} ; {}", rank, ops.join(" ; ")));
                st.bump("hist_clone");
            }
            for b in &all {
                let nb: usize = b.iter().product();
                let class = if a == b { "same_shape" } else if na == nb { "same_count_other_shape" } else { "other_count" };
                // the interesting class is enumerated completely, the other two are sampled for larger ranks
                if class == "other_count" && rank >= 3 && !thorough && !rng.chance(1, 4) {
                    continue;
                }
                let mut ops: Vec<String> =
                    vec![format!("mk 0 {} 100", join(a)), format!("mk 1 {} 0", join(b)), "cf 0 1".into(), "dims 0".into(), "eq 0 1".into(), "it 0".into()];
                // the target must now answer like the source (its old shape `a` is gone)
                probes(0, b, &mut rng, true, &mut ops);
                if a != b {
                    probes(0, a, &mut rng, false, &mut ops);
                }
                for k in 0..rank {
                    ops.push(format!("dim 0 {}", k));
                }
                ops.push("w 0".into());
                let wi: Vec<usize> = b.iter().map(|&d| rng.below(d as u64) as usize).collect();
                ops.push(format!("wr 0 {} -9", join(&wi)));
                ops.push("it 1".into());
                ops.push("eq 0 1".into());
                // … and back: the source takes the modified copy
                ops.push("cf 1 0".into());
                ops.push("eq 1 0".into());
                ops.push("it 1".into());
                emit(format!("h {} ; {}", rank, ops.join(" ; ")));
                st.bump(&format!("hist_clone_from_{}", class));
            }
        }
    }
    // random histories: four variables, every op kind, clone_from chains between variables of different shapes
    let n_rand = if thorough { 60000 } else { 2500 } / if debug { 2 } else { 1 };
    for _ in 0..n_rand {
        let rank = 1 + rng.below(3) as usize;
        let hi = if rank == 1 { 6 } else if rank == 2 { 4 } else { 3 };
        // a small pool of shapes, biased towards equal element counts
        let base: Vec<usize> = (0..rank).map(|_| 1 + rng.below(hi) as usize).collect();
        let mut pool: Vec<Vec<usize>> = vec![base.clone()];
        let mut perm = base.clone();
        perm.rotate_left(1);
        pool.push(perm);
        let mut rev = base.clone();
        rev.reverse();
        pool.push(rev);
        pool.push((0..rank).map(|_| 1 + rng.below(hi) as usize).collect());
        let mut cur: [Option<Vec<usize>>; 4] = [None, None, None, None];
        let mut ops: Vec<String> = Vec::new();
        let len = 6 + rng.below(14) as usize;
        let mut n_cf = 0;
        for step in 0..len {
            let live: Vec<usize> = (0..4).filter(|&k| cur[k].is_some()).collect();
            let kind = if live.is_empty() || (step < 2 && live.len() < 2) { 0 } else { rng.below(12) };
            match kind {
                0 => {
                    let s = rng.below(4) as usize;
                    let d = rng.pick(&pool).clone();
                    ops.push(format!("mk {} {} {}", s, join(&d), rng.range_i64(-50, 50) * 10));
                    cur[s] = Some(d);
                }
                1 | 2 | 3 if live.len() >= 2 => {
                    let s = *rng.pick(&live);
                    let r = loop {
                        let r = *rng.pick(&live);
                        if r != s {
                            break r;
                        }
                    };
                    ops.push(format!("cf {} {}", s, r));
                    cur[s] = cur[r].clone();
                    n_cf += 1;
                }
                1 | 2 | 3 | 4 => {
                    let r = *rng.pick(&live);
                    let s = rng.below(4) as usize;
                    ops.push(format!("cl {} {}", s, r));
                    cur[s] = cur[r].clone();
                }
                5 => {
                    let s = *rng.pick(&live);
                    let r = *rng.pick(&live);
                    ops.push(format!("eq {} {}", s, r));
                }
                6 => {
                    let s = *rng.pick(&live);
                    ops.push(if rng.chance(1, 2) { format!("dims {}", s) } else { format!("dim {} {}", s, rng.below(rank as u64 + 1)) });
                }
                7 | 8 | 9 => {
                    let s = *rng.pick(&live);
                    // an index valid for the variable's current shape, for another pool shape, or slightly out of range
                    let shape = if rng.chance(2, 3) { cur[s].clone().unwrap() } else { rng.pick(&pool).clone() };
                    let mut j: Vec<usize> = shape.iter().map(|&d| rng.below(d as u64) as usize).collect();
                    if rng.chance(1, 3) {
                        let k = rng.below(rank as u64) as usize;
                        j[k] = shape[k] + rng.below(2) as usize;
                    }
                    match kind {
                        7 => ops.push(format!("get {} {}", s, join(&j))),
                        8 => ops.push(format!("rd {} {}", s, join(&j))),
                        _ => ops.push(format!("wr {} {} {}", s, join(&j), rng.range_i64(-9, 9))),
                    }
                }
                10 => ops.push(format!("it {}", *rng.pick(&live))),
                _ => ops.push(format!("w {}", *rng.pick(&live))),
            }
        }
        for k in 0..4 {
            if cur[k].is_some() {
                ops.push(format!("dims {}", k));
                ops.push(format!("it {}", k));
            }
        }
        emit(format!("h {} ; {}", rank, ops.join(" ; ")));
        st.bump("hist_random");
        st.add("hist_random_clone_from_ops", n_cf);
    }

    // (6) element-generic histories `g <D> <ty>`: every element type through every operation
    const TYPES: [&str; 7] = ["i64", "str", "f64", "unit", "zst", "nz", "rec"];
    fn has_io(ty: &str) -> bool {
        ty != "f64" && ty != "unit" && ty != "nz"
    }
    fn rand_elem(ty: &str, rng: &mut SplitMix64) -> String {
        match ty {
            "i64" => match rng.below(10) {
                0 => i64::MIN.to_string(),
                1 => i64::MAX.to_string(),
                _ => rng.range_i64(-2, 3).to_string(),
            },
            "str" => rng.pick(&["a", "b", "ab", "A.b", "x-1", "+", "0"]).to_string(),
            "f64" => match rng.below(8) {
                0 | 1 => "nan".to_string(),
                2 => "0.0".to_string(),
                3 => "-0.0".to_string(),
                _ => rng.pick(&["1.0", "-1.0", "1.5", "-2.25", "0.1", "inf", "-inf", "1e300", "0.0", "-0.0"]).to_string(),
            },
            "unit" => "u".to_string(),
            "zst" => "z".to_string(),
            "nz" => "n".to_string(),
            _ => format!("{}:{}", rng.range_i64(0, 3), rng.range_i64(0, 9)),
        }
    }
    fn rand_data(ty: &str, n: usize, rng: &mut SplitMix64) -> Vec<String> {
        // mostly few distinct values, so equal tensors and ties are frequent
        if rng.chance(1, 3) {
            let v = rand_elem(ty, rng);
            (0..n).map(|_| v.clone()).collect()
        } else {
            (0..n).map(|_| rand_elem(ty, rng)).collect()
        }
    }
    // a constructor op for slot `s`: from_vec / from_slice / read (types with IO), `new` when all elements are the same
    fn ctor_op(ty: &str, s: usize, dims: &[usize], data: &[String], rng: &mut SplitMix64) -> String {
        let uniform = data.windows(2).all(|w| w[0] == w[1]) && !data.is_empty();
        let k = rng.below(4);
        if uniform && k == 0 {
            return format!("new {} {} {}", s, join(dims), data[0]);
        }
        let kind = match k {
            1 => "sl",
            2 if has_io(ty) => "rdv",
            _ => "vec",
        };
        format!("{} {} {} {}", kind, s, join(dims), join_s(data))
    }
    fn itx_op(s: usize, n: usize, rng: &mut SplitMix64) -> String {
        // k + j below, at and beyond the length
        let k = rng.below(n as u64 + 2) as usize;
        let j = if rng.chance(1, 2) { 0 } else { rng.below(n as u64 + 2) as usize };
        let left = n.saturating_sub(k).saturating_sub(j);
        match rng.below(8) {
            0 => format!("itx {} {} {} count", s, k, j),
            1 => format!("itx {} {} {} len", s, k, j),
            2 => format!("itx {} {} {} last", s, k, j),
            3 => format!("itx {} {} {} nth {}", s, k, j, rng.below(left as u64 + 2)),
            4 => format!("itx {} {} {} nthb {}", s, k, j, rng.below(left as u64 + 2)),
            5 => format!("itx {} {} {} rev", s, k, j),
            _ => format!("itx {} {} {} rest", s, k, j),
        }
    }
    fn rand_idx(shape: &[usize], oob: bool, rng: &mut SplitMix64) -> Vec<usize> {
        let mut j: Vec<usize> = shape.iter().map(|&d| rng.below(d as u64) as usize).collect();
        if oob && !shape.is_empty() {
            let k = rng.below(shape.len() as u64) as usize;
            j[k] = shape[k] + rng.below(2) as usize;
        }
        j
    }
    // (6a) per type and pair of shapes: ==, != (both orders, the same object on both sides, a clone, a rebuilt copy), iterators,
    //      clone_from into the other shape, indexing afterwards
    for ty in TYPES {
        for rank in 0..=4usize {
            let all = hist_shapes(rank, thorough);
            for a in &all {
                let na: usize = a.iter().product();
                let mut partners: Vec<&Vec<usize>> = all.iter().filter(|b| b.iter().product::<usize>() == na).collect();
                if let Some(b) = all.iter().find(|b| b.iter().product::<usize>() != na) {
                    partners.push(b);
                }
                for b in partners {
                    let nb: usize = b.iter().product();
                    if debug && !rng.chance(1, 2) {
                        continue;
                    }
                    let da = rand_data(ty, na, &mut rng);
                    let db = if na == nb && rng.chance(2, 3) { da.clone() } else { rand_data(ty, nb, &mut rng) };
                    let mut ops: Vec<String> = vec![ctor_op(ty, 0, a, &da, &mut rng), ctor_op(ty, 1, b, &db, &mut rng)];
                    for o in ["eq 0 1", "ne 0 1", "eq 1 0", "eq 0 0", "ne 0 0", "ne 1 1", "cl 2 0", "eq 0 2", "ne 2 0", "dims 2", "it 2", "dbg 2"] {
                        ops.push(o.to_string());
                    }
                    ops.push(itx_op(2, na, &mut rng));
                    ops.push(itx_op(0, na, &mut rng));
                    ops.push("coll 3 1".into());
                    ops.push("eq 3 1".into());
                    ops.push("ne 1 3".into());
                    ops.push(format!("like 3 0 {}", rand_elem(ty, &mut rng)));
                    ops.push("eq 3 0".into());
                    ops.push("dims 3".into());
                    ops.push("cf 2 1".into());
                    ops.push("eq 2 1".into());
                    ops.push("ne 2 0".into());
                    ops.push("dims 2".into());
                    ops.push(format!("get 2 {}", join(&b.iter().map(|d| d - 1).collect::<Vec<_>>())));
                    ops.push(format!("rd 2 {}", join(&rand_idx(b, false, &mut rng))));
                    if rank > 0 {
                        ops.push(format!("get 2 {}", join(&rand_idx(b, true, &mut rng))));
                        ops.push(format!("rd 2 {}", join(&rand_idx(a, rng.chance(1, 2), &mut rng))));
                        ops.push(format!("wr 2 {} {}", join(&rand_idx(b, true, &mut rng)), rand_elem(ty, &mut rng)));
                    }
                    ops.push(format!("wr 2 {} {}", join(&rand_idx(b, false, &mut rng)), rand_elem(ty, &mut rng)));
                    ops.push("eq 2 1".into());
                    ops.push("ne 2 1".into());
                    ops.push("eq 2 2".into());
                    ops.push("it 1".into());
                    ops.push(itx_op(2, nb, &mut rng));
                    if has_io(ty) {
                        ops.push("w 2".into());
                    }
                    ops.push(format!("dim 2 {}", rng.below(rank as u64 + 2)));
                    emit(format!("g {} {} ; {}", rank, ty, ops.join(" ; ")));
                    st.bump(&format!("ghist_pair_{}", ty));
                    st.bump(if a == b { "ghist_pair_same_shape" } else if na == nb { "ghist_pair_same_count_other_shape" } else { "ghist_pair_other_count" });
                }
            }
        }
    }
    // (6b) random histories per element type: four live variables, every op kind
    let n_grand = if thorough { 8000 } else { 450 } / if debug { 2 } else { 1 };
    for ty in TYPES {
        for _ in 0..n_grand {
            let rank = rng.below(4) as usize;
            let hi = if rank <= 1 { 6 } else if rank == 2 { 4 } else { 3 };
            let base: Vec<usize> = (0..rank).map(|_| 1 + rng.below(hi) as usize).collect();
            let mut pool: Vec<Vec<usize>> = vec![base.clone()];
            let mut perm = base.clone();
            if rank > 0 {
                perm.rotate_left(1);
            }
            pool.push(perm);
            let mut rev = base.clone();
            rev.reverse();
            pool.push(rev);
            pool.push((0..rank).map(|_| 1 + rng.below(hi) as usize).collect());
            let mut cur: [Option<Vec<usize>>; 4] = [None, None, None, None];
            let mut ops: Vec<String> = Vec::new();
            let len = 6 + rng.below(16) as usize;
            for step in 0..len {
                let live: Vec<usize> = (0..4).filter(|&k| cur[k].is_some()).collect();
                let kind = if live.is_empty() || (step < 2 && live.len() < 2) { 0 } else { rng.below(20) };
                match kind {
                    0 | 1 => {
                        let s = rng.below(4) as usize;
                        let d = rng.pick(&pool).clone();
                        let n: usize = d.iter().product();
                        let data = rand_data(ty, n, &mut rng);
                        ops.push(ctor_op(ty, s, &d, &data, &mut rng));
                        cur[s] = Some(d);
                        st.bump("ghist_op_ctor");
                    }
                    2 | 3 if live.len() >= 2 => {
                        let s = *rng.pick(&live);
                        let r = loop {
                            let r = *rng.pick(&live);
                            if r != s {
                                break r;
                            }
                        };
                        ops.push(format!("cf {} {}", s, r));
                        cur[s] = cur[r].clone();
                        st.bump("ghist_op_clone_from");
                    }
                    2 | 3 | 4 => {
                        let r = *rng.pick(&live);
                        let s = rng.below(4) as usize;
                        ops.push(format!("cl {} {}", s, r));
                        cur[s] = cur[r].clone();
                        st.bump("ghist_op_clone");
                    }
                    5 => {
                        let r = *rng.pick(&live);
                        let s = rng.below(4) as usize;
                        if rng.chance(1, 2) {
                            ops.push(format!("coll {} {}", s, r));
                        } else {
                            ops.push(format!("like {} {} {}", s, r, rand_elem(ty, &mut rng)));
                        }
                        cur[s] = cur[r].clone();
                        st.bump("ghist_op_rebuild");
                    }
                    6 | 7 | 8 => {
                        let s = *rng.pick(&live);
                        // the same object on both sides one time in three
                        let r = if rng.chance(1, 3) { s } else { *rng.pick(&live) };
                        ops.push(format!("{} {} {}", if rng.chance(1, 2) { "eq" } else { "ne" }, s, r));
                        st.bump(if s == r { "ghist_op_eq_same_object" } else { "ghist_op_eq" });
                    }
                    9 => {
                        let s = *rng.pick(&live);
                        ops.push(if rng.chance(1, 2) { format!("dims {}", s) } else { format!("dim {} {}", s, rng.below(rank as u64 + 1)) });
                    }
                    10 | 11 | 12 | 13 => {
                        let s = *rng.pick(&live);
                        let shape = if rng.chance(2, 3) { cur[s].clone().unwrap() } else { rng.pick(&pool).clone() };
                        let j = rand_idx(&shape, rng.chance(1, 3), &mut rng);
                        match kind {
                            10 => ops.push(format!("get {} {}", s, join(&j))),
                            11 => ops.push(format!("rd {} {}", s, join(&j))),
                            _ => ops.push(format!("wr {} {} {}", s, join(&j), rand_elem(ty, &mut rng))),
                        }
                        st.bump("ghist_op_index");
                    }
                    14 | 15 | 16 => {
                        let s = *rng.pick(&live);
                        let n: usize = cur[s].as_ref().unwrap().iter().product();
                        ops.push(itx_op(s, n, &mut rng));
                        st.bump("ghist_op_iter_partial");
                    }
                    17 => ops.push(format!("it {}", *rng.pick(&live))),
                    18 => ops.push(format!("dbg {}", *rng.pick(&live))),
                    _ => {
                        if has_io(ty) {
                            ops.push(format!("w {}", *rng.pick(&live)));
                        } else {
                            ops.push(format!("dbg {}", *rng.pick(&live)));
                        }
                    }
                }
            }
            for k in 0..4 {
                if cur[k].is_some() {
                    ops.push(format!("dims {}", k));
                    ops.push(format!("it {}", k));
                    ops.push(format!("eq {} {}", k, k));
                }
            }
            emit(format!("g {} {} ; {}", rank, ty, ops.join(" ; ")));
            st.bump(&format!("ghist_random_{}", ty));
        }
    }
    // (6c) shapes beyond the small scope (extents that are powers of two, unit extents, long vectors): offsets, == / != between
    //      shapes with the same count, iterators consumed deep from both ends
    let big: Vec<Vec<usize>> = vec![
        vec![4096],
        vec![99991],
        vec![64, 64],
        vec![300, 7],
        vec![7, 300],
        vec![1, 4096, 1],
        vec![16, 16, 16],
        vec![2, 3, 4, 5],
        vec![5, 4, 3, 2],
        vec![17, 1, 19, 3],
        vec![32, 8, 4, 4],
    ];
    for ty in TYPES {
        for a in &big {
            if !thorough && !debug && ty != "i64" && ty != "unit" && !rng.chance(1, 2) {
                continue;
            }
            if debug && !rng.chance(1, 3) {
                continue;
            }
            if a[0] > 50000 && !thorough && ty != "i64" {
                continue;
            }
            let rank = a.len();
            let n: usize = a.iter().product();
            let mut b = a.clone();
            b.rotate_left(1);
            let v = rand_elem(ty, &mut rng);
            let mut ops: Vec<String> = vec![format!("new 0 {} {}", join(a), v), format!("new 1 {} {}", join(&b), v), "eq 0 1".into(), "ne 0 1".into(), "eq 0 0".into()];
            ops.push("cl 2 0".into());
            ops.push("eq 2 0".into());
            for _ in 0..6 {
                ops.push(format!("get 0 {}", join(&rand_idx(a, false, &mut rng))));
                ops.push(format!("get 1 {}", join(&rand_idx(&b, false, &mut rng))));
            }
            ops.push(format!("get 0 {}", join(&a.iter().map(|d| d - 1).collect::<Vec<_>>())));
            ops.push(format!("rd 0 {}", join(&a.iter().map(|d| d - 1).collect::<Vec<_>>())));
            for _ in 0..3 {
                ops.push(format!("get 0 {}", join(&rand_idx(a, true, &mut rng))));
                ops.push(format!("rd 1 {}", join(&rand_idx(a, false, &mut rng))));
            }
            for (k, j) in [(n - 3, 1usize), (n / 2, 13), (n - 30, 20), (n, 0), (n - 20, 21), (0, 0), (5, 7)] {
                ops.push(format!("itx 0 {} {} count", k, j));
                ops.push(format!("itx 0 {} {} len", k, j));
                ops.push(format!("itx 2 {} {} last", k, j));
                ops.push(format!("itx 1 {} {} rev", k.max(n - 5), j.min(2)));
                ops.push(format!("itx 0 {} {} nth {}", k.min(n / 2), j.min(30), rng.below(n as u64 / 4)));
                ops.push(format!("itx 0 {} {} nthb {}", k.min(n / 2), j.min(30), rng.below(50)));
            }
            ops.push("cf 1 0".into());
            ops.push("eq 1 0".into());
            ops.push("dims 1".into());
            for k in 0..rank {
                ops.push(format!("dim 1 {}", k));
            }
            emit(format!("g {} {} ; {}", rank, ty, ops.join(" ; ")));
            st.bump("ghist_big_shape");
        }
    }
}

fn main() {
    cli(gen, run_case);
}
