//! Shared helpers of all correspondence harness crates (included with `#[path]`).
//!
//! * `SplitMix64` — the only source of randomness (never rlib's own LCG).
//! * `catch`      — run a closure under `catch_unwind`, mapping panics to the model's enum.
//! * `Stats`      — histogram of what the generator produced, printed as JSON on stderr.
//! * `cli`        — the `gen` / `run` command line shared by every engine.
#![allow(dead_code)]

use std::collections::BTreeMap;
use std::io::{BufRead, BufWriter, Write};
use std::panic::{catch_unwind, AssertUnwindSafe};

#[derive(Clone)]
pub struct SplitMix64(pub u64);

impl SplitMix64 {
    pub fn new(seed: u64) -> Self {
        SplitMix64(seed)
    }
    pub fn next_u64(&mut self) -> u64 {
        self.0 = self.0.wrapping_add(0x9E3779B97F4A7C15);
        let mut z = self.0;
        z = (z ^ (z >> 30)).wrapping_mul(0xBF58476D1CE4E5B9);
        z = (z ^ (z >> 27)).wrapping_mul(0x94D049BB133111EB);
        z ^ (z >> 31)
    }
    /// uniform in [0, n)
    pub fn below(&mut self, n: u64) -> u64 {
        assert!(n > 0);
        ((self.next_u64() as u128 * n as u128) >> 64) as u64
    }
    /// uniform in [lo, hi]
    pub fn range_i64(&mut self, lo: i64, hi: i64) -> i64 {
        let span = (hi as i128 - lo as i128 + 1) as u128;
        let r = ((self.next_u64() as u128 * span) >> 64) as i128;
        (lo as i128 + r) as i64
    }
    pub fn chance(&mut self, num: u64, den: u64) -> bool {
        self.below(den) < num
    }
    pub fn pick<'a, T>(&mut self, xs: &'a [T]) -> &'a T {
        &xs[self.below(xs.len() as u64) as usize]
    }
}

/// Map a panic payload to the enum the Lean models use.
pub fn classify_panic(msg: &str) -> String {
    let m = msg;
    if m.contains("divide by zero") || m.contains("divisor of zero") {
        "panic:divzero".into()
    } else if m.contains("index out of bounds")
        || m.contains("out of range for slice")
        || m.contains("range end index")
        || m.contains("range start index")
        || m.contains("slice index starts at")
        || m.contains("copy_from_slice")
        || m.contains("source slice length")
    {
        "panic:index".into()
    } else if m.contains("assertion") {
        "panic:assert".into()
    } else if m.contains("overflow") {
        "panic:overflow".into()
    } else if m.contains("unwrap()") || m.contains("called `Option::expect") {
        "panic:unwrap".into()
    } else {
        // `assert!(cond, "custom text")`, `panic!("…")`, `expect("…")`: the text is not part of any property, and
        // maintainers reword it freely — all of these are one class
        let _ = m;
        "panic:assert".into()
    }
}

pub fn install_quiet_panic_hook() {
    std::panic::set_hook(Box::new(|_| {}));
}

/// Run `f`; a panic becomes `Err(<enum name>)`.
pub fn catch<R>(f: impl FnOnce() -> R) -> Result<R, String> {
    match catch_unwind(AssertUnwindSafe(f)) {
        Ok(r) => Ok(r),
        Err(e) => {
            let msg = if let Some(s) = e.downcast_ref::<&str>() {
                s.to_string()
            } else if let Some(s) = e.downcast_ref::<String>() {
                s.clone()
            } else {
                "non-string".to_string()
            };
            Err(classify_panic(&msg))
        }
    }
}

/// Result line of the implementation: raw result and (optional) spec-level view.
pub fn out2(raw: &str, view: &str) -> String {
    format!("I {} | V {}", raw, view)
}
pub fn out1(raw: &str) -> String {
    format!("I {} | V {}", raw, raw)
}

#[derive(Default)]
pub struct Stats {
    pub counts: BTreeMap<String, u64>,
}

impl Stats {
    pub fn bump(&mut self, k: &str) {
        *self.counts.entry(k.to_string()).or_insert(0) += 1;
    }
    pub fn add(&mut self, k: &str, n: u64) {
        *self.counts.entry(k.to_string()).or_insert(0) += n;
    }
    pub fn to_json(&self) -> String {
        let mut s = String::from("{");
        let mut first = true;
        for (k, v) in &self.counts {
            if !first {
                s.push(',');
            }
            first = false;
            s.push_str(&format!("\"{}\":{}", k, v));
        }
        s.push('}');
        s
    }
}

pub struct Args {
    pub mode: String,
    pub seed: u64,
    pub tier: String,
    pub extra: BTreeMap<String, String>,
}

pub fn parse_args() -> Args {
    let argv: Vec<String> = std::env::args().collect();
    let mode = argv.get(1).cloned().unwrap_or_else(|| "help".into());
    let mut seed = 1u64;
    let mut tier = "quick".to_string();
    let mut extra = BTreeMap::new();
    let mut i = 2;
    while i < argv.len() {
        let k = argv[i].clone();
        let v = argv.get(i + 1).cloned().unwrap_or_default();
        match k.as_str() {
            "--seed" => seed = v.parse().unwrap_or(1),
            "--tier" => tier = v,
            _ => {
                extra.insert(k.trim_start_matches("--").to_string(), v);
            }
        }
        i += 2;
    }
    Args { mode, seed, tier, extra }
}

/// The command line every engine offers:
///   `<engine> gen --seed S --tier T`   case lines on stdout, generator statistics (JSON) on stderr
///   `<engine> run`                     case lines on stdin, one `I <raw> | V <view>` line each on stdout
pub fn cli(
    gen: impl FnOnce(&Args, &mut dyn FnMut(String), &mut Stats),
    mut run_case: impl FnMut(&str) -> String,
) {
    install_quiet_panic_hook();
    let args = parse_args();
    let stdout = std::io::stdout();
    let mut w = BufWriter::with_capacity(1 << 20, stdout.lock());
    match args.mode.as_str() {
        "gen" => {
            let mut stats = Stats::default();
            {
                let mut emit = |s: String| {
                    w.write_all(s.as_bytes()).unwrap();
                    w.write_all(b"\n").unwrap();
                };
                gen(&args, &mut emit, &mut stats);
            }
            w.flush().unwrap();
            eprintln!("{}", stats.to_json());
        }
        "run" => {
            // VERIF_LINE_FLUSH=1: flush after every answer, so that after a crash or a hang the first
            // case without an answer is the culprit (used by `check` to pinpoint it)
            let line_flush = std::env::var("VERIF_LINE_FLUSH").is_ok();
            let stdin = std::io::stdin();
            for line in stdin.lock().lines() {
                let line = line.unwrap();
                let t = line.trim();
                if t.is_empty() {
                    continue;
                }
                let r = run_case(t);
                w.write_all(r.as_bytes()).unwrap();
                w.write_all(b"\n").unwrap();
                if line_flush {
                    w.flush().unwrap();
                }
            }
            w.flush().unwrap();
        }
        _ => {
            eprintln!("usage: gen --seed S --tier quick|thorough | run < cases");
            std::process::exit(2);
        }
    }
}
