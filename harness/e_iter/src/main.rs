//! Correspondence harness for engine `iter` (property C15): drives
//! rlib_iter::{iter_submasks, iter_supermasks, next_permutation, iter_permutations, iter_neighbours_4/4d/8}.
//!
//! Case lines:  `sub:<ty> x` | `sup:<ty> x` | `np a,b,c` | `npk K a,b,c` | `perms a,b,c` | `n4|n4d|n8 n m i j`
//!              `it <sub:<ty> x | sup:<ty> x | perms a,b,c | n4|n4d|n8 n m i j> ; op ; op ; …`  a script of `Iterator`
//!              method calls on ONE iterator value (see `run_script`): every provided method an iterator type can
//!              override, also after partial consumption, with other live iterators of the same kind stepped in between.
//! Output:      `I <raw> | V <view>` where `view = raw` when the brute-force oracle written here agrees with
//!              the collected output and `oracle-mismatch <raw>` otherwise (the property fixes the value).
#[path = "../../common/mod.rs"]
mod common;
use common::*;
use rlib_iter::{
    iter_neighbours_4, iter_neighbours_4d, iter_neighbours_8, iter_permutations, iter_submasks, iter_supermasks,
    next_permutation,
};
use std::collections::HashMap;
use std::fmt::Display;
use std::sync::atomic::{AtomicU64, Ordering};

const TYPES: [&str; 12] = [
    "i8", "u8", "i16", "u16", "i32", "u32", "i64", "u64", "i128", "u128", "isize", "usize",
];

fn bits_of(ty: &str) -> u32 {
    match ty {
        "i8" | "u8" => 8,
        "i16" | "u16" => 16,
        "i32" | "u32" => 32,
        "i64" | "u64" | "isize" | "usize" => 64,
        _ => 128,
    }
}

fn signed(ty: &str) -> bool {
    ty.starts_with('i')
}

// ---------------------------------------------------------------- digest (same as Model/Iter.lean)

const HASH_INIT: u64 = 0xcbf29ce484222325;
fn hash_step(h: u64, v: u64) -> u64 {
    (h ^ v).wrapping_mul(0x100000001b3)
}
fn hash_bits(h: u64, v: u128) -> u64 {
    hash_step(hash_step(h, v as u64), (v >> 64) as u64)
}

fn join<T>(xs: &[T], f: impl Fn(&T) -> String) -> String {
    let mut s = String::from("[");
    for (k, x) in xs.iter().enumerate() {
        if k > 0 {
            s.push(',');
        }
        s.push_str(&f(x));
    }
    s.push(']');
    s
}

/// A collected mask iterator: the whole list when short, else length, ends and a 64-bit digest.
fn show_masks<T: Display + Copy>(v: &[T], bits: &[u128]) -> String {
    if v.len() <= 32 {
        join(v, |x| x.to_string())
    } else {
        let h = bits.iter().fold(HASH_INIT, |h, &b| hash_bits(h, b));
        format!("n={} first={} last={} h={:016x}", v.len(), v[0], v[v.len() - 1], h)
    }
}

fn show_ints(v: &[i64]) -> String {
    join(v, |x| x.to_string())
}

fn show_perms(ls: &[Vec<i64>]) -> String {
    if ls.len() <= 24 {
        join(ls, |l| show_ints(l))
    } else {
        let mut h = HASH_INIT;
        for l in ls {
            for &z in l {
                h = hash_step(h, z as u64);
            }
            h = hash_step(h, u64::MAX);
        }
        format!("n={} first={} last={} h={:016x}", ls.len(), show_ints(&ls[0]), show_ints(&ls[ls.len() - 1]), h)
    }
}

// ---------------------------------------------------------------- brute-force oracles (independent of rlib and of the model)

fn width_mask(w: u32) -> u128 {
    if w == 128 {
        u128::MAX
    } else {
        (1u128 << w) - 1
    }
}

/// positions of the bits of `x` below `w`, ascending
fn bit_positions(x: u128, w: u32) -> Vec<u32> {
    (0..w).filter(|&b| (x >> b) & 1 == 1).collect()
}

/// put the bits of `k` at the given (ascending) positions: monotone in `k`
fn deposit(k: u64, pos: &[u32]) -> u128 {
    let mut v = 0u128;
    for (t, &p) in pos.iter().enumerate() {
        if (k >> t) & 1 == 1 {
            v |= 1u128 << p;
        }
    }
    v
}

const ORACLE_MAX_BITS: usize = 20;
const MAX_FREE_BITS: u32 = 24;
const MAX_STEPS: usize = 100_000;

/// every submask of `x`, decreasing; `None` when there are too many to enumerate
fn oracle_submasks(x: u128, w: u32) -> Option<Vec<u128>> {
    if x < 4096 {
        // by definition: filter the whole range
        return Some((0..=x).rev().filter(|v| v & x == *v).collect());
    }
    let pos = bit_positions(x, w);
    if pos.len() > ORACLE_MAX_BITS {
        return None;
    }
    Some((0..(1u64 << pos.len())).rev().map(|k| deposit(k, &pos)).collect())
}

/// every `w`-bit supermask of `x`, increasing
fn oracle_supermasks(x: u128, w: u32) -> Option<Vec<u128>> {
    if w <= 12 {
        return Some((0..=width_mask(w)).filter(|v| v & x == x).collect());
    }
    let pos = bit_positions(!x & width_mask(w), w);
    if pos.len() > ORACLE_MAX_BITS {
        return None;
    }
    Some((0..(1u64 << pos.len())).map(|k| deposit(k, &pos) | x).collect())
}

/// all arrangements of `rest` appended to `cur` (with repetitions when elements repeat)
fn all_arrangements(cur: &mut Vec<i64>, rest: &mut Vec<i64>, out: &mut Vec<Vec<i64>>) {
    if rest.is_empty() {
        out.push(cur.clone());
        return;
    }
    for k in 0..rest.len() {
        let v = rest.remove(k);
        cur.push(v);
        all_arrangements(cur, rest, out);
        cur.pop();
        rest.insert(k, v);
    }
}

/// visit all arrangements of `rest` appended to `cur` without storing them
fn for_each_arrangement(cur: &mut Vec<i64>, rest: &mut Vec<i64>, f: &mut dyn FnMut(&[i64])) {
    if rest.is_empty() {
        f(cur);
        return;
    }
    for k in 0..rest.len() {
        let v = rest.remove(k);
        cur.push(v);
        for_each_arrangement(cur, rest, f);
        cur.pop();
        rest.insert(k, v);
    }
}

/// by definition: the least arrangement above `d`; when there is none, the least of all and `false`
fn oracle_successor(d: &[i64]) -> (Vec<i64>, bool) {
    let mut best: Option<Vec<i64>> = None;
    let mut least: Option<Vec<i64>> = None;
    for_each_arrangement(&mut Vec::new(), &mut d.to_vec(), &mut |z: &[i64]| {
        if z > d && best.as_deref().map_or(true, |b| z < b) {
            best = Some(z.to_vec());
        }
        if least.as_deref().map_or(true, |l| z < l) {
            least = Some(z.to_vec());
        }
    });
    match best {
        Some(b) => (b, true),
        None => (least.unwrap_or_default(), false),
    }
}

/// every distinct arrangement in lexicographic order (cached per multiset)
struct PermOracle {
    cache: HashMap<Vec<i64>, Vec<Vec<i64>>>,
    stored: usize,
    misses: usize,
}

impl PermOracle {
    fn table(&mut self, d: &[i64]) -> &Vec<Vec<i64>> {
        let mut key = d.to_vec();
        key.sort();
        if self.stored > 1_000_000 {
            self.cache.clear();
            self.stored = 0;
        }
        if !self.cache.contains_key(&key) {
            let mut out = Vec::new();
            all_arrangements(&mut Vec::new(), &mut key.clone(), &mut out);
            out.sort();
            out.dedup();
            self.stored += out.len();
            self.cache.insert(key.clone(), out);
        }
        &self.cache[&key]
    }
    /// the least arrangement above `d`, or the least of all and `false`: from the cached table when there
    /// is one for this multiset (the exhaustive streams), else by a direct scan of all arrangements
    fn successor(&mut self, d: &[i64]) -> (Vec<i64>, bool) {
        let mut key = d.to_vec();
        key.sort();
        if d.len() < 7 || !self.cache.contains_key(&key) && self.misses >= 2 {
            return oracle_successor(d);
        }
        if !self.cache.contains_key(&key) {
            self.misses += 1;
        } else {
            self.misses = 0;
        }
        let t = self.table(d);
        let k = t.partition_point(|z| z.as_slice() <= d);
        if k < t.len() {
            (t[k].clone(), true)
        } else {
            (t[0].clone(), false)
        }
    }
}

const PERM_ORACLE_MAX_LEN: usize = 9;
/// longest sequence `np` / `npk` / `perms` / scripts accept (the driver has the same guard)
const MAX_SEQ_LEN: usize = 64;
/// `perms` lists at most this many arrangements for sequences longer than 9
const MAX_ARRANGEMENTS: u128 = 100_000;
/// scripts: at most this many arrangements / 2^16 masks; `min`/`max` family (quadratic specification) at most 1024 elements
const SCRIPT_MAX_ARRANGEMENTS: u128 = 50_000;
const SCRIPT_MAX_FREE_BITS: u32 = 16;
const SCRIPT_MINMAX_MAX: u128 = 1024;

/// Successor of a long sequence, from the definition of the lexicographic order (no "non-increasing tail"
/// reasoning): the successor shares the longest possible prefix with `d`; at the first position `p` where it
/// differs it carries the smallest value available behind `p` that is above `d[p]`; what follows is the least
/// arrangement (sorted) of what is left.  When no position admits a larger value: the sorted arrangement, `false`.
fn oracle_successor_long(d: &[i64]) -> (Vec<i64>, bool) {
    for p in (0..d.len()).rev() {
        let rest = &d[p + 1..];
        if let Some(&c) = rest.iter().filter(|&&v| v > d[p]).min() {
            let mut out = d[..p].to_vec();
            out.push(c);
            let mut tail = rest.to_vec();
            let k = tail.iter().position(|&v| v == c).unwrap();
            tail[k] = d[p];
            tail.sort();
            out.extend(tail);
            return (out, true);
        }
    }
    let mut s = d.to_vec();
    s.sort();
    (s, false)
}

/// number of distinct arrangements `n! / prod(multiplicity!)` as a product of binomials; `None` when above `cap`
fn num_arrangements(d: &[i64], cap: u128) -> Option<u128> {
    let mut s = d.to_vec();
    s.sort();
    let mut total: u128 = 1;
    let mut placed: u128 = 0;
    let mut k = 0;
    while k < s.len() {
        let mut c = 1;
        while k + c < s.len() && s[k + c] == s[k] {
            c += 1;
        }
        // C(placed + c, c), exact at every step
        let mut b: u128 = 1;
        for i in 1..=(c as u128) {
            b = b * (placed + i) / i;
            if b > cap {
                return None;
            }
        }
        total = total.checked_mul(b)?;
        if total > cap {
            return None;
        }
        placed += c as u128;
        k += c;
    }
    Some(total)
}

/// every distinct arrangement of a multiset in lexicographic order, directly: the next element runs through the
/// distinct values still available, in increasing order
fn distinct_arrangements(counts: &mut Vec<(i64, usize)>, cur: &mut Vec<i64>, n: usize, out: &mut Vec<Vec<i64>>) {
    if cur.len() == n {
        out.push(cur.clone());
        return;
    }
    for k in 0..counts.len() {
        if counts[k].1 > 0 {
            counts[k].1 -= 1;
            cur.push(counts[k].0);
            distinct_arrangements(counts, cur, n, out);
            cur.pop();
            counts[k].1 += 1;
        }
    }
}

fn oracle_arrangements_long(d: &[i64]) -> Vec<Vec<i64>> {
    let mut s = d.to_vec();
    s.sort();
    let mut counts: Vec<(i64, usize)> = Vec::new();
    for v in s {
        match counts.last_mut() {
            Some(l) if l.0 == v => l.1 += 1,
            _ => counts.push((v, 1)),
        }
    }
    let mut out = Vec::new();
    distinct_arrangements(&mut counts, &mut Vec::new(), d.len(), &mut out);
    out
}

/// the expected output of `iter_permutations(d)`: table of all orderings sorted and deduplicated (by definition) for
/// short sequences, the direct enumeration for long ones
fn oracle_perms(po: &mut PermOracle, d: &[i64]) -> Vec<Vec<i64>> {
    if d.len() <= PERM_ORACLE_MAX_LEN {
        po.table(d).clone()
    } else {
        oracle_arrangements_long(d)
    }
}

fn perms_listable(d: &[i64]) -> Option<u128> {
    if d.len() <= PERM_ORACLE_MAX_LEN {
        Some(num_arrangements(d, u128::MAX).unwrap_or(u128::MAX))
    } else if d.len() <= MAX_SEQ_LEN {
        num_arrangements(d, MAX_ARRANGEMENTS)
    } else {
        None
    }
}

fn oracle_neighbours(kind: &str, n: u64, m: u64, i: u64, j: u64) -> Vec<(u64, u64)> {
    let pred = |da: i128, db: i128| -> bool {
        match kind {
            "n4" => da.abs() + db.abs() == 1,
            "n4d" => da.abs() == 1 && db.abs() == 1,
            _ => da.abs().max(db.abs()) == 1,
        }
    };
    let mut out = Vec::new();
    if n <= 64 && m <= 64 {
        // by definition: scan the whole grid
        for a in 0..n {
            for b in 0..m {
                if pred(a as i128 - i as i128, b as i128 - j as i128) {
                    out.push((a, b));
                }
            }
        }
    } else {
        for da in -1i128..=1 {
            for db in -1i128..=1 {
                let (a, b) = (i as i128 + da, j as i128 + db);
                if pred(da, db) && a >= 0 && a < n as i128 && b >= 0 && b < m as i128 {
                    out.push((a as u64, b as u64));
                }
            }
        }
    }
    out.sort();
    out
}

// ---------------------------------------------------------------- running one case

/// `next_permutation` / `iter_permutations` are generic in `T: Ord`; the model works on integers.  Run the same
/// sequence through two other element types whose order mirrors the integers' (`Reverse` of the negated value,
/// and a struct comparing by a string key) and report whether they step the same way.
#[derive(Clone, PartialEq, Eq, PartialOrd, Ord, Debug)]
struct Keyed {
    key: String, // order-preserving encoding of the value
    val: i64,
}

fn keyed(v: i64) -> Keyed {
    // offset to unsigned, fixed width: lexicographic order of the strings = numeric order
    Keyed { key: format!("{:020}", (v as i128 - i64::MIN as i128) as u128), val: v }
}

/// A record ordered by `key` alone: records that compare equal are still distinguishable by `tag`.  Whatever the
/// functions do with equal elements, the records they hand back must be the ones they were given (each exactly once).
#[derive(Clone, Debug)]
struct Tagged {
    key: i64,
    tag: usize,
}
impl PartialEq for Tagged {
    fn eq(&self, o: &Self) -> bool {
        self.key == o.key
    }
}
impl Eq for Tagged {}
impl PartialOrd for Tagged {
    fn partial_cmp(&self, o: &Self) -> Option<std::cmp::Ordering> {
        Some(self.cmp(o))
    }
}
impl Ord for Tagged {
    fn cmp(&self, o: &Self) -> std::cmp::Ordering {
        self.key.cmp(&o.key)
    }
}

fn tagged(d: &[i64]) -> Vec<Tagged> {
    d.iter().enumerate().map(|(tag, &key)| Tagged { key, tag }).collect()
}

/// keys as expected, and the tags are 0..n, each once
fn tagged_ok(v: &[Tagged], keys: &[i64]) -> bool {
    let mut seen = vec![false; v.len()];
    v.len() == keys.len()
        && v.iter().zip(keys).all(|(t, &k)| t.key == k)
        && v.iter().all(|t| t.tag < seen.len() && !std::mem::replace(&mut seen[t.tag], true))
}

fn generic_np_agrees(d: &[i64], expect: &(Vec<i64>, bool)) -> bool {
    use std::cmp::Reverse;
    let mut c = tagged(d);
    let fc = next_permutation(&mut c);
    if fc != expect.1 || !tagged_ok(&c, &expect.0) {
        return false;
    }
    let mut a: Vec<Reverse<i128>> = d.iter().map(|&v| Reverse(-(v as i128))).collect();
    let fa = next_permutation(&mut a);
    let ra: Vec<i64> = a.iter().map(|r| (-r.0) as i64).collect();
    let mut b: Vec<Keyed> = d.iter().map(|&v| keyed(v)).collect();
    let fb = next_permutation(&mut b);
    let rb: Vec<i64> = b.iter().map(|k| k.val).collect();
    (ra, fa) == *expect && (rb, fb) == *expect
}

fn generic_perms_agree(d: &[i64], expect: &[Vec<i64>], limit: usize) -> bool {
    let b: Vec<Keyed> = d.iter().map(|&v| keyed(v)).collect();
    let got: Vec<Vec<i64>> = iter_permutations(b).take(limit).map(|l| l.iter().map(|k| k.val).collect()).collect();
    if got.as_slice() != expect {
        return false;
    }
    let c: Vec<Vec<Tagged>> = iter_permutations(tagged(d)).take(limit).collect();
    c.len() == expect.len() && c.iter().zip(expect).all(|(t, k)| tagged_ok(t, k))
}

/// `diff` = `Some(Some(explanation))` when the brute-force oracle disagrees with the collected output: the view then
/// names the first differing position and the elements around it, so that a replay of a digest-only line explains itself.
fn with_oracle(raw: String, diff: Option<Option<String>>) -> String {
    match diff {
        Some(Some(expl)) => out2(&raw, &format!("oracle-mismatch {} :: {}", expl, raw)),
        _ => out1(&raw),
    }
}

/// element-by-element comparison: `None` when equal, else `@k got [..window..] want [..window..] len g/w`
fn first_diff<T: PartialEq>(got: &[T], want: &[T], show: impl Fn(&T) -> String) -> Option<String> {
    if got == want {
        return None;
    }
    let k = got.iter().zip(want.iter()).position(|(a, b)| a != b).unwrap_or(got.len().min(want.len()));
    let win = |v: &[T]| -> String {
        let lo = k.saturating_sub(2);
        let hi = (k + 3).min(v.len());
        if lo >= hi {
            "[<end>]".to_string()
        } else {
            join(&v[lo..hi], |x| show(x))
        }
    };
    Some(format!("@{} got {} want {} len {}/{}", k, win(got), win(want), got.len(), want.len()))
}

macro_rules! run_masks {
    ($t:ty, $ut:ty, $sub:expr, $tok:expr, $w:expr, $ty:expr) => {{
        let x: $t = if $tok.starts_with('-') { $tok.parse::<i128>().unwrap() as $t } else { $tok.parse::<u128>().unwrap() as $t };
        let xb = (x as $ut) as u128;
        let oracle = if $sub { oracle_submasks(xb, $w) } else { oracle_supermasks(xb, $w) };
        // expected length 2^k; two more so that an over-long (or endless) iterator is seen, not waited for
        let k = if $sub { xb.count_ones() } else { $w - xb.count_ones() };
        if k > MAX_FREE_BITS {
            // 2^k elements: not a case this harness (or the model driver) will enumerate
            return out1("refused:too-many-elements");
        }
        let limit: usize = (1usize << k) + 2;
        match catch(|| {
            if $sub {
                iter_submasks(x).take(limit).collect::<Vec<$t>>()
            } else {
                iter_supermasks(x).take(limit).collect::<Vec<$t>>()
            }
        }) {
            Err(e) => out1(&e),
            Ok(v) => {
                let bits: Vec<u128> = v.iter().map(|&s| (s as $ut) as u128).collect();
                let diff = oracle.map(|o| first_diff(&bits, &o, |b| to_signed_str($ty, *b)));
                with_oracle(show_masks(&v, &bits), diff)
            }
        }
    }};
}

fn run_mask_case(sub: bool, ty: &str, tok: &str) -> String {
    match ty {
        "i8" => run_masks!(i8, u8, sub, tok, 8, ty),
        "u8" => run_masks!(u8, u8, sub, tok, 8, ty),
        "i16" => run_masks!(i16, u16, sub, tok, 16, ty),
        "u16" => run_masks!(u16, u16, sub, tok, 16, ty),
        "i32" => run_masks!(i32, u32, sub, tok, 32, ty),
        "u32" => run_masks!(u32, u32, sub, tok, 32, ty),
        "i64" => run_masks!(i64, u64, sub, tok, 64, ty),
        "u64" => run_masks!(u64, u64, sub, tok, 64, ty),
        "i128" => run_masks!(i128, u128, sub, tok, 128, ty),
        "u128" => run_masks!(u128, u128, sub, tok, 128, ty),
        "isize" => run_masks!(isize, usize, sub, tok, 64, ty),
        "usize" => run_masks!(usize, usize, sub, tok, 64, ty),
        _ => "I bad-type | V bad-type".to_string(),
    }
}

fn parse_list(tok: &str) -> Vec<i64> {
    if tok == "-" || tok.is_empty() {
        Vec::new()
    } else {
        tok.split(',').map(|t| t.parse::<i64>().unwrap()).collect()
    }
}

fn run_case(po: &mut PermOracle, line: &str) -> String {
    if line.starts_with("it ") {
        return run_script_case(po, line);
    }
    let toks: Vec<&str> = line.split_whitespace().collect();
    if toks.is_empty() {
        return "I bad-line | V bad-line".to_string();
    }
    let (op, ty) = match toks[0].split_once(':') {
        Some((o, t)) => (o, t),
        None => (toks[0], ""),
    };
    match (op, toks.len()) {
        ("sub", 2) => run_mask_case(true, ty, toks[1]),
        ("sup", 2) => run_mask_case(false, ty, toks[1]),
        ("np", 2) => {
            let d = parse_list(toks[1]);
            let mut v = d.clone();
            match catch(|| {
                let b = next_permutation(&mut v);
                (v, b)
            }) {
                Err(e) => out1(&e),
                Ok((v, b)) => {
                    let raw = format!("{} {}", show_ints(&v), b);
                    let res = (v, b);
                    if catch(|| generic_np_agrees(&d, &res)) != Ok(true) {
                        return out2(&raw, &format!("generic-mismatch {}", raw));
                    }
                    let want = if d.len() <= PERM_ORACLE_MAX_LEN { po.successor(&d) } else { oracle_successor_long(&d) };
                    let diff = Some(if want == res { None } else { Some(format!("want {} {}", show_ints(&want.0), want.1)) });
                    with_oracle(raw, diff)
                }
            }
        }
        ("npk", 3) => {
            // `npk K a,b,c`: K successive calls of next_permutation; digest of every intermediate content and flag
            let k: usize = toks[1].parse().unwrap_or(0);
            let d = parse_list(toks[2]);
            if k > MAX_STEPS || d.len() > MAX_SEQ_LEN {
                return out1("refused:too-many-elements");
            }
            let mut v = d.clone();
            let mut h = HASH_INIT;
            let mut falses = 0usize;
            let mut expl: Option<String> = None;
            for step in 0..k {
                let before = v.clone();
                let b = match catch(|| {
                    let b = next_permutation(&mut v);
                    (std::mem::take(&mut v), b)
                }) {
                    Err(e) => return out1(&e),
                    Ok((nv, b)) => {
                        v = nv;
                        b
                    }
                };
                for &z in &v {
                    h = hash_step(h, z as u64);
                }
                h = hash_step(h, u64::MAX);
                h = hash_step(h, b as u64);
                if !b {
                    falses += 1;
                }
                if expl.is_none() {
                    let want = if before.len() <= PERM_ORACLE_MAX_LEN { po.successor(&before) } else { oracle_successor_long(&before) };
                    if want != (v.clone(), b) {
                        expl = Some(format!(
                            "@step {} from {} got {} {} want {} {}",
                            step,
                            show_ints(&before),
                            show_ints(&v),
                            b,
                            show_ints(&want.0),
                            want.1
                        ));
                    }
                }
            }
            let raw = format!("steps={} last={} falses={} h={:016x}", k, show_ints(&v), falses, h);
            with_oracle(raw, Some(expl))
        }
        ("perms", 2) => {
            let d = parse_list(toks[1]);
            // the output has `n! / prod(multiplicity!)` elements; two more are asked for, so that an over-long (or endless)
            // iterator is seen, not waited for
            let count = match perms_listable(&d) {
                Some(c) => c as usize,
                None => return out1("refused:too-many-elements"),
            };
            let limit = count + 2;
            match catch(|| iter_permutations(d.clone()).take(limit).collect::<Vec<Vec<i64>>>()) {
                Err(e) => out1(&e),
                Ok(ls) => {
                    if (d.len() <= 7 || (d.len() > PERM_ORACLE_MAX_LEN && count <= 2000))
                        && catch(|| generic_perms_agree(&d, &ls, limit)) != Ok(true)
                    {
                        return out2(&show_perms(&ls), &format!("generic-mismatch {}", show_perms(&ls)));
                    }
                    // re-use of what the iterator returned: every arrangement handed out, given to `next_permutation`,
                    // steps to the one handed out next (the last one wraps to the first, `false`)
                    if ls.len() == count && count <= 6000 {
                        for k in 0..ls.len() {
                            let mut v = ls[k].clone();
                            let r = catch(|| {
                                let b = next_permutation(&mut v);
                                (v, b)
                            });
                            let want = (ls[(k + 1) % ls.len()].clone(), k + 1 < ls.len());
                            if r.as_ref() != Ok(&want) {
                                let raw = show_perms(&ls);
                                return out2(&raw, &format!("reuse-mismatch next_permutation(item {}) is not item {} :: {}", k, k + 1, raw));
                            }
                        }
                    }
                    let diff = Some(first_diff(&ls, &oracle_perms(po, &d), |l| show_ints(l)));
                    with_oracle(show_perms(&ls), diff)
                }
            }
        }
        ("n4", 5) | ("n4d", 5) | ("n8", 5) => {
            let a: Vec<u64> = toks[1..].iter().map(|t| t.parse::<u64>().unwrap()).collect();
            let (n, m, i, j) = (a[0] as usize, a[1] as usize, a[2] as usize, a[3] as usize);
            match catch(|| match op {
                "n4" => iter_neighbours_4(n, m, i, j).collect::<Vec<(usize, usize)>>(),
                "n4d" => iter_neighbours_4d(n, m, i, j).collect::<Vec<(usize, usize)>>(),
                _ => iter_neighbours_8(n, m, i, j).collect::<Vec<(usize, usize)>>(),
            }) {
                Err(e) => out1(&e),
                Ok(v) => {
                    let raw = join(&v, |p| format!("({},{})", p.0, p.1));
                    let mut got: Vec<(u64, u64)> = v.iter().map(|p| (p.0 as u64, p.1 as u64)).collect();
                    got.sort();
                    // same set as the brute-force scan, and no cell twice
                    let want = oracle_neighbours(op, a[0], a[1], a[2], a[3]);
                    let diff = if got == want { None } else { Some(format!("want-set {}", join(&want, |p| format!("({},{})", p.0, p.1)))) };
                    with_oracle(raw, Some(diff))
                }
            }
        }
        _ => "I bad-op | V bad-op".to_string(),
    }
}

// ---------------------------------------------------------------- scripts: the iterator protocol

/// What a script needs to know about the items of an iterator.
trait Elem: Ord + Clone + 'static {
    fn show(&self) -> String;
    fn parse(tok: &str) -> Option<Self>;
    /// parity of the sum of the components (the value itself for integers)
    fn parity(&self) -> bool;
    fn show_coll(v: &[Self]) -> String;
    /// 128-bit fingerprint (used to compare the other live iterators of a script with their own fresh runs)
    fn print(&self) -> u128;
    /// `Iterator::sum` / `product` of the real iterator; `None`: the items are not numbers
    fn sum_real<I: Iterator<Item = Self>>(_it: I) -> Option<String> {
        None
    }
    fn product_real<I: Iterator<Item = Self>>(_it: I) -> Option<String> {
        None
    }
    /// the same from a slice, with checked arithmetic step by step
    fn sum_want(_v: &[Self]) -> Option<String> {
        None
    }
    fn product_want(_v: &[Self]) -> Option<String> {
        None
    }
}

macro_rules! impl_elem_int {
    ($($t:ty, $ut:ty);*) => {$(
        impl Elem for $t {
            fn show(&self) -> String {
                self.to_string()
            }
            fn parse(tok: &str) -> Option<Self> {
                tok.parse::<$t>().ok()
            }
            fn parity(&self) -> bool {
                (*self & 1) != 0
            }
            fn show_coll(v: &[Self]) -> String {
                let bits: Vec<u128> = v.iter().map(|&s| (s as $ut) as u128).collect();
                show_masks(v, &bits)
            }
            fn print(&self) -> u128 {
                (*self as $ut) as u128
            }
            fn sum_real<I: Iterator<Item = Self>>(it: I) -> Option<String> {
                Some(it.sum::<$t>().to_string())
            }
            fn product_real<I: Iterator<Item = Self>>(it: I) -> Option<String> {
                Some(it.product::<$t>().to_string())
            }
            fn sum_want(v: &[Self]) -> Option<String> {
                let mut a: $t = 0;
                for &b in v {
                    match a.checked_add(b) {
                        Some(c) => a = c,
                        None => return Some("panic:overflow".to_string()),
                    }
                }
                Some(a.to_string())
            }
            fn product_want(v: &[Self]) -> Option<String> {
                let mut a: $t = 1;
                for &b in v {
                    match a.checked_mul(b) {
                        Some(c) => a = c,
                        None => return Some("panic:overflow".to_string()),
                    }
                }
                Some(a.to_string())
            }
        }
    )*};
}
impl_elem_int!(i8, u8; u8, u8; i16, u16; u16, u16; i32, u32; u32, u32; i64, u64; u64, u64; i128, u128; u128, u128; isize, usize; usize, usize);

impl Elem for Vec<i64> {
    fn show(&self) -> String {
        show_ints(self)
    }
    fn parse(tok: &str) -> Option<Self> {
        if tok == "-" || tok.is_empty() {
            return Some(Vec::new());
        }
        tok.split(',').map(|t| t.parse::<i64>().ok()).collect()
    }
    fn parity(&self) -> bool {
        self.iter().map(|&v| v as i128).sum::<i128>().rem_euclid(2) == 1
    }
    fn show_coll(v: &[Self]) -> String {
        show_perms(v)
    }
    fn print(&self) -> u128 {
        let mut h = HASH_INIT;
        for &z in self {
            h = hash_step(h, z as u64);
        }
        ((self.len() as u128) << 64) | h as u128
    }
}

impl Elem for (usize, usize) {
    fn show(&self) -> String {
        format!("({},{})", self.0, self.1)
    }
    fn parse(tok: &str) -> Option<Self> {
        let (a, b) = tok.split_once(',')?;
        Some((a.parse::<usize>().ok()?, b.parse::<usize>().ok()?))
    }
    fn parity(&self) -> bool {
        (self.0 as u128 + self.1 as u128) % 2 == 1
    }
    fn show_coll(v: &[Self]) -> String {
        join(v, |p| p.show())
    }
    fn print(&self) -> u128 {
        ((self.0 as u128) << 64) | self.1 as u128
    }
}

fn parse_pred<E: Elem>(tok: &str) -> Option<Box<dyn Fn(&E) -> bool>> {
    if tok == "par" {
        return Some(Box::new(|e: &E| e.parity()));
    }
    let (k, v) = tok.split_once(':')?;
    if v.contains(':') {
        return None;
    }
    let e = E::parse(v)?;
    match k {
        "eq" => Some(Box::new(move |x: &E| *x == e)),
        "lt" => Some(Box::new(move |x: &E| *x < e)),
        "ge" => Some(Box::new(move |x: &E| *x >= e)),
        _ => None,
    }
}

fn parse_key<E: Elem>(tok: &str) -> Option<fn(&E) -> u8> {
    match tok {
        "par" => Some(|e: &E| e.parity() as u8),
        "c0" => Some(|_e: &E| 0u8),
        _ => None,
    }
}

/// is this (well-formed) op one of the `min` / `max` family?  (the driver has the same test)
fn is_minmax(seg: &str) -> bool {
    let t: Vec<&str> = seg.split_whitespace().collect();
    match t.as_slice() {
        ["min"] | ["max"] => true,
        ["minkey", k] | ["maxkey", k] | ["minby", k] | ["maxby", k] => *k == "par" || *k == "c0",
        _ => false,
    }
}

fn show_opt<E: Elem>(name: &str, v: Option<E>) -> String {
    match v {
        Some(e) => format!("{}={}", name, e.show()),
        None => format!("{}=None", name),
    }
}

/// What the ops mean, from the expected sequence `o` (the harness' own brute-force oracle) and a cursor: `pos` =
/// `Some(number of items consumed)`, `None` once the iterator is gone (has returned `None` or was consumed by value).
fn want_step<E: Elem>(o: &[E], pos: &mut Option<usize>, seg: &str) -> String {
    let t: Vec<&str> = seg.split_whitespace().collect();
    let p = match *pos {
        None => return "-".to_string(),
        Some(p) => p,
    };
    let rest = &o[p..];
    let after_match = |pos: &mut Option<usize>, k: Option<usize>| {
        *pos = k.map(|k| p + k + 1);
    };
    match t.as_slice() {
        ["next"] => {
            *pos = if rest.is_empty() { None } else { Some(p + 1) };
            show_opt("next", rest.first().cloned())
        }
        ["hint"] => "hint=ok".to_string(),
        ["nth", k] => match k.parse::<usize>() {
            Ok(k) => {
                *pos = if k < rest.len() { Some(p + k + 1) } else { None };
                show_opt("nth", rest.get(k).cloned())
            }
            Err(_) => "bad-op".to_string(),
        },
        ["take", k] => match k.parse::<usize>() {
            Ok(k) => {
                *pos = if k <= rest.len() { Some(p + k) } else { None };
                format!("take={}", E::show_coll(&rest[..k.min(rest.len())]))
            }
            Err(_) => "bad-op".to_string(),
        },
        ["find", pr] | ["position", pr] | ["any", pr] | ["all", pr] => match parse_pred::<E>(pr) {
            Some(f) => {
                let neg = t[0] == "all";
                let k = rest.iter().position(|e| f(e) != neg);
                after_match(pos, k);
                match t[0] {
                    "find" => show_opt("find", k.map(|k| rest[k].clone())),
                    "position" => k.map_or("position=None".to_string(), |k| format!("position={}", k)),
                    "any" => format!("any={}", k.is_some()),
                    _ => format!("all={}", k.is_none()),
                }
            }
            None => "bad-op".to_string(),
        },
        ["count"] => {
            *pos = None;
            format!("count={}", rest.len())
        }
        ["last"] | ["reduce"] => {
            *pos = None;
            show_opt(t[0], rest.last().cloned())
        }
        ["fold"] | ["foreach"] | ["collect"] => {
            *pos = None;
            format!("{}={}", t[0], E::show_coll(rest))
        }
        ["min"] | ["max"] => {
            *pos = None;
            // least: the first one; greatest: the last one
            let mut best: Option<&E> = None;
            for e in rest {
                best = match best {
                    None => Some(e),
                    Some(b) if t[0] == "min" && e < b => Some(e),
                    Some(b) if t[0] == "max" && e >= b => Some(e),
                    b => b,
                };
            }
            show_opt(t[0], best.cloned())
        }
        ["minkey", k] | ["maxkey", k] | ["minby", k] | ["maxby", k] => match parse_key::<E>(k) {
            Some(key) => {
                *pos = None;
                let min = t[0].starts_with("min");
                let mut best: Option<&E> = None;
                for e in rest {
                    best = match best {
                        None => Some(e),
                        Some(b) if min && key(e) < key(b) => Some(e),
                        Some(b) if !min && key(e) >= key(b) => Some(e),
                        b => b,
                    };
                }
                show_opt(t[0], best.cloned())
            }
            None => "bad-op".to_string(),
        },
        ["sum"] => match E::sum_want(rest) {
            Some(v) => {
                *pos = None;
                format!("sum={}", v)
            }
            None => "bad-op".to_string(),
        },
        ["product"] => match E::product_want(rest) {
            Some(v) => {
                *pos = None;
                format!("product={}", v)
            }
            None => "bad-op".to_string(),
        },
        _ => "bad-op".to_string(),
    }
}

/// One call on the REAL iterator.  `live` = `None` once it has returned `None`, panicked, or was consumed by value.
/// `remaining` = how many items the oracle says are still to come (for `size_hint`).
fn real_step<E: Elem, I: Iterator<Item = E>>(live: &mut Option<I>, remaining: usize, seg: &str) -> String {
    let t: Vec<&str> = seg.split_whitespace().collect();
    if live.is_none() {
        return "-".to_string();
    }
    // ops by `&mut self`
    macro_rules! by_ref {
        ($name:expr, $call:expr, $gone:expr, $show:expr) => {{
            let it = live.as_mut().unwrap();
            match catch(|| $call(it)) {
                Err(e) => {
                    *live = None;
                    format!("{}={}", $name, e)
                }
                Ok(v) => {
                    if $gone(&v) {
                        *live = None;
                    }
                    $show(v)
                }
            }
        }};
    }
    // ops by value
    macro_rules! by_value {
        ($name:expr, $call:expr, $show:expr) => {{
            let it = live.take().unwrap();
            match catch(move || $call(it)) {
                Err(e) => format!("{}={}", $name, e),
                Ok(v) => $show(v),
            }
        }};
    }
    match t.as_slice() {
        ["next"] => by_ref!("next", |it: &mut I| it.next(), |v: &Option<E>| v.is_none(), |v| show_opt("next", v)),
        ["hint"] => {
            let it = live.as_mut().unwrap();
            match catch(|| it.size_hint()) {
                Err(e) => {
                    *live = None;
                    format!("hint={}", e)
                }
                Ok((lo, hi)) => {
                    if lo <= remaining && hi.map_or(true, |h| remaining <= h) {
                        "hint=ok".to_string()
                    } else {
                        format!("hint=bad(lower={},upper={:?},remaining={})", lo, hi, remaining)
                    }
                }
            }
        }
        ["nth", k] => match k.parse::<usize>() {
            Ok(k) => by_ref!("nth", |it: &mut I| it.nth(k), |v: &Option<E>| v.is_none(), |v| show_opt("nth", v)),
            Err(_) => "bad-op".to_string(),
        },
        ["take", k] => match k.parse::<usize>() {
            Ok(k) => by_ref!(
                "take",
                |it: &mut I| it.by_ref().take(k).collect::<Vec<E>>(),
                |v: &Vec<E>| v.len() < k,
                |v: Vec<E>| format!("take={}", E::show_coll(&v))
            ),
            Err(_) => "bad-op".to_string(),
        },
        ["find", pr] => match parse_pred::<E>(pr) {
            Some(f) => by_ref!("find", |it: &mut I| it.find(|e| f(e)), |v: &Option<E>| v.is_none(), |v| show_opt("find", v)),
            None => "bad-op".to_string(),
        },
        ["position", pr] => match parse_pred::<E>(pr) {
            Some(f) => by_ref!(
                "position",
                |it: &mut I| it.position(|e| f(&e)),
                |v: &Option<usize>| v.is_none(),
                |v: Option<usize>| v.map_or("position=None".to_string(), |k| format!("position={}", k))
            ),
            None => "bad-op".to_string(),
        },
        ["any", pr] => match parse_pred::<E>(pr) {
            Some(f) => by_ref!("any", |it: &mut I| it.any(|e| f(&e)), |v: &bool| !*v, |v: bool| format!("any={}", v)),
            None => "bad-op".to_string(),
        },
        ["all", pr] => match parse_pred::<E>(pr) {
            Some(f) => by_ref!("all", |it: &mut I| it.all(|e| f(&e)), |v: &bool| *v, |v: bool| format!("all={}", v)),
            None => "bad-op".to_string(),
        },
        ["count"] => by_value!("count", |it: I| it.count(), |v: usize| format!("count={}", v)),
        ["last"] => by_value!("last", |it: I| it.last(), |v| show_opt("last", v)),
        ["reduce"] => by_value!("reduce", |it: I| it.reduce(|_a, b| b), |v| show_opt("reduce", v)),
        ["fold"] => by_value!(
            "fold",
            |it: I| it.fold(Vec::new(), |mut v: Vec<E>, e| {
                v.push(e);
                v
            }),
            |v: Vec<E>| format!("fold={}", E::show_coll(&v))
        ),
        ["foreach"] => by_value!(
            "foreach",
            |it: I| {
                let mut v: Vec<E> = Vec::new();
                it.for_each(|e| v.push(e));
                v
            },
            |v: Vec<E>| format!("foreach={}", E::show_coll(&v))
        ),
        ["collect"] => by_value!("collect", |it: I| it.collect::<Vec<E>>(), |v: Vec<E>| format!("collect={}", E::show_coll(&v))),
        ["min"] => by_value!("min", |it: I| it.min(), |v| show_opt("min", v)),
        ["max"] => by_value!("max", |it: I| it.max(), |v| show_opt("max", v)),
        ["minkey", k] => match parse_key::<E>(k) {
            Some(key) => by_value!("minkey", |it: I| it.min_by_key(|e| key(e)), |v| show_opt("minkey", v)),
            None => "bad-op".to_string(),
        },
        ["maxkey", k] => match parse_key::<E>(k) {
            Some(key) => by_value!("maxkey", |it: I| it.max_by_key(|e| key(e)), |v| show_opt("maxkey", v)),
            None => "bad-op".to_string(),
        },
        ["minby", k] => match parse_key::<E>(k) {
            Some(key) => by_value!("minby", |it: I| it.min_by(|a, b| key(a).cmp(&key(b))), |v| show_opt("minby", v)),
            None => "bad-op".to_string(),
        },
        ["maxby", k] => match parse_key::<E>(k) {
            Some(key) => by_value!("maxby", |it: I| it.max_by(|a, b| key(a).cmp(&key(b))), |v| show_opt("maxby", v)),
            None => "bad-op".to_string(),
        },
        ["sum"] => {
            if E::sum_want(&[]).is_none() {
                return "bad-op".to_string();
            }
            by_value!("sum", |it: I| E::sum_real(it).unwrap(), |v: String| format!("sum={}", v))
        }
        ["product"] => {
            if E::product_want(&[]).is_none() {
                return "bad-op".to_string();
            }
            by_value!("product", |it: I| E::product_real(it).unwrap(), |v: String| format!("product={}", v))
        }
        _ => "bad-op".to_string(),
    }
}

/// Another live iterator of the same crate, stepped between the ops of a script.  `want` is its own output when run
/// alone (before anything else was created): objects must not influence each other.
struct Decoy {
    what: String,
    next: Box<dyn FnMut() -> Option<u128>>,
    want: Vec<u128>,
    got: Vec<u128>,
    done: bool,
}

impl Decoy {
    /// `mk` is called twice: once for the reference run, once for the object that stays alive during the script
    fn new<E: Elem, I: Iterator<Item = E> + 'static>(what: String, expect_len: usize, mk: impl Fn() -> I) -> Result<Decoy, String> {
        let want: Vec<u128> = catch(|| mk().take(expect_len + 2).map(|e| e.print()).collect())?;
        let mut it = catch(|| mk())?;
        Ok(Decoy { what, next: Box::new(move || it.next().map(|e| e.print())), want, got: Vec::new(), done: false })
    }
    fn tick(&mut self) {
        if !self.done && self.got.len() < self.want.len() + 2 {
            let f = &mut self.next;
            match catch(|| f()) {
                Ok(Some(v)) => self.got.push(v),
                _ => self.done = true,
            }
        }
    }
    fn finish(&mut self) -> Option<String> {
        while !self.done && self.got.len() < self.want.len() + 2 {
            self.tick();
        }
        if self.got == self.want {
            None
        } else {
            let k = self.got.iter().zip(self.want.iter()).position(|(a, b)| a != b).unwrap_or(self.got.len().min(self.want.len()));
            Some(format!("{} differs from its own fresh run at item {} (len {}/{})", self.what, k, self.got.len(), self.want.len()))
        }
    }
}

/// Run a script on one iterator made by `mk`.  `oracle` = the whole expected sequence (the harness' own brute force).
/// 1. a fresh iterator, through `next()` only and at most two items beyond the expected length, must yield `oracle`
///    (so an endless iterator is reported here and the by-value ops below are not run on it);
/// 2. other iterators are created before and after the one under test and advanced by one item before every op;
/// 3. every op is performed on the real iterator and, independently, on `oracle`; the first difference is named.
fn script_case<E: Elem, I: Iterator<Item = E>>(
    mk: &dyn Fn() -> I,
    oracle: &[E],
    mk_decoys: &dyn Fn() -> Result<Vec<Decoy>, String>,
    segs: &[&str],
) -> String {
    match catch(|| mk().take(oracle.len() + 2).collect::<Vec<E>>()) {
        Err(e) => return out1(&e),
        Ok(v) => {
            if let Some(d) = first_diff(&v, oracle, |e| e.show()) {
                let raw = format!("stream={}", E::show_coll(&v));
                return out2(&raw, &format!("oracle-mismatch {} :: {}", d, raw));
            }
        }
    }
    let mut decoys = match mk_decoys() {
        Ok(d) => d,
        Err(e) => return out1(&format!("decoy:{}", e)),
    };
    let it = match catch(|| mk()) {
        Ok(it) => it,
        Err(e) => return out1(&e),
    };
    match mk_decoys() {
        Ok(d) => decoys.extend(d),
        Err(e) => return out1(&format!("decoy:{}", e)),
    }
    let mut live = Some(it);
    let mut pos = Some(0usize);
    let mut outs: Vec<String> = Vec::new();
    let mut problem: Option<String> = None;
    for (k, seg) in segs.iter().enumerate() {
        for d in decoys.iter_mut() {
            d.tick();
        }
        let remaining = pos.map_or(0, |p| oracle.len() - p);
        let got = real_step(&mut live, remaining, seg);
        let want = want_step(oracle, &mut pos, seg);
        if got != want && problem.is_none() {
            problem = Some(format!("@op{} `{}` want {}", k + 1, seg.trim(), want));
        }
        outs.push(got);
    }
    drop(live);
    for d in decoys.iter_mut() {
        if let Some(e) = d.finish() {
            if problem.is_none() {
                problem = Some(format!("interleaved: {}", e));
            }
        }
    }
    let raw = outs.join(" ; ");
    match problem {
        Some(p) => out2(&raw, &format!("oracle-mismatch {} :: {}", p, raw)),
        None => out1(&raw),
    }
}

macro_rules! run_mask_script {
    ($t:ty, $ut:ty, $sub:expr, $tok:expr, $w:expr, $ty:expr, $segs:expr) => {{
        let x: $t = if $tok.starts_with('-') {
            match $tok.parse::<i128>() {
                Ok(v) => v as $t,
                Err(_) => return "I bad-line | V bad-line".to_string(),
            }
        } else {
            match $tok.parse::<u128>() {
                Ok(v) => v as $t,
                Err(_) => return "I bad-line | V bad-line".to_string(),
            }
        };
        let xb = (x as $ut) as u128;
        let k = if $sub { xb.count_ones() } else { $w - xb.count_ones() };
        if k > SCRIPT_MAX_FREE_BITS || (k > 10 && $segs.iter().any(|s| is_minmax(s))) {
            return out1("refused:too-many-elements");
        }
        let n = 1usize << k;
        let oracle: Vec<$t> =
            (if $sub { oracle_submasks(xb, $w) } else { oracle_supermasks(xb, $w) }).unwrap().iter().map(|&b| (b as $ut) as $t).collect();
        // the other live iterators: the same kind on the rotated mask, the other kind on the complement (same length)
        let rot = x.rotate_left(3);
        let sub = $sub;
        let decoys = move || -> Result<Vec<Decoy>, String> {
            Ok(if sub {
                vec![
                    Decoy::new(format!("iter_submasks::<{}>({})", $ty, rot), n, move || iter_submasks(rot))?,
                    Decoy::new(format!("iter_supermasks::<{}>({})", $ty, !x), n, move || iter_supermasks(!x))?,
                ]
            } else {
                vec![
                    Decoy::new(format!("iter_supermasks::<{}>({})", $ty, rot), n, move || iter_supermasks(rot))?,
                    Decoy::new(format!("iter_submasks::<{}>({})", $ty, !x), n, move || iter_submasks(!x))?,
                ]
            })
        };
        if $sub {
            script_case(&|| iter_submasks(x), &oracle, &decoys, $segs)
        } else {
            script_case(&|| iter_supermasks(x), &oracle, &decoys, $segs)
        }
    }};
}

fn run_mask_script_case(sub: bool, ty: &str, tok: &str, segs: &[&str]) -> String {
    match ty {
        "i8" => run_mask_script!(i8, u8, sub, tok, 8, ty, segs),
        "u8" => run_mask_script!(u8, u8, sub, tok, 8, ty, segs),
        "i16" => run_mask_script!(i16, u16, sub, tok, 16, ty, segs),
        "u16" => run_mask_script!(u16, u16, sub, tok, 16, ty, segs),
        "i32" => run_mask_script!(i32, u32, sub, tok, 32, ty, segs),
        "u32" => run_mask_script!(u32, u32, sub, tok, 32, ty, segs),
        "i64" => run_mask_script!(i64, u64, sub, tok, 64, ty, segs),
        "u64" => run_mask_script!(u64, u64, sub, tok, 64, ty, segs),
        "i128" => run_mask_script!(i128, u128, sub, tok, 128, ty, segs),
        "u128" => run_mask_script!(u128, u128, sub, tok, 128, ty, segs),
        "isize" => run_mask_script!(isize, usize, sub, tok, 64, ty, segs),
        "usize" => run_mask_script!(usize, usize, sub, tok, 64, ty, segs),
        _ => "I bad-type | V bad-type".to_string(),
    }
}

/// `it <iterator case> ; op ; op ; …`
fn run_script_case(po: &mut PermOracle, line: &str) -> String {
    let mut parts = line.split(';');
    let hdr: Vec<&str> = parts.next().unwrap_or("").split_whitespace().collect();
    let segs: Vec<&str> = parts.collect();
    if hdr.len() < 2 || hdr[0] != "it" {
        return "I bad-line | V bad-line".to_string();
    }
    let (op, ty) = match hdr[1].split_once(':') {
        Some((o, t)) => (o, t),
        None => (hdr[1], ""),
    };
    match (op, hdr.len()) {
        ("sub", 3) => run_mask_script_case(true, ty, hdr[2], &segs),
        ("sup", 3) => run_mask_script_case(false, ty, hdr[2], &segs),
        ("perms", 3) => {
            let d = parse_list(hdr[2]);
            if d.len() > MAX_SEQ_LEN {
                return out1("refused:too-many-elements");
            }
            let n = match num_arrangements(&d, SCRIPT_MAX_ARRANGEMENTS) {
                Some(n) => n,
                None => return out1("refused:too-many-elements"),
            };
            if n > SCRIPT_MINMAX_MAX && segs.iter().any(|s| is_minmax(s)) {
                return out1("refused:too-many-elements");
            }
            let oracle = oracle_perms(po, &d);
            // the other live iterators: the reversed sequence shifted by one (as many arrangements)
            let other: Vec<i64> = d.iter().rev().map(|v| v.saturating_add(1)).collect();
            let count = n as usize;
            let decoys = move || -> Result<Vec<Decoy>, String> {
                let o = other.clone();
                Ok(vec![Decoy::new(format!("iter_permutations({})", show_ints(&other)), count, move || iter_permutations(o.clone()))?])
            };
            script_case(&|| iter_permutations(d.clone()), &oracle, &decoys, &segs)
        }
        ("n4", 6) | ("n4d", 6) | ("n8", 6) => {
            let a: Vec<u64> = match hdr[2..].iter().map(|t| t.parse::<u64>()).collect::<Result<Vec<u64>, _>>() {
                Ok(a) => a,
                Err(_) => return "I bad-line | V bad-line".to_string(),
            };
            let (n, m, i, j) = (a[0] as usize, a[1] as usize, a[2] as usize, a[3] as usize);
            // expected sequence: the property fixes the order; take the offsets in the documented order and keep the
            // cells of the brute-force scan
            let cells = oracle_neighbours(op, a[0], a[1], a[2], a[3]);
            let order: &[(i128, i128)] = match op {
                "n4" => &[(0, 1), (-1, 0), (0, -1), (1, 0)],
                "n4d" => &[(-1, 1), (-1, -1), (1, -1), (1, 1)],
                _ => &[(0, 1), (-1, 1), (-1, 0), (-1, -1), (0, -1), (1, -1), (1, 0), (1, 1)],
            };
            let oracle: Vec<(usize, usize)> = order
                .iter()
                .map(|&(dx, dy)| (i as i128 + dx, j as i128 + dy))
                .filter(|&(x, y)| x >= 0 && y >= 0 && cells.contains(&(x as u64, y as u64)))
                .map(|(x, y)| (x as usize, y as usize))
                .collect();
            let decoys = move || -> Result<Vec<Decoy>, String> {
                Ok(vec![
                    Decoy::new(format!("iter_neighbours_8({},{},{},{})", m, n, j, i), 8, move || iter_neighbours_8(m, n, j, i))?,
                    Decoy::new(format!("iter_neighbours_4d({},{},{},{})", n, m, i, j), 4, move || iter_neighbours_4d(n, m, i, j))?,
                    Decoy::new(format!("iter_neighbours_4({},{},{},{})", m, n, j, i), 4, move || iter_neighbours_4(m, n, j, i))?,
                ])
            };
            match op {
                "n4" => script_case(&|| iter_neighbours_4(n, m, i, j), &oracle, &decoys, &segs),
                "n4d" => script_case(&|| iter_neighbours_4d(n, m, i, j), &oracle, &decoys, &segs),
                _ => script_case(&|| iter_neighbours_8(n, m, i, j), &oracle, &decoys, &segs),
            }
        }
        _ => "I bad-op | V bad-op".to_string(),
    }
}

// ---------------------------------------------------------------- generators

fn to_signed_str(ty: &str, bits: u128) -> String {
    let w = bits_of(ty);
    if signed(ty) && (bits >> (w - 1)) & 1 == 1 {
        if w == 128 {
            (bits as i128).to_string()
        } else {
            ((bits as i128) - (1i128 << w)).to_string()
        }
    } else {
        bits.to_string()
    }
}

/// a `w`-bit pattern with exactly `k` set bits placed at random, or in a structured way
fn pattern(rng: &mut SplitMix64, w: u32, k: u32) -> u128 {
    let k = k.min(w);
    match rng.below(5) {
        0 => {
            // contiguous run at a random offset
            let off = rng.below((w - k + 1) as u64) as u32;
            if k == 0 {
                0
            } else {
                (width_mask(k)) << off
            }
        }
        1 => {
            // the top bits (sign bit set)
            if k == 0 {
                0
            } else {
                width_mask(k) << (w - k)
            }
        }
        2 => {
            // bits around the 64-bit / byte boundaries
            let mut v = 0u128;
            let mut c = 0;
            let anchors = [0u32, 7, 8, 15, 16, 31, 32, 63, 64, 65, 127];
            let mut tries = 0;
            while c < k {
                // (narrow types have fewer than `k` positions near the anchors: fall back to any position)
                tries += 1;
                let a = anchors[rng.below(anchors.len() as u64) as usize] % w;
                let p = if tries > 400 { rng.below(w as u64) as u32 } else { (a + rng.below(3) as u32) % w };
                if (v >> p) & 1 == 0 {
                    v |= 1u128 << p;
                    c += 1;
                }
            }
            v
        }
        _ => {
            let mut v = 0u128;
            let mut c = 0;
            while c < k {
                let p = rng.below(w as u64) as u32;
                if (v >> p) & 1 == 0 {
                    v |= 1u128 << p;
                    c += 1;
                }
            }
            v
        }
    }
}

fn emit_mask(emit: &mut dyn FnMut(String), st: &mut Stats, sub: bool, ty: &str, bits: u128) {
    let w = bits_of(ty);
    let k = if sub { bits.count_ones() } else { w - bits.count_ones() };
    emit(format!("{}:{} {}", if sub { "sub" } else { "sup" }, ty, to_signed_str(ty, bits)));
    st.bump(if sub { "sub_cases" } else { "sup_cases" });
    st.bump(&format!("mask_{}", ty));
    st.bump(&format!("mask_free_bits_{:02}", k));
    st.add("mask_elements_expected", 1u64 << k);
}

fn list_str(d: &[i64]) -> String {
    if d.is_empty() {
        "-".to_string()
    } else {
        d.iter().map(|x| x.to_string()).collect::<Vec<_>>().join(",")
    }
}

/// emit one `np` case and record which branch of the algorithm it exercises
fn emit_np(emit: &mut dyn FnMut(String), st: &mut Stats, stream: &str, d: &[i64]) {
    emit(format!("np {}", list_str(d)));
    st.bump(stream);
    st.bump(&format!("np_len_{}", d.len()));
    let mut sorted = d.to_vec();
    sorted.sort();
    if sorted.windows(2).any(|p| p[0] == p[1]) {
        st.bump("np_has_duplicates");
    }
    // rightmost ascent
    match (1..d.len()).rev().find(|&i| d[i - 1] < d[i]) {
        None => st.bump("np_branch_nonincreasing_false"),
        Some(i) => {
            st.bump("np_branch_true");
            let pivot = d[i - 1];
            if d[i..].contains(&pivot) {
                // the pivot value occurs again in the suffix: `>` vs `>=` for the swap partner matters
                st.bump("np_pivot_value_repeated_in_suffix");
            }
            if d[i..].iter().filter(|&&v| v > pivot).count() >= 2 {
                st.bump("np_several_candidates_above_pivot");
            }
        }
    }
}

/// A script: 0..=4 calls by `&mut self` (`next`, `size_hint`, `nth`, `by_ref().take`, `find`, `position`, `any`, `all`),
/// usually a `size_hint`, then (9 times out of 10) one call that consumes the iterator by value; sometimes one more op
/// after that (answered with `-`).  `n` = expected length of the sequence; `elem` makes an item literal for predicates.
fn gen_script(
    rng: &mut SplitMix64,
    n: usize,
    elem: &mut dyn FnMut(&mut SplitMix64) -> String,
    numeric: bool,
    minmax_ok: bool,
    st: &mut Stats,
) -> String {
    let mut ops: Vec<String> = Vec::new();
    let mut consuming = 0;
    let pre = *rng.pick(&[0usize, 1, 1, 2, 2, 3, 4]);
    let index = |rng: &mut SplitMix64| -> usize {
        if rng.chance(3, 5) {
            rng.below(3) as usize
        } else {
            rng.below(n as u64 + 2) as usize
        }
    };
    let pred = |rng: &mut SplitMix64, elem: &mut dyn FnMut(&mut SplitMix64) -> String| -> String {
        match rng.below(7) {
            0 => "par".to_string(),
            1 | 2 => format!("eq:{}", elem(rng)),
            3 | 4 => format!("lt:{}", elem(rng)),
            _ => format!("ge:{}", elem(rng)),
        }
    };
    for _ in 0..pre {
        let op = match rng.below(11) {
            0..=3 => "next".to_string(),
            4 | 5 => "hint".to_string(),
            6 => format!("nth {}", index(rng)),
            7 => format!("take {}", index(rng)),
            8 => format!("{} {}", rng.pick(&["find", "position"]), pred(rng, elem)),
            9 => format!("{} {}", rng.pick(&["any", "all"]), pred(rng, elem)),
            _ => "next ; hint".to_string(),
        };
        if !op.starts_with("hint") {
            consuming += 1;
        }
        ops.push(op);
    }
    if rng.chance(1, 2) {
        ops.push("hint".to_string());
    }
    let mut terminal = false;
    if rng.chance(9, 10) {
        let mut choices: Vec<String> =
            ["count", "count", "last", "fold", "foreach", "collect", "reduce"].iter().map(|s| s.to_string()).collect();
        if minmax_ok {
            for s in ["min", "max"] {
                choices.push(s.to_string());
            }
            for s in ["minkey", "maxkey", "minby", "maxby"] {
                choices.push(format!("{} {}", s, rng.pick(&["par", "par", "c0"])));
            }
        }
        if numeric {
            choices.push("sum".to_string());
            choices.push("product".to_string());
        }
        ops.push(rng.pick(&choices).clone());
        terminal = true;
        if rng.chance(1, 6) {
            ops.push(rng.pick(&["next", "hint", "count"]).to_string());
        }
    }
    for o in &ops {
        for part in o.split(" ; ") {
            st.bump(&format!("script_op_{}", part.split_whitespace().next().unwrap_or("")));
        }
    }
    st.bump("script_cases");
    if consuming > 0 && terminal {
        st.bump("script_by_value_call_after_partial_consumption");
    }
    if consuming > 0 && ops.iter().any(|o| o.contains("hint")) {
        st.bump("script_size_hint_with_partial_consumption");
    }
    ops.iter().map(|o| format!(" {}", o)).collect::<Vec<_>>().join(" ;")
}

fn emit_mask_script(emit: &mut dyn FnMut(String), st: &mut Stats, rng: &mut SplitMix64, sub: bool, ty: &str, bits: u128) {
    let w = bits_of(ty);
    let k = if sub { bits.count_ones() } else { w - bits.count_ones() };
    let mut elem = |rng: &mut SplitMix64| -> String {
        let r = (rng.next_u64() as u128) << 64 | rng.next_u64() as u128;
        let v = if sub { bits & r } else { (bits | r) & width_mask(w) };
        to_signed_str(ty, v)
    };
    let ops = gen_script(rng, 1usize << k, &mut elem, true, k <= 10, st);
    emit(format!("it {}:{} {} ;{}", if sub { "sub" } else { "sup" }, ty, to_signed_str(ty, bits), ops));
    st.bump(if sub { "script_sub" } else { "script_sup" });
    st.bump(&format!("script_mask_{}", ty));
}

fn emit_perm_script(emit: &mut dyn FnMut(String), st: &mut Stats, rng: &mut SplitMix64, d: &[i64]) {
    let n = num_arrangements(d, SCRIPT_MAX_ARRANGEMENTS).unwrap_or(0);
    let mut elem = |rng: &mut SplitMix64| -> String {
        let mut e = d.to_vec();
        for k in (1..e.len()).rev() {
            let r = rng.below(k as u64 + 1) as usize;
            e.swap(k, r);
        }
        list_str(&e)
    };
    let ops = gen_script(rng, n as usize, &mut elem, false, n <= SCRIPT_MINMAX_MAX, st);
    emit(format!("it perms {} ;{}", list_str(d), ops));
    st.bump("script_perms");
}

fn gen(args: &Args, emit: &mut dyn FnMut(String), st: &mut Stats) {
    // `--profile debug` (debug assertions on, no optimisation): the same streams at a reduced size - the quick sizes in
    // the thorough tier, the `light` sizes in the quick tier
    let debug = args.extra.get("profile").map_or(false, |p| p == "debug");
    let thorough = args.tier == "thorough" && !debug;
    let light = debug && args.tier != "thorough";
    if debug {
        st.bump("profile_debug_reduced_stream");
    }
    let mut rng = SplitMix64::new(args.seed ^ 0xC15);

    // ---- masks (1): every mask of the 8-bit types; of the 16-bit types exhaustively (thorough) or
    //      every mask with <= 6 free bits plus a 1/16 sample of the rest, seeded (quick)
    for ty in ["u8", "i8"] {
        for x in 0..256u128 {
            emit_mask(emit, st, true, ty, x);
            emit_mask(emit, st, false, ty, x);
        }
    }
    for ty in ["u16", "i16"] {
        for x in 0..65536u128 {
            let pc = x.count_ones();
            let (small, den) = if light { (3, 400) } else { (6, 16) };
            let take_sub = thorough || pc <= small || rng.chance(1, den);
            let take_sup = thorough || 16 - pc <= small || rng.chance(1, den);
            if take_sub {
                emit_mask(emit, st, true, ty, x);
            }
            if take_sup {
                emit_mask(emit, st, false, ty, x);
            }
        }
    }
    // ---- masks (2): wider types, <= 12 free bits, structured and random; boundary patterns
    let per_type = if thorough { 6000 } else if light { 40 } else { 250 };
    for ty in TYPES.iter().filter(|t| bits_of(t) >= 32) {
        let w = bits_of(ty);
        let wm = width_mask(w);
        // boundary: zero, all ones, single bits at the ends, sign bit, MAX of the signed type
        for &b in &[0u128, 1, 1u128 << (w - 1), (1u128 << (w - 1)) - 1, wm, wm - 1, 1u128 << (w - 1) | 1] {
            if b.count_ones() <= 12 {
                emit_mask(emit, st, true, ty, b);
            }
            if w - b.count_ones() <= 12 {
                emit_mask(emit, st, false, ty, b);
            }
        }
        for _ in 0..per_type {
            let k = if rng.chance(1, 8) { rng.below(13) as u32 } else { rng.below(9) as u32 };
            let p = pattern(&mut rng, w, k);
            emit_mask(emit, st, true, ty, p);
            // supermasks: the complement has k zero bits
            // (the model's bit-by-bit `count_zeros` is slow on 128-bit patterns: fewer free bits there in the quick tier)
            let k2 = if rng.chance(1, 8) { rng.below(if w == 128 && !thorough { 10 } else { 13 }) as u32 } else { rng.below(9) as u32 };
            let q = !pattern(&mut rng, w, k2) & wm;
            emit_mask(emit, st, false, ty, q);
        }
    }

    // ---- next_permutation / iter_permutations (1): every sequence over {0,1,2} up to length 7
    let maxlen = if light { 6 } else { 7 };
    for len in 0..=maxlen {
        let total = 3u32.pow(len as u32);
        for code in 0..total {
            let mut c = code;
            let mut d = Vec::with_capacity(len);
            for _ in 0..len {
                d.push((c % 3) as i64);
                c /= 3;
            }
            emit_np(emit, st, "np_alphabet3", &d);
            // iter_permutations depends only on the multiset: emit for sorted inputs, and a few unsorted ones
            let sorted = d.windows(2).all(|p| p[0] <= p[1]);
            if sorted || (len <= 5 && rng.chance(1, 8)) {
                emit(format!("perms {}", list_str(&d)));
                st.bump("perms_alphabet3");
            }
        }
    }
    // ---- (2): every permutation of up to 8 distinct elements (quick: up to 7; the 8! steps are also
    //      covered by the single `perms` case of 8 distinct elements, which makes every one of them)
    let maxdist = if thorough { 8 } else if light { 6 } else { 7 };
    for len in 1..=maxdist {
        let base: Vec<i64> = (0..len as i64).map(|v| v * 3 - 5).collect(); // distinct, some negative
        let mut all = Vec::new();
        all_arrangements(&mut Vec::new(), &mut base.clone(), &mut all);
        for d in &all {
            emit_np(emit, st, "np_distinct", d);
        }
    }
    for len in 0..=8usize {
        let mut d: Vec<i64> = (0..len as i64).map(|v| v * 3 - 5).collect();
        // unsorted input: iter_permutations sorts first
        for k in (1..d.len()).rev() {
            let r = rng.below(k as u64 + 1) as usize;
            d.swap(k, r);
        }
        emit(format!("perms {}", list_str(&d)));
        st.bump("perms_distinct");
    }
    // ---- (3): random multisets with wide values and many duplicates
    let nrand = if thorough { 20000 } else if light { 300 } else { 1500 };
    for _ in 0..nrand {
        let len = rng.below(9) as usize;
        let alpha = 1 + rng.below(4) as i64;
        let wide = rng.chance(1, 6);
        let d: Vec<i64> = (0..len)
            .map(|_| {
                if wide {
                    *rng.pick(&[i64::MIN, i64::MIN + 1, -1, 0, 1, i64::MAX - 1, i64::MAX])
                } else {
                    rng.range_i64(-alpha, alpha)
                }
            })
            .collect();
        emit_np(emit, st, "np_random", &d);
        if len <= 7 && rng.chance(1, 10) {
            emit(format!("perms {}", list_str(&d)));
            st.bump("perms_random");
        }
    }

    // ---- (4) by design: the pivot value occurs again in the non-increasing suffix, next to larger and smaller values
    //      (prefix ++ [x] ++ suffix, suffix non-increasing, contains x and something > x), length <= 7
    let ndup = if thorough { 20000 } else if light { 300 } else { 1500 };
    for _ in 0..ndup {
        let x = rng.range_i64(-2, 2);
        let pre_len = rng.below(3) as usize;
        let mut d: Vec<i64> = (0..pre_len).map(|_| rng.range_i64(-3, 4)).collect();
        d.push(x);
        let room = 7 - d.len();
        let n_above = 1 + rng.below(3.min(room as u64 - 1)) as usize;
        let n_eq = 1 + rng.below(2.min((room - n_above) as u64).max(1)) as usize;
        let n_below = rng.below((room - n_above - n_eq.min(room - n_above)) as u64 + 1) as usize;
        let mut suffix: Vec<i64> = Vec::new();
        for _ in 0..n_above {
            suffix.push(x + 1 + rng.below(2) as i64);
        }
        for _ in 0..n_eq.min(room - n_above) {
            suffix.push(x);
        }
        for _ in 0..n_below {
            suffix.push(x - 1 - rng.below(2) as i64);
        }
        suffix.sort_by(|a, b| b.cmp(a));
        d.extend(suffix);
        emit_np(emit, st, "np_designed_pivot_repeated", &d);
    }
    // ---- (5) walks: K successive steps from a start point; 8 distinct elements and 8-element multisets
    //      (quick: a few hundred start points x 1000 steps; together with the `perms` case of 8 distinct elements,
    //      which steps through all 8! arrangements, this puts the 8-element clause into the quick tier)
    let (nwalk, steps) = if thorough { (1000, 5000) } else if light { (21, 200) } else { (210, 1000) };
    for w in 0..nwalk {
        let mut d: Vec<i64> = if w % 3 == 2 {
            (0..8).map(|_| rng.range_i64(0, 3)).collect()
        } else {
            (0..8i64).map(|v| v * 3 - 5).collect()
        };
        for k in (1..d.len()).rev() {
            let r = rng.below(k as u64 + 1) as usize;
            d.swap(k, r);
        }
        emit(format!("npk {} {}", steps, list_str(&d)));
        st.bump(if w % 3 == 2 { "npk_walks_multiset8" } else { "npk_walks_distinct8" });
        st.add("npk_steps", steps as u64);
    }

    // ---- (6) long sequences with few distinct values (lengths up to 40): `next_permutation` implementations switch
    //      strategy with the length of the tail (linear scan / bisection), so the tail length must be covered as such
    //  (a) systematic: every tail length 1..=39 x 0..=3 copies of the pivot value in the tail x 1..=3 values above it
    let reps = if thorough { 12 } else { 1 };
    for _ in 0..reps {
        for t in 1..=39usize {
            for c in 0..=3usize {
                for a in 1..=3usize {
                    if a + c > t {
                        continue;
                    }
                    let x = rng.range_i64(-1, 1);
                    let mut tail: Vec<i64> = Vec::with_capacity(t);
                    for _ in 0..a {
                        tail.push(x + 1 + rng.below(2) as i64);
                    }
                    for _ in 0..c {
                        tail.push(x);
                    }
                    while tail.len() < t {
                        tail.push(x - 1 - rng.below(2) as i64);
                    }
                    tail.sort_by(|p, q| q.cmp(p));
                    let pre_len = rng.below((40 - 1 - t).min(3) as u64 + 1) as usize;
                    let mut d: Vec<i64> = (0..pre_len).map(|_| rng.range_i64(-2, 2)).collect();
                    d.push(x);
                    d.extend(tail);
                    emit_np(emit, st, "np_long_systematic", &d);
                    st.bump(&format!("np_long_tail_len_{:02}", t));
                }
            }
        }
    }
    //  (b) random: words over 2..=5 letters, length 10..=40, the last part sorted in descending order (so that the pivot
    //      sits at a random depth), plus the extreme shapes
    let nlong = if thorough { 40000 } else if light { 400 } else { 2500 };
    for k in 0..nlong {
        let len = 10 + rng.below(31) as usize;
        let alpha = 1 + rng.below(4) as i64;
        let mut d: Vec<i64> = (0..len).map(|_| rng.range_i64(0, alpha)).collect();
        match k % 8 {
            0 => d.sort(),                       // first arrangement
            1 => d.sort_by(|p, q| q.cmp(p)),     // last arrangement: wraps, returns false
            2 => {}                              // plain random word
            _ => {
                let t = 1 + rng.below(len as u64 - 1) as usize;
                d[len - t..].sort_by(|p, q| q.cmp(p));
            }
        }
        emit_np(emit, st, "np_long_random", &d);
    }
    //  (c) walks over long multisets
    let (nwalk_long, steps_long) = if thorough { (150, 1000) } else if light { (6, 100) } else { (24, 400) };
    for w in 0..nwalk_long {
        let len = 12 + rng.below(29) as usize;
        let alpha = 1 + rng.below(3) as i64;
        let mut d: Vec<i64> = (0..len).map(|_| rng.range_i64(0, alpha)).collect();
        if w % 3 == 0 {
            // start shortly before the last arrangement: the walk wraps around
            d.sort_by(|p, q| q.cmp(p));
            let l = d.len();
            d[l - 6..].reverse();
        } else if w % 3 == 1 {
            let t = 17 + rng.below(len.saturating_sub(17).max(1) as u64) as usize;
            let t = t.min(len - 1);
            d[len - t..].sort_by(|p, q| q.cmp(p));
        }
        emit(format!("npk {} {}", steps_long, list_str(&d)));
        st.bump("npk_walks_long");
        st.add("npk_steps", steps_long as u64);
    }
    //  (d) iter_permutations on long sequences with few arrangements: one majority value and 1..=3 others
    let (nperm_long, cap) = if thorough { (500, 20_000u128) } else if light { (12, 1_000u128) } else { (60, 3_000u128) };
    let mut made = 0;
    let mut long_multisets: Vec<Vec<i64>> = Vec::new();
    while made < nperm_long {
        let len = 10 + rng.below(31) as usize;
        let minority = 1 + rng.below(3) as usize;
        let mut d: Vec<i64> = vec![0; len - minority];
        for _ in 0..minority {
            d.push(*rng.pick(&[-1i64, 1, 1, 2]));
        }
        if num_arrangements(&d, cap).is_none() {
            continue;
        }
        for k in (1..d.len()).rev() {
            let r = rng.below(k as u64 + 1) as usize;
            d.swap(k, r);
        }
        emit(format!("perms {}", list_str(&d)));
        st.bump("perms_long_few_arrangements");
        st.bump(&format!("perms_long_len_{:02}", d.len()));
        if long_multisets.len() < 400 {
            long_multisets.push(d);
        }
        made += 1;
    }

    // ---- scripts: every provided `Iterator` method, also after partial consumption (see `run_script`)
    //  masks (1): every mask of u8 / i8, both iterators, three scripts each
    for ty in ["u8", "i8"] {
        for x in 0..256u128 {
            for sub in [true, false] {
                for _ in 0..(if light { 1 } else { 3 }) {
                    emit_mask_script(emit, st, &mut rng, sub, ty, x);
                }
            }
        }
    }
    //  masks (2): 16-bit and wider types, at most 10 free bits
    let nscript_wide = if thorough { 2000 } else if light { 30 } else { 150 };
    for ty in TYPES.iter().filter(|t| bits_of(t) >= 16) {
        let w = bits_of(ty);
        for _ in 0..nscript_wide {
            let k = if rng.chance(1, 6) { rng.below(11) as u32 } else { rng.below(7) as u32 };
            let sub = rng.chance(1, 2);
            let p = pattern(&mut rng, w, k);
            let bits = if sub { p } else { !p & width_mask(w) };
            emit_mask_script(emit, st, &mut rng, sub, ty, bits);
        }
    }
    //  permutations: every multiset over {0,1,2} up to length 5 (four scripts each), random multisets up to length 7,
    //  and the long sequences with few arrangements
    for len in 0..=5usize {
        for code in 0..3u32.pow(len as u32) {
            let mut c = code;
            let mut d = Vec::with_capacity(len);
            for _ in 0..len {
                d.push((c % 3) as i64);
                c /= 3;
            }
            if d.windows(2).all(|p| p[0] <= p[1]) {
                for _ in 0..4 {
                    emit_perm_script(emit, st, &mut rng, &d);
                }
            }
        }
    }
    let nscript_perm = if thorough { 10000 } else if light { 150 } else { 700 };
    for _ in 0..nscript_perm {
        let len = rng.below(8) as usize;
        let alpha = 1 + rng.below(4) as i64;
        let d: Vec<i64> = (0..len).map(|_| rng.range_i64(-1, alpha - 1)).collect();
        emit_perm_script(emit, st, &mut rng, &d);
    }
    for d in long_multisets.iter().take(if thorough { 400 } else if light { 8 } else { 40 }) {
        emit_perm_script(emit, st, &mut rng, d);
    }
    //  neighbours: small grids at every kind of cell, and large grids at the borders
    let nscript_cell = if thorough { 20000 } else if light { 300 } else { 1500 };
    for k in 0..nscript_cell {
        let (n, m, i, j) = if k % 8 == 0 {
            let n = (1u64 << (1 + rng.below(61))) + rng.below(3);
            let m = (1u64 << (1 + rng.below(61))) + rng.below(3);
            let i = *rng.pick(&[0, n - 1, n - 2, n / 2]);
            let j = *rng.pick(&[0, m - 1, m - 2, m / 2]);
            (n, m, i, j)
        } else {
            let n = rng.below(6);
            let m = rng.below(6);
            (n, m, rng.below(n + 1), rng.below(m + 1))
        };
        let kind = *rng.pick(&["n4", "n4d", "n8"]);
        let hdr = format!("{} {} {} {} {}", kind, n, m, i, j);
        let mut elem = |rng: &mut SplitMix64| -> String {
            format!("{},{}", (i + rng.below(3)).saturating_sub(1), (j + rng.below(3)).saturating_sub(1))
        };
        let ops = gen_script(&mut rng, 8, &mut elem, false, true, st);
        emit(format!("it {} ;{}", hdr, ops));
        st.bump(&format!("script_{}", kind));
    }

    // ---- neighbours (1): every grid up to 6x6 (including 0xk, kx0, 1x1), every cell, and the cells just
    //      outside (i = n, j = m)
    for n in 0..=6u64 {
        for m in 0..=6u64 {
            for i in 0..=n {
                for j in 0..=m {
                    for kind in ["n4", "n4d", "n8"] {
                        emit(format!("{} {} {} {} {}", kind, n, m, i, j));
                        st.bump(&format!("{}_small", kind));
                        st.bump(if n == m { "grid_small_square" } else { "grid_small_nonsquare" });
                        if kind == "n4d" && i == 0 && j == 0 {
                            st.bump(&format!("grid_shape_{}x{}", n, m));
                        }
                        if i >= n || j >= m {
                            st.bump("neighbours_cell_outside");
                        }
                    }
                }
            }
        }
    }
    // ---- (2): large grids, cells on and next to the borders (values < 2^62)
    let nbig = if thorough { 20000 } else if light { 300 } else { 1500 };
    for _ in 0..nbig {
        let big = |rng: &mut SplitMix64| -> u64 {
            match rng.below(5) {
                0 => rng.below(8),
                1 => (1u64 << rng.below(62)) + rng.below(3),
                2 => (1u64 << 62) - 1 - rng.below(3),
                _ => rng.below(1 << 20),
            }
        };
        let (n, m) = (big(&mut rng), big(&mut rng));
        let near = |rng: &mut SplitMix64, n: u64| -> u64 {
            match rng.below(5) {
                0 => 0,
                1 => n.saturating_sub(1),
                2 => n,
                3 => rng.below(n.max(1)),
                _ => n.saturating_sub(2),
            }
        };
        let (i, j) = (near(&mut rng, n), near(&mut rng, m));
        let kind = *rng.pick(&["n4", "n4d", "n8"]);
        emit(format!("{} {} {} {} {}", kind, n, m, i, j));
        st.bump(&format!("{}_big", kind));
    }
}

// ---------------------------------------------------------------- hang detection

/// even = idle, odd = a case is being answered; bumped before and after every case
static CASE_CLOCK: AtomicU64 = AtomicU64::new(0);

/// A call into rlib that never returns (an endless loop in `next_permutation`, a `count()` on an iterator that never
/// ends) cannot be interrupted from inside the process.  The watchdog ends the process when one case has been running
/// for `E_ITER_HANG_S` seconds (default 20; the slowest regular case takes well under a second): `check` then finds
/// the first unanswered case line and reports it as a violation with that input.
fn start_watchdog() {
    let limit = std::env::var("E_ITER_HANG_S").ok().and_then(|v| v.parse::<u64>().ok()).unwrap_or(20);
    std::thread::spawn(move || {
        let mut last = CASE_CLOCK.load(Ordering::SeqCst);
        let mut since = std::time::Instant::now();
        loop {
            std::thread::sleep(std::time::Duration::from_millis(200));
            let c = CASE_CLOCK.load(Ordering::SeqCst);
            if c != last {
                last = c;
                since = std::time::Instant::now();
            } else if c % 2 == 1 && since.elapsed().as_secs() >= limit {
                eprintln!("e_iter: no answer to case number {} within {} s (hang); giving up", c / 2 + 1, limit);
                std::process::exit(3);
            }
        }
    });
}

fn main() {
    let mut po = PermOracle { cache: HashMap::new(), stored: 0, misses: 0 };
    start_watchdog();
    cli(gen, move |line| {
        CASE_CLOCK.fetch_add(1, Ordering::SeqCst);
        let r = run_case(&mut po, line);
        CASE_CLOCK.fetch_add(1, Ordering::SeqCst);
        r
    });
}
