//! Correspondence harness for engine `iter` (property C15): drives
//! rlib_iter::{iter_submasks, iter_supermasks, next_permutation, iter_permutations, iter_neighbours_4/4d/8}.
//!
//! Case lines:  `sub:<ty> x` | `sup:<ty> x` | `np a,b,c` | `perms a,b,c` | `n4|n4d|n8 n m i j`
//! Output:      `I <raw> | V <view>` where `view = raw` when the brute-force oracle written here agrees with
//!              the collected output and `oracle-mismatch <raw>` otherwise (the property fixes the value).
#[path = "../../common/mod.rs"]
mod common;
use common::*;
use rlib_iter::{
    iter_neighbours_4, iter_neighbours_4d, iter_neighbours_8, iter_permutations, iter_submasks, iter_supermasks,
    next_permutation,
};
use std::collections::HashMap;
use std::fmt::Display;

const TYPES: [&str; 12] = [
    "i8", "u8", "i16", "u16", "i32", "u32", "i64", "u64", "i128", "u128", "isize", "usize",
];

fn bits_of(ty: &str) -> u32 {
    match ty {
        "i8" | "u8" => 8,
        "i16" | "u16" => 16,
        "i32" | "u32" => 32,
        "i64" | "u64" | "isize" | "usize" => 64,
        _ => 128,
    }
}

fn signed(ty: &str) -> bool {
    ty.starts_with('i')
}

// ---------------------------------------------------------------- digest (same as Model/Iter.lean)

const HASH_INIT: u64 = 0xcbf29ce484222325;
fn hash_step(h: u64, v: u64) -> u64 {
    (h ^ v).wrapping_mul(0x100000001b3)
}
fn hash_bits(h: u64, v: u128) -> u64 {
    hash_step(hash_step(h, v as u64), (v >> 64) as u64)
}

fn join<T>(xs: &[T], f: impl Fn(&T) -> String) -> String {
    let mut s = String::from("[");
    for (k, x) in xs.iter().enumerate() {
        if k > 0 {
            s.push(',');
        }
        s.push_str(&f(x));
    }
    s.push(']');
    s
}

/// A collected mask iterator: the whole list when short, else length, ends and a 64-bit digest.
fn show_masks<T: Display + Copy>(v: &[T], bits: &[u128]) -> String {
    if v.len() <= 32 {
        join(v, |x| x.to_string())
    } else {
        let h = bits.iter().fold(HASH_INIT, |h, &b| hash_bits(h, b));
        format!("n={} first={} last={} h={:016x}", v.len(), v[0], v[v.len() - 1], h)
    }
}

fn show_ints(v: &[i64]) -> String {
    join(v, |x| x.to_string())
}

fn show_perms(ls: &[Vec<i64>]) -> String {
    if ls.len() <= 24 {
        join(ls, |l| show_ints(l))
    } else {
        let mut h = HASH_INIT;
        for l in ls {
            for &z in l {
                h = hash_step(h, z as u64);
            }
            h = hash_step(h, u64::MAX);
        }
        format!("n={} first={} last={} h={:016x}", ls.len(), show_ints(&ls[0]), show_ints(&ls[ls.len() - 1]), h)
    }
}

// ---------------------------------------------------------------- brute-force oracles (independent of rlib and of the model)

fn width_mask(w: u32) -> u128 {
    if w == 128 {
        u128::MAX
    } else {
        (1u128 << w) - 1
    }
}

/// positions of the bits of `x` below `w`, ascending
fn bit_positions(x: u128, w: u32) -> Vec<u32> {
    (0..w).filter(|&b| (x >> b) & 1 == 1).collect()
}

/// put the bits of `k` at the given (ascending) positions: monotone in `k`
fn deposit(k: u64, pos: &[u32]) -> u128 {
    let mut v = 0u128;
    for (t, &p) in pos.iter().enumerate() {
        if (k >> t) & 1 == 1 {
            v |= 1u128 << p;
        }
    }
    v
}

const ORACLE_MAX_BITS: usize = 20;
const MAX_FREE_BITS: u32 = 24;
const MAX_STEPS: usize = 100_000;

/// every submask of `x`, decreasing; `None` when there are too many to enumerate
fn oracle_submasks(x: u128, w: u32) -> Option<Vec<u128>> {
    if x < 4096 {
        // by definition: filter the whole range
        return Some((0..=x).rev().filter(|v| v & x == *v).collect());
    }
    let pos = bit_positions(x, w);
    if pos.len() > ORACLE_MAX_BITS {
        return None;
    }
    Some((0..(1u64 << pos.len())).rev().map(|k| deposit(k, &pos)).collect())
}

/// every `w`-bit supermask of `x`, increasing
fn oracle_supermasks(x: u128, w: u32) -> Option<Vec<u128>> {
    if w <= 12 {
        return Some((0..=width_mask(w)).filter(|v| v & x == x).collect());
    }
    let pos = bit_positions(!x & width_mask(w), w);
    if pos.len() > ORACLE_MAX_BITS {
        return None;
    }
    Some((0..(1u64 << pos.len())).map(|k| deposit(k, &pos) | x).collect())
}

/// all arrangements of `rest` appended to `cur` (with repetitions when elements repeat)
fn all_arrangements(cur: &mut Vec<i64>, rest: &mut Vec<i64>, out: &mut Vec<Vec<i64>>) {
    if rest.is_empty() {
        out.push(cur.clone());
        return;
    }
    for k in 0..rest.len() {
        let v = rest.remove(k);
        cur.push(v);
        all_arrangements(cur, rest, out);
        cur.pop();
        rest.insert(k, v);
    }
}

/// visit all arrangements of `rest` appended to `cur` without storing them
fn for_each_arrangement(cur: &mut Vec<i64>, rest: &mut Vec<i64>, f: &mut dyn FnMut(&[i64])) {
    if rest.is_empty() {
        f(cur);
        return;
    }
    for k in 0..rest.len() {
        let v = rest.remove(k);
        cur.push(v);
        for_each_arrangement(cur, rest, f);
        cur.pop();
        rest.insert(k, v);
    }
}

/// by definition: the least arrangement above `d`; when there is none, the least of all and `false`
fn oracle_successor(d: &[i64]) -> (Vec<i64>, bool) {
    let mut best: Option<Vec<i64>> = None;
    let mut least: Option<Vec<i64>> = None;
    for_each_arrangement(&mut Vec::new(), &mut d.to_vec(), &mut |z: &[i64]| {
        if z > d && best.as_deref().map_or(true, |b| z < b) {
            best = Some(z.to_vec());
        }
        if least.as_deref().map_or(true, |l| z < l) {
            least = Some(z.to_vec());
        }
    });
    match best {
        Some(b) => (b, true),
        None => (least.unwrap_or_default(), false),
    }
}

/// every distinct arrangement in lexicographic order (cached per multiset)
struct PermOracle {
    cache: HashMap<Vec<i64>, Vec<Vec<i64>>>,
    stored: usize,
    misses: usize,
}

impl PermOracle {
    fn table(&mut self, d: &[i64]) -> &Vec<Vec<i64>> {
        let mut key = d.to_vec();
        key.sort();
        if self.stored > 1_000_000 {
            self.cache.clear();
            self.stored = 0;
        }
        if !self.cache.contains_key(&key) {
            let mut out = Vec::new();
            all_arrangements(&mut Vec::new(), &mut key.clone(), &mut out);
            out.sort();
            out.dedup();
            self.stored += out.len();
            self.cache.insert(key.clone(), out);
        }
        &self.cache[&key]
    }
    /// the least arrangement above `d`, or the least of all and `false`: from the cached table when there
    /// is one for this multiset (the exhaustive streams), else by a direct scan of all arrangements
    fn successor(&mut self, d: &[i64]) -> (Vec<i64>, bool) {
        let mut key = d.to_vec();
        key.sort();
        if d.len() < 7 || !self.cache.contains_key(&key) && self.misses >= 2 {
            return oracle_successor(d);
        }
        if !self.cache.contains_key(&key) {
            self.misses += 1;
        } else {
            self.misses = 0;
        }
        let t = self.table(d);
        let k = t.partition_point(|z| z.as_slice() <= d);
        if k < t.len() {
            (t[k].clone(), true)
        } else {
            (t[0].clone(), false)
        }
    }
}

const PERM_ORACLE_MAX_LEN: usize = 9;

fn oracle_neighbours(kind: &str, n: u64, m: u64, i: u64, j: u64) -> Vec<(u64, u64)> {
    let pred = |da: i128, db: i128| -> bool {
        match kind {
            "n4" => da.abs() + db.abs() == 1,
            "n4d" => da.abs() == 1 && db.abs() == 1,
            _ => da.abs().max(db.abs()) == 1,
        }
    };
    let mut out = Vec::new();
    if n <= 64 && m <= 64 {
        // by definition: scan the whole grid
        for a in 0..n {
            for b in 0..m {
                if pred(a as i128 - i as i128, b as i128 - j as i128) {
                    out.push((a, b));
                }
            }
        }
    } else {
        for da in -1i128..=1 {
            for db in -1i128..=1 {
                let (a, b) = (i as i128 + da, j as i128 + db);
                if pred(da, db) && a >= 0 && a < n as i128 && b >= 0 && b < m as i128 {
                    out.push((a as u64, b as u64));
                }
            }
        }
    }
    out.sort();
    out
}

// ---------------------------------------------------------------- running one case

/// `next_permutation` / `iter_permutations` are generic in `T: Ord`; the model works on integers.  Run the same
/// sequence through two other element types whose order mirrors the integers' (`Reverse` of the negated value,
/// and a struct comparing by a string key) and report whether they step the same way.
#[derive(Clone, PartialEq, Eq, PartialOrd, Ord, Debug)]
struct Keyed {
    key: String, // order-preserving encoding of the value
    val: i64,
}

fn keyed(v: i64) -> Keyed {
    // offset to unsigned, fixed width: lexicographic order of the strings = numeric order
    Keyed { key: format!("{:020}", (v as i128 - i64::MIN as i128) as u128), val: v }
}

fn generic_np_agrees(d: &[i64], expect: &(Vec<i64>, bool)) -> bool {
    use std::cmp::Reverse;
    let mut a: Vec<Reverse<i128>> = d.iter().map(|&v| Reverse(-(v as i128))).collect();
    let fa = next_permutation(&mut a);
    let ra: Vec<i64> = a.iter().map(|r| (-r.0) as i64).collect();
    let mut b: Vec<Keyed> = d.iter().map(|&v| keyed(v)).collect();
    let fb = next_permutation(&mut b);
    let rb: Vec<i64> = b.iter().map(|k| k.val).collect();
    (ra, fa) == *expect && (rb, fb) == *expect
}

fn generic_perms_agree(d: &[i64], expect: &[Vec<i64>], limit: usize) -> bool {
    let b: Vec<Keyed> = d.iter().map(|&v| keyed(v)).collect();
    let got: Vec<Vec<i64>> = iter_permutations(b).take(limit).map(|l| l.iter().map(|k| k.val).collect()).collect();
    got.as_slice() == expect
}

/// `diff` = `Some(Some(explanation))` when the brute-force oracle disagrees with the collected output: the view then
/// names the first differing position and the elements around it, so that a replay of a digest-only line explains itself.
fn with_oracle(raw: String, diff: Option<Option<String>>) -> String {
    match diff {
        Some(Some(expl)) => out2(&raw, &format!("oracle-mismatch {} :: {}", expl, raw)),
        _ => out1(&raw),
    }
}

/// element-by-element comparison: `None` when equal, else `@k got [..window..] want [..window..] len g/w`
fn first_diff<T: PartialEq>(got: &[T], want: &[T], show: impl Fn(&T) -> String) -> Option<String> {
    if got == want {
        return None;
    }
    let k = got.iter().zip(want.iter()).position(|(a, b)| a != b).unwrap_or(got.len().min(want.len()));
    let win = |v: &[T]| -> String {
        let lo = k.saturating_sub(2);
        let hi = (k + 3).min(v.len());
        if lo >= hi {
            "[<end>]".to_string()
        } else {
            join(&v[lo..hi], |x| show(x))
        }
    };
    Some(format!("@{} got {} want {} len {}/{}", k, win(got), win(want), got.len(), want.len()))
}

macro_rules! run_masks {
    ($t:ty, $ut:ty, $sub:expr, $tok:expr, $w:expr, $ty:expr) => {{
        let x: $t = if $tok.starts_with('-') { $tok.parse::<i128>().unwrap() as $t } else { $tok.parse::<u128>().unwrap() as $t };
        let xb = (x as $ut) as u128;
        let oracle = if $sub { oracle_submasks(xb, $w) } else { oracle_supermasks(xb, $w) };
        // expected length 2^k; two more so that an over-long (or endless) iterator is seen, not waited for
        let k = if $sub { xb.count_ones() } else { $w - xb.count_ones() };
        if k > MAX_FREE_BITS {
            // 2^k elements: not a case this harness (or the model driver) will enumerate
            return out1("refused:too-many-elements");
        }
        let limit: usize = (1usize << k) + 2;
        match catch(|| {
            if $sub {
                iter_submasks(x).take(limit).collect::<Vec<$t>>()
            } else {
                iter_supermasks(x).take(limit).collect::<Vec<$t>>()
            }
        }) {
            Err(e) => out1(&e),
            Ok(v) => {
                let bits: Vec<u128> = v.iter().map(|&s| (s as $ut) as u128).collect();
                let diff = oracle.map(|o| first_diff(&bits, &o, |b| to_signed_str($ty, *b)));
                with_oracle(show_masks(&v, &bits), diff)
            }
        }
    }};
}

fn run_mask_case(sub: bool, ty: &str, tok: &str) -> String {
    match ty {
        "i8" => run_masks!(i8, u8, sub, tok, 8, ty),
        "u8" => run_masks!(u8, u8, sub, tok, 8, ty),
        "i16" => run_masks!(i16, u16, sub, tok, 16, ty),
        "u16" => run_masks!(u16, u16, sub, tok, 16, ty),
        "i32" => run_masks!(i32, u32, sub, tok, 32, ty),
        "u32" => run_masks!(u32, u32, sub, tok, 32, ty),
        "i64" => run_masks!(i64, u64, sub, tok, 64, ty),
        "u64" => run_masks!(u64, u64, sub, tok, 64, ty),
        "i128" => run_masks!(i128, u128, sub, tok, 128, ty),
        "u128" => run_masks!(u128, u128, sub, tok, 128, ty),
        "isize" => run_masks!(isize, usize, sub, tok, 64, ty),
        "usize" => run_masks!(usize, usize, sub, tok, 64, ty),
        _ => "I bad-type | V bad-type".to_string(),
    }
}

fn parse_list(tok: &str) -> Vec<i64> {
    if tok == "-" || tok.is_empty() {
        Vec::new()
    } else {
        tok.split(',').map(|t| t.parse::<i64>().unwrap()).collect()
    }
}

fn factorial(n: usize) -> usize {
    (1..=n).product::<usize>().max(1)
}

fn run_case(po: &mut PermOracle, line: &str) -> String {
    let toks: Vec<&str> = line.split_whitespace().collect();
    if toks.is_empty() {
        return "I bad-line | V bad-line".to_string();
    }
    let (op, ty) = match toks[0].split_once(':') {
        Some((o, t)) => (o, t),
        None => (toks[0], ""),
    };
    match (op, toks.len()) {
        ("sub", 2) => run_mask_case(true, ty, toks[1]),
        ("sup", 2) => run_mask_case(false, ty, toks[1]),
        ("np", 2) => {
            let d = parse_list(toks[1]);
            let mut v = d.clone();
            match catch(|| {
                let b = next_permutation(&mut v);
                (v, b)
            }) {
                Err(e) => out1(&e),
                Ok((v, b)) => {
                    let raw = format!("{} {}", show_ints(&v), b);
                    let res = (v, b);
                    if catch(|| generic_np_agrees(&d, &res)) != Ok(true) {
                        return out2(&raw, &format!("generic-mismatch {}", raw));
                    }
                    let diff = if d.len() <= PERM_ORACLE_MAX_LEN {
                        let want = po.successor(&d);
                        Some(if want == res { None } else { Some(format!("want {} {}", show_ints(&want.0), want.1)) })
                    } else {
                        None
                    };
                    with_oracle(raw, diff)
                }
            }
        }
        ("npk", 3) => {
            // `npk K a,b,c`: K successive calls of next_permutation; digest of every intermediate content and flag
            let k: usize = toks[1].parse().unwrap_or(0);
            let d = parse_list(toks[2]);
            if k > MAX_STEPS || d.len() > PERM_ORACLE_MAX_LEN {
                return out1("refused:too-many-elements");
            }
            let mut v = d.clone();
            let mut h = HASH_INIT;
            let mut falses = 0usize;
            let mut expl: Option<String> = None;
            for step in 0..k {
                let before = v.clone();
                let b = match catch(|| {
                    let b = next_permutation(&mut v);
                    (std::mem::take(&mut v), b)
                }) {
                    Err(e) => return out1(&e),
                    Ok((nv, b)) => {
                        v = nv;
                        b
                    }
                };
                for &z in &v {
                    h = hash_step(h, z as u64);
                }
                h = hash_step(h, u64::MAX);
                h = hash_step(h, b as u64);
                if !b {
                    falses += 1;
                }
                if expl.is_none() {
                    let want = po.successor(&before);
                    if want != (v.clone(), b) {
                        expl = Some(format!(
                            "@step {} from {} got {} {} want {} {}",
                            step,
                            show_ints(&before),
                            show_ints(&v),
                            b,
                            show_ints(&want.0),
                            want.1
                        ));
                    }
                }
            }
            let raw = format!("steps={} last={} falses={} h={:016x}", k, show_ints(&v), falses, h);
            with_oracle(raw, Some(expl))
        }
        ("perms", 2) => {
            let d = parse_list(toks[1]);
            if d.len() > PERM_ORACLE_MAX_LEN {
                return out1("refused:too-many-elements");
            }
            let limit = factorial(d.len()) + 2;
            match catch(|| iter_permutations(d.clone()).take(limit).collect::<Vec<Vec<i64>>>()) {
                Err(e) => out1(&e),
                Ok(ls) => {
                    if d.len() <= 7 && catch(|| generic_perms_agree(&d, &ls, limit)) != Ok(true) {
                        return out2(&show_perms(&ls), &format!("generic-mismatch {}", show_perms(&ls)));
                    }
                    let diff =
                        if d.len() <= PERM_ORACLE_MAX_LEN { Some(first_diff(&ls, po.table(&d), |l| show_ints(l))) } else { None };
                    with_oracle(show_perms(&ls), diff)
                }
            }
        }
        ("n4", 5) | ("n4d", 5) | ("n8", 5) => {
            let a: Vec<u64> = toks[1..].iter().map(|t| t.parse::<u64>().unwrap()).collect();
            let (n, m, i, j) = (a[0] as usize, a[1] as usize, a[2] as usize, a[3] as usize);
            match catch(|| match op {
                "n4" => iter_neighbours_4(n, m, i, j).collect::<Vec<(usize, usize)>>(),
                "n4d" => iter_neighbours_4d(n, m, i, j).collect::<Vec<(usize, usize)>>(),
                _ => iter_neighbours_8(n, m, i, j).collect::<Vec<(usize, usize)>>(),
            }) {
                Err(e) => out1(&e),
                Ok(v) => {
                    let raw = join(&v, |p| format!("({},{})", p.0, p.1));
                    let mut got: Vec<(u64, u64)> = v.iter().map(|p| (p.0 as u64, p.1 as u64)).collect();
                    got.sort();
                    // same set as the brute-force scan, and no cell twice
                    let want = oracle_neighbours(op, a[0], a[1], a[2], a[3]);
                    let diff = if got == want { None } else { Some(format!("want-set {}", join(&want, |p| format!("({},{})", p.0, p.1)))) };
                    with_oracle(raw, Some(diff))
                }
            }
        }
        _ => "I bad-op | V bad-op".to_string(),
    }
}

// ---------------------------------------------------------------- generators

fn to_signed_str(ty: &str, bits: u128) -> String {
    let w = bits_of(ty);
    if signed(ty) && (bits >> (w - 1)) & 1 == 1 {
        if w == 128 {
            (bits as i128).to_string()
        } else {
            ((bits as i128) - (1i128 << w)).to_string()
        }
    } else {
        bits.to_string()
    }
}

/// a `w`-bit pattern with exactly `k` set bits placed at random, or in a structured way
fn pattern(rng: &mut SplitMix64, w: u32, k: u32) -> u128 {
    let k = k.min(w);
    match rng.below(5) {
        0 => {
            // contiguous run at a random offset
            let off = rng.below((w - k + 1) as u64) as u32;
            if k == 0 {
                0
            } else {
                (width_mask(k)) << off
            }
        }
        1 => {
            // the top bits (sign bit set)
            if k == 0 {
                0
            } else {
                width_mask(k) << (w - k)
            }
        }
        2 => {
            // bits around the 64-bit / byte boundaries
            let mut v = 0u128;
            let mut c = 0;
            let anchors = [0u32, 7, 8, 15, 16, 31, 32, 63, 64, 65, 127];
            while c < k {
                let a = anchors[rng.below(anchors.len() as u64) as usize] % w;
                let p = (a + rng.below(3) as u32) % w;
                if (v >> p) & 1 == 0 {
                    v |= 1u128 << p;
                    c += 1;
                }
            }
            v
        }
        _ => {
            let mut v = 0u128;
            let mut c = 0;
            while c < k {
                let p = rng.below(w as u64) as u32;
                if (v >> p) & 1 == 0 {
                    v |= 1u128 << p;
                    c += 1;
                }
            }
            v
        }
    }
}

fn emit_mask(emit: &mut dyn FnMut(String), st: &mut Stats, sub: bool, ty: &str, bits: u128) {
    let w = bits_of(ty);
    let k = if sub { bits.count_ones() } else { w - bits.count_ones() };
    emit(format!("{}:{} {}", if sub { "sub" } else { "sup" }, ty, to_signed_str(ty, bits)));
    st.bump(if sub { "sub_cases" } else { "sup_cases" });
    st.bump(&format!("mask_{}", ty));
    st.bump(&format!("mask_free_bits_{:02}", k));
    st.add("mask_elements_expected", 1u64 << k);
}

fn list_str(d: &[i64]) -> String {
    if d.is_empty() {
        "-".to_string()
    } else {
        d.iter().map(|x| x.to_string()).collect::<Vec<_>>().join(",")
    }
}

/// emit one `np` case and record which branch of the algorithm it exercises
fn emit_np(emit: &mut dyn FnMut(String), st: &mut Stats, stream: &str, d: &[i64]) {
    emit(format!("np {}", list_str(d)));
    st.bump(stream);
    st.bump(&format!("np_len_{}", d.len()));
    let mut sorted = d.to_vec();
    sorted.sort();
    if sorted.windows(2).any(|p| p[0] == p[1]) {
        st.bump("np_has_duplicates");
    }
    // rightmost ascent
    match (1..d.len()).rev().find(|&i| d[i - 1] < d[i]) {
        None => st.bump("np_branch_nonincreasing_false"),
        Some(i) => {
            st.bump("np_branch_true");
            let pivot = d[i - 1];
            if d[i..].contains(&pivot) {
                // the pivot value occurs again in the suffix: `>` vs `>=` for the swap partner matters
                st.bump("np_pivot_value_repeated_in_suffix");
            }
            if d[i..].iter().filter(|&&v| v > pivot).count() >= 2 {
                st.bump("np_several_candidates_above_pivot");
            }
        }
    }
}

fn gen(args: &Args, emit: &mut dyn FnMut(String), st: &mut Stats) {
    let thorough = args.tier == "thorough";
    let mut rng = SplitMix64::new(args.seed ^ 0xC15);

    // ---- masks (1): every mask of the 8-bit types; of the 16-bit types exhaustively (thorough) or
    //      every mask with <= 6 free bits plus a 1/16 sample of the rest, seeded (quick)
    for ty in ["u8", "i8"] {
        for x in 0..256u128 {
            emit_mask(emit, st, true, ty, x);
            emit_mask(emit, st, false, ty, x);
        }
    }
    for ty in ["u16", "i16"] {
        for x in 0..65536u128 {
            let pc = x.count_ones();
            let take_sub = thorough || pc <= 6 || rng.chance(1, 16);
            let take_sup = thorough || 16 - pc <= 6 || rng.chance(1, 16);
            if take_sub {
                emit_mask(emit, st, true, ty, x);
            }
            if take_sup {
                emit_mask(emit, st, false, ty, x);
            }
        }
    }
    // ---- masks (2): wider types, <= 12 free bits, structured and random; boundary patterns
    let per_type = if thorough { 6000 } else { 250 };
    for ty in TYPES.iter().filter(|t| bits_of(t) >= 32) {
        let w = bits_of(ty);
        let wm = width_mask(w);
        // boundary: zero, all ones, single bits at the ends, sign bit, MAX of the signed type
        for &b in &[0u128, 1, 1u128 << (w - 1), (1u128 << (w - 1)) - 1, wm, wm - 1, 1u128 << (w - 1) | 1] {
            if b.count_ones() <= 12 {
                emit_mask(emit, st, true, ty, b);
            }
            if w - b.count_ones() <= 12 {
                emit_mask(emit, st, false, ty, b);
            }
        }
        for _ in 0..per_type {
            let k = if rng.chance(1, 8) { rng.below(13) as u32 } else { rng.below(9) as u32 };
            let p = pattern(&mut rng, w, k);
            emit_mask(emit, st, true, ty, p);
            // supermasks: the complement has k zero bits
            // (the model's bit-by-bit `count_zeros` is slow on 128-bit patterns: fewer free bits there in the quick tier)
            let k2 = if rng.chance(1, 8) { rng.below(if w == 128 && !thorough { 10 } else { 13 }) as u32 } else { rng.below(9) as u32 };
            let q = !pattern(&mut rng, w, k2) & wm;
            emit_mask(emit, st, false, ty, q);
        }
    }

    // ---- next_permutation / iter_permutations (1): every sequence over {0,1,2} up to length 7
    let maxlen = 7;
    for len in 0..=maxlen {
        let total = 3u32.pow(len as u32);
        for code in 0..total {
            let mut c = code;
            let mut d = Vec::with_capacity(len);
            for _ in 0..len {
                d.push((c % 3) as i64);
                c /= 3;
            }
            emit_np(emit, st, "np_alphabet3", &d);
            // iter_permutations depends only on the multiset: emit for sorted inputs, and a few unsorted ones
            let sorted = d.windows(2).all(|p| p[0] <= p[1]);
            if sorted || (len <= 5 && rng.chance(1, 8)) {
                emit(format!("perms {}", list_str(&d)));
                st.bump("perms_alphabet3");
            }
        }
    }
    // ---- (2): every permutation of up to 8 distinct elements (quick: up to 7; the 8! steps are also
    //      covered by the single `perms` case of 8 distinct elements, which makes every one of them)
    let maxdist = if thorough { 8 } else { 7 };
    for len in 1..=maxdist {
        let base: Vec<i64> = (0..len as i64).map(|v| v * 3 - 5).collect(); // distinct, some negative
        let mut all = Vec::new();
        all_arrangements(&mut Vec::new(), &mut base.clone(), &mut all);
        for d in &all {
            emit_np(emit, st, "np_distinct", d);
        }
    }
    for len in 0..=8usize {
        let mut d: Vec<i64> = (0..len as i64).map(|v| v * 3 - 5).collect();
        // unsorted input: iter_permutations sorts first
        for k in (1..d.len()).rev() {
            let r = rng.below(k as u64 + 1) as usize;
            d.swap(k, r);
        }
        emit(format!("perms {}", list_str(&d)));
        st.bump("perms_distinct");
    }
    // ---- (3): random multisets with wide values and many duplicates
    let nrand = if thorough { 20000 } else { 1500 };
    for _ in 0..nrand {
        let len = rng.below(9) as usize;
        let alpha = 1 + rng.below(4) as i64;
        let wide = rng.chance(1, 6);
        let d: Vec<i64> = (0..len)
            .map(|_| {
                if wide {
                    *rng.pick(&[i64::MIN, i64::MIN + 1, -1, 0, 1, i64::MAX - 1, i64::MAX])
                } else {
                    rng.range_i64(-alpha, alpha)
                }
            })
            .collect();
        emit_np(emit, st, "np_random", &d);
        if len <= 7 && rng.chance(1, 10) {
            emit(format!("perms {}", list_str(&d)));
            st.bump("perms_random");
        }
    }

    // ---- (4) by design: the pivot value occurs again in the non-increasing suffix, next to larger and smaller values
    //      (prefix ++ [x] ++ suffix, suffix non-increasing, contains x and something > x), length <= 7
    let ndup = if thorough { 20000 } else { 1500 };
    for _ in 0..ndup {
        let x = rng.range_i64(-2, 2);
        let pre_len = rng.below(3) as usize;
        let mut d: Vec<i64> = (0..pre_len).map(|_| rng.range_i64(-3, 4)).collect();
        d.push(x);
        let room = 7 - d.len();
        let n_above = 1 + rng.below(3.min(room as u64 - 1)) as usize;
        let n_eq = 1 + rng.below(2.min((room - n_above) as u64).max(1)) as usize;
        let n_below = rng.below((room - n_above - n_eq.min(room - n_above)) as u64 + 1) as usize;
        let mut suffix: Vec<i64> = Vec::new();
        for _ in 0..n_above {
            suffix.push(x + 1 + rng.below(2) as i64);
        }
        for _ in 0..n_eq.min(room - n_above) {
            suffix.push(x);
        }
        for _ in 0..n_below {
            suffix.push(x - 1 - rng.below(2) as i64);
        }
        suffix.sort_by(|a, b| b.cmp(a));
        d.extend(suffix);
        emit_np(emit, st, "np_designed_pivot_repeated", &d);
    }
    // ---- (5) walks: K successive steps from a start point; 8 distinct elements and 8-element multisets
    //      (quick: a few hundred start points x 1000 steps; together with the `perms` case of 8 distinct elements,
    //      which steps through all 8! arrangements, this puts the 8-element clause into the quick tier)
    let (nwalk, steps) = if thorough { (1000, 5000) } else { (210, 1000) };
    for w in 0..nwalk {
        let mut d: Vec<i64> = if w % 3 == 2 {
            (0..8).map(|_| rng.range_i64(0, 3)).collect()
        } else {
            (0..8i64).map(|v| v * 3 - 5).collect()
        };
        for k in (1..d.len()).rev() {
            let r = rng.below(k as u64 + 1) as usize;
            d.swap(k, r);
        }
        emit(format!("npk {} {}", steps, list_str(&d)));
        st.bump(if w % 3 == 2 { "npk_walks_multiset8" } else { "npk_walks_distinct8" });
        st.add("npk_steps", steps as u64);
    }

    // ---- neighbours (1): every grid up to 6x6 (including 0xk, kx0, 1x1), every cell, and the cells just
    //      outside (i = n, j = m)
    for n in 0..=6u64 {
        for m in 0..=6u64 {
            for i in 0..=n {
                for j in 0..=m {
                    for kind in ["n4", "n4d", "n8"] {
                        emit(format!("{} {} {} {} {}", kind, n, m, i, j));
                        st.bump(&format!("{}_small", kind));
                        st.bump(if n == m { "grid_small_square" } else { "grid_small_nonsquare" });
                        if kind == "n4d" && i == 0 && j == 0 {
                            st.bump(&format!("grid_shape_{}x{}", n, m));
                        }
                        if i >= n || j >= m {
                            st.bump("neighbours_cell_outside");
                        }
                    }
                }
            }
        }
    }
    // ---- (2): large grids, cells on and next to the borders (values < 2^62)
    let nbig = if thorough { 20000 } else { 1500 };
    for _ in 0..nbig {
        let big = |rng: &mut SplitMix64| -> u64 {
            match rng.below(5) {
                0 => rng.below(8),
                1 => (1u64 << rng.below(62)) + rng.below(3),
                2 => (1u64 << 62) - 1 - rng.below(3),
                _ => rng.below(1 << 20),
            }
        };
        let (n, m) = (big(&mut rng), big(&mut rng));
        let near = |rng: &mut SplitMix64, n: u64| -> u64 {
            match rng.below(5) {
                0 => 0,
                1 => n.saturating_sub(1),
                2 => n,
                3 => rng.below(n.max(1)),
                _ => n.saturating_sub(2),
            }
        };
        let (i, j) = (near(&mut rng, n), near(&mut rng, m));
        let kind = *rng.pick(&["n4", "n4d", "n8"]);
        emit(format!("{} {} {} {} {}", kind, n, m, i, j));
        st.bump(&format!("{}_big", kind));
    }
}

fn main() {
    let mut po = PermOracle { cache: HashMap::new(), stored: 0, misses: 0 };
    cli(gen, move |line| run_case(&mut po, line));
}
